import Glas.Model.LaCheck
import Glas.Lemmas.CheckSound
/-!
# Soundness of the look-ahead certificate checker, part 1: bounds, lists, expressions
-/
namespace Glas.LaCheck
open Glas.Dsl Glas.Check

/-! ## what a bound says -/

/-- `la` obeys `b`: nothing consumed since the procedure's entry (`pos = pos0`) and `la ≤ e + off`, or `la ≤ cst` -/
def HoldsC (b : Bd) (e pos0 pos la : Nat) : Prop :=
  (pos = pos0 ∧ ∃ o, b.off = some o ∧ la ≤ e + o) ∨ la ≤ b.cst

/-- every value `b` allows is within the budget `F` -/
def Fits (F e : Nat) (b : Bd) : Prop := (∀ o, b.off = some o → e + o ≤ F) ∧ b.cst ≤ F

theorem ole_some {a b : Option Nat} {x : Nat} (h : ole a b = true) (ha : a = some x) :
    ∃ y, b = some y ∧ x ≤ y := by
  subst ha
  cases b with
  | none => simp [ole] at h
  | some y => exact ⟨y, rfl, by simpa [ole] using h⟩

theorem omax_left {a b : Option Nat} {x : Nat} (ha : a = some x) : ∃ z, omax a b = some z ∧ x ≤ z := by
  subst ha
  cases b with
  | none => exact ⟨x, rfl, Nat.le_refl _⟩
  | some y => exact ⟨max x y, rfl, Nat.le_max_left _ _⟩

theorem omax_right {a b : Option Nat} {y : Nat} (hb : b = some y) : ∃ z, omax a b = some z ∧ y ≤ z := by
  subst hb
  cases a with
  | none => exact ⟨y, rfl, Nat.le_refl _⟩
  | some x => exact ⟨max x y, rfl, Nat.le_max_right _ _⟩

theorem HoldsC.le {a b : Bd} {e p0 p la : Nat} (hab : a.le b = true) (h : HoldsC a e p0 p la) :
    HoldsC b e p0 p la := by
  simp only [Bd.le, Bool.and_eq_true, decide_eq_true_eq] at hab
  rcases h with ⟨hp, o, ho, hla⟩ | h
  · obtain ⟨y, hy, hxy⟩ := ole_some hab.1 ho
    exact Or.inl ⟨hp, y, hy, by omega⟩
  · exact Or.inr (by omega)

theorem HoldsC.join_left {a b : Bd} {e p0 p la : Nat} (h : HoldsC a e p0 p la) :
    HoldsC (a.join b) e p0 p la := by
  rcases h with ⟨hp, o, ho, hla⟩ | h
  · obtain ⟨z, hz, hoz⟩ := omax_left (b := b.off) ho
    exact Or.inl ⟨hp, z, hz, by omega⟩
  · exact Or.inr (Nat.le_trans h (Nat.le_max_left _ _))

theorem HoldsC.join_right {a b : Bd} {e p0 p la : Nat} (h : HoldsC b e p0 p la) :
    HoldsC (a.join b) e p0 p la := by
  rcases h with ⟨hp, o, ho, hla⟩ | h
  · obtain ⟨z, hz, hoz⟩ := omax_right (a := a.off) ho
    exact Or.inl ⟨hp, z, hz, by omega⟩
  · exact Or.inr (Nat.le_trans h (Nat.le_max_right _ _))

theorem HoldsC.add {b : Bd} {e p0 p la la' c : Nat} (h : HoldsC b e p0 p la) (hla : la' ≤ la + c) :
    HoldsC (b.add c) e p0 p la' := by
  rcases h with ⟨hp, o, ho, hl⟩ | h
  · exact Or.inl ⟨hp, o + c, by simp [Bd.add, ho], by omega⟩
  · exact Or.inr (by simp only [Bd.add]; omega)

theorem HoldsC.zero (b : Bd) (e p0 p : Nat) : HoldsC b e p0 p 0 := Or.inr (Nat.zero_le _)

theorem HoldsC.entry (e p : Nat) : HoldsC Bd.entry e p p e := Or.inl ⟨rfl, 0, rfl, Nat.le_refl _⟩

theorem Fits.join {F e : Nat} {a b : Bd} (h : Fits F e (a.join b)) : Fits F e a ∧ Fits F e b := by
  obtain ⟨h1, h2⟩ := h
  simp only [Bd.join] at h1 h2
  refine ⟨⟨fun o ho => ?_, Nat.le_trans (Nat.le_max_left _ _) h2⟩, ⟨fun o ho => ?_, Nat.le_trans (Nat.le_max_right _ _) h2⟩⟩
  · obtain ⟨z, hz, hoz⟩ := omax_left (b := b.off) ho
    have := h1 z hz; omega
  · obtain ⟨z, hz, hoz⟩ := omax_right (a := a.off) ho
    have := h1 z hz; omega

theorem Fits.join_intro {F e : Nat} {a b : Bd} (ha : Fits F e a) (hb : Fits F e b) : Fits F e (a.join b) := by
  refine ⟨fun o ho => ?_, Nat.max_le.mpr ⟨ha.2, hb.2⟩⟩
  simp only [Bd.join] at ho
  cases hao : a.off with
  | none =>
    rw [hao] at ho
    simp only [omax] at ho
    exact hb.1 o ho
  | some x =>
    cases hbo : b.off with
    | none =>
      rw [hao, hbo] at ho
      simp only [omax, Option.some.injEq] at ho
      subst ho; exact ha.1 x hao
    | some y =>
      rw [hao, hbo] at ho
      simp only [omax, Option.some.injEq] at ho
      subst ho
      have := ha.1 x hao
      have := hb.1 y hbo
      rcases Nat.le_total x y with h | h
      · rw [Nat.max_eq_right h]; omega
      · rw [Nat.max_eq_left h]; omega

theorem Fits.bot (F e : Nat) : Fits F e Bd.bot := ⟨fun o ho => (by cases ho), Nat.zero_le _⟩

theorem Fits.entry (F : Nat) : Fits F 0 Bd.entry :=
  ⟨fun o ho => (by simp only [Bd.entry, Option.some.injEq] at ho; omega), Nat.zero_le _⟩

theorem Fits.of_le {F e : Nat} {a b : Bd} (hab : a.le b = true) (h : Fits F e b) : Fits F e a := by
  simp only [Bd.le, Bool.and_eq_true, decide_eq_true_eq] at hab
  refine ⟨fun o ho => ?_, Nat.le_trans hab.2 h.2⟩
  obtain ⟨y, hy, hxy⟩ := ole_some hab.1 ho
  have := h.1 y hy; omega

/-- the look-ahead guard cannot fire at an evaluation whose bound fits the budget -/
theorem noStuck {b : Bd} {e p0 p la c F : Nat} (h : HoldsC b e p0 p la) (hf : Fits F e (b.add c)) :
    la + c ≤ F := by
  rcases h with ⟨_, o, ho, hl⟩ | h
  · have := hf.1 (o + c) (by simp [Bd.add, ho]); omega
  · have := hf.2; simp only [Bd.add] at this; omega

theorem Fits.compose {b s : Bd} {e p0 p e' F : Nat} (h : HoldsC b e p0 p e') (hf : Fits F e (Bd.compose b s)) :
    Fits F e' s := by
  obtain ⟨h1, h2⟩ := hf
  simp only [Bd.compose] at h1 h2
  refine ⟨fun so hso => ?_, Nat.le_trans (Nat.le_max_left _ _) h2⟩
  rcases h with ⟨_, o, ho, hl⟩ | h
  · have := h1 (o + so) (by simp [ho, hso]); omega
  · have : b.cst + so ≤ F := by
      refine Nat.le_trans ?_ h2
      simp only [hso]
      exact Nat.le_max_right _ _
    omega

theorem HoldsC.compose {b s : Bd} {e p0 p e' la' : Nat} (h : HoldsC b e p0 p e') (hs : HoldsC s e' p p la') :
    HoldsC (Bd.compose b s) e p0 p la' := by
  rcases hs with ⟨_, so, hso, hl⟩ | hs
  · rcases h with ⟨hp, o, ho, hle⟩ | h
    · exact Or.inl ⟨hp, o + so, by simp [Bd.compose, ho, hso], by omega⟩
    · refine Or.inr ?_
      simp only [Bd.compose, hso]
      have : b.cst + so ≤ max s.cst (b.cst + so) := Nat.le_max_right _ _
      omega
  · exact Or.inr (Nat.le_trans hs (Nat.le_max_left _ _))

theorem Fits.compose_entry {s : Bd} {F : Nat} (h : Fits F 0 s) : Fits F 0 (Bd.compose Bd.entry s) := by
  obtain ⟨h1, h2⟩ := h
  cases hs : s.off with
  | none => exact ⟨fun o ho => by simp [Bd.compose, Bd.entry, hs] at ho, by simp [Bd.compose, hs]; exact h2⟩
  | some so =>
    have := h1 so hs
    refine ⟨fun o ho => ?_, ?_⟩
    · simp only [Bd.compose, Bd.entry, hs, Option.some.injEq] at ho
      omega
    · simp only [Bd.compose, Bd.entry, hs]
      exact Nat.max_le.mpr ⟨h2, by omega⟩

theorem fitsB_iff {F e : Nat} {b : Bd} : fitsB F e b = true ↔ Fits F e b := by
  unfold fitsB Fits
  cases hb : b.off with
  | none => simp
  | some o => simp

theorem Fits.mem_joinAll {F e : Nat} {x : LS} {l : List LS} (hx : x ∈ l) (h : Fits F e (joinAll l)) :
    Fits F e x.b := by
  induction l with
  | nil => cases hx
  | cons y l ih =>
    simp only [joinAll] at h
    rcases List.mem_cons.mp hx with rfl | hx
    · exact h.join.1
    · exact ih hx h.join.2

theorem Fits.mem_callHi {F e : Nat} {S : Sum} {x : LS} {l : List LS} (hx : x ∈ l) (h : Fits F e (callHi S l)) :
    Fits F e (Bd.compose x.b S.hi) := by
  induction l with
  | nil => cases hx
  | cons y l ih =>
    simp only [callHi] at h
    rcases List.mem_cons.mp hx with rfl | hx
    · exact h.join.1
    · exact ih hx h.join.2

/-! ## lists of states -/

theorem mem_addNewL {x y : LS} {l : List LS} : y ∈ addNewL x l ↔ y = x ∨ y ∈ l := by
  unfold addNewL
  split
  · rename_i h
    constructor
    · intro hy; exact Or.inr hy
    · rintro (rfl | hy)
      · exact h
      · exact hy
  · simp

theorem mem_unionLS {y : LS} {a b : List LS} : y ∈ unionLS a b ↔ y ∈ a ∨ y ∈ b := by
  unfold unionLS
  induction a with
  | nil => simp
  | cons x xs ih =>
    simp only [List.foldr_cons, mem_addNewL, ih, List.mem_cons]
    constructor
    · rintro (h | h | h)
      · exact Or.inl (Or.inl h)
      · exact Or.inl (Or.inr h)
      · exact Or.inr h
    · rintro ((h | h) | h)
      · exact Or.inl h
      · exact Or.inr (Or.inl h)
      · exact Or.inr (Or.inr h)

theorem mem_dedupLS {y : LS} {a : List LS} : y ∈ dedupLS a ↔ y ∈ a := by
  unfold dedupLS; rw [mem_unionLS]; simp

theorem mem_addCost {c : Nat} {x : LS} {l : List LS} (hx : x ∈ l) : (⟨x.a, x.b.add c⟩ : LS) ∈ addCost c l :=
  List.mem_map.mpr ⟨x, hx, rfl⟩

theorem mem_refineL {eofK : Nat} {c : Expr} {t : Bool} {x : LS} {l : List LS} {a' : AState}
    (hx : x ∈ l) (ha : a' ∈ refine eofK c t x.a) : (⟨a', x.b⟩ : LS) ∈ refineL eofK c t l :=
  mem_dedupLS.mpr (List.mem_flatMap.mpr ⟨x, hx, List.mem_map.mpr ⟨a', ha, rfl⟩⟩)

/-! ## expressions -/

theorem evalE_cost (P : Prog) (toks : List Kind) (pos : Nat) (l : List Nat) (e : Expr) :
    (evalE P toks pos l e).2 ≤ exprCost e := by
  induction e with
  | lit n => simp [evalE, exprCost]
  | var x => simp [evalE, exprCost]
  | nth k => simp [evalE, exprCost]
  | eof => simp [evalE, exprCost]
  | inSet s e ih => simpa [evalE, exprCost] using ih
  | eq a b iha ihb => simp only [evalE, exprCost]; omega
  | lt a b iha ihb => simp only [evalE, exprCost]; omega
  | not a ih => simpa [evalE, exprCost] using ih
  | and a b iha ihb =>
    simp only [evalE, exprCost]
    split
    · simp only []; omega
    · simp only []; omega
  | or a b iha ihb =>
    simp only [evalE, exprCost]
    split
    · simp only []; omega
    · simp only []; omega
  | tbl t e ih => simpa [evalE, exprCost] using ih

theorem evalIn_none {P : Prog} {σ : St} {fr : Frame} {e : Expr} (h : evalIn P σ fr e = none) :
    P.fuel < σ.la + exprCost e := by
  unfold evalIn at h
  simp only [] at h
  split at h
  · rename_i hgt
    have := evalE_cost P σ.toks σ.pos fr.locals e
    omega
  · cases h

theorem evalIn_la {P : Prog} {σ σ' : St} {fr : Frame} {e : Expr} {v : Nat}
    (h : evalIn P σ fr e = some (v, σ')) : σ'.la ≤ σ.la + exprCost e := by
  unfold evalIn at h
  simp only [] at h
  split at h
  · cases h
  · cases h
    have := evalE_cost P σ.toks σ.pos fr.locals e
    simp only []; omega

theorem evalArgs_none {P : Prog} {fr : Frame} {es : List Expr} :
    ∀ {σ : St}, evalArgs P σ fr es = none → P.fuel < σ.la + argsCost es := by
  induction es with
  | nil => intro σ h; simp [evalArgs] at h
  | cons e es ih =>
    intro σ h
    simp only [evalArgs] at h
    split at h
    · rename_i h1
      have := evalIn_none h1
      simp only [argsCost]; omega
    · rename_i v σ1 h1
      split at h
      · rename_i h2
        have := ih h2
        have := evalIn_la h1
        simp only [argsCost]; omega
      · cases h

theorem evalArgs_la {P : Prog} {fr : Frame} {es : List Expr} :
    ∀ {σ σ' : St} {vs : List Nat}, evalArgs P σ fr es = some (vs, σ') → σ'.la ≤ σ.la + argsCost es := by
  induction es with
  | nil => intro σ σ' vs h; simp only [evalArgs] at h; cases h; simp [argsCost]
  | cons e es ih =>
    intro σ σ' vs h
    simp only [evalArgs] at h
    split at h
    · cases h
    · rename_i v σ1 h1
      split at h
      · cases h
      · rename_i vs' σ2 h2
        cases h
        have := ih h2
        have := evalIn_la h1
        simp only [argsCost]; omega

end Glas.LaCheck
