import Glas.Model.ScopeSpec
/-!
# Scope arena basics: representation of an environment by a parent chain, stability under
arena extension, `resolveChain`/`chainEntries` on a represented environment, `addBindings`
filling the freshly allocated last scope, association-list lookup with distinct keys.
-/
namespace Glas.Scope

/-- the parent chain starting at `o` lists exactly the frames of `env`; parents are older scopes -/
def Repr (arena : List ScopeData) : Option Nat → Env → Prop
  | none, [] => True
  | some sc, fr :: env =>
    ∃ d, arena[sc]? = some d ∧ d.entries = fr ∧ (∀ p, d.parent = some p → p < sc) ∧
      Repr arena d.parent env
  | none, _ :: _ => False
  | some _, [] => False

theorem getElem?_of_prefix {α} {A F : List α} (h : A <+: F) {i : Nat} {d : α}
    (hd : A[i]? = some d) : F[i]? = some d := by
  obtain ⟨t, rfl⟩ := h
  have hi : i < A.length := by
    rcases Nat.lt_or_ge i A.length with h | h
    · exact h
    · rw [List.getElem?_eq_none h] at hd; cases hd
  rw [List.getElem?_append_left hi]; exact hd

theorem Repr.mono {A F : List ScopeData} (hp : A <+: F) :
    ∀ {o : Option Nat} {env : Env}, Repr A o env → Repr F o env := by
  intro o env
  induction env generalizing o with
  | nil => cases o <;> simp [Repr]
  | cons fr env ih =>
    cases o with
    | none => simp [Repr]
    | some sc =>
      intro h
      obtain ⟨d, hd, he, hpar, hr⟩ := h
      exact ⟨d, getElem?_of_prefix hp hd, he, hpar, ih hr⟩

theorem Repr.lt_length {A : List ScopeData} {sc : Nat} {env : Env} (h : Repr A (some sc) env) :
    sc < A.length := by
  cases env with
  | nil => simp [Repr] at h
  | cons fr env =>
    obtain ⟨d, hd, -⟩ := h
    rcases Nat.lt_or_ge sc A.length with h | h
    · exact h
    · rw [List.getElem?_eq_none h] at hd; cases hd

def fuelOK (fuel : Nat) : Option Nat → Prop
  | none => True
  | some sc => sc < fuel

theorem resolveChain_repr {A : List ScopeData} (name : Name) :
    ∀ {env : Env} {o : Option Nat} {fuel : Nat}, Repr A o env → fuelOK fuel o →
      resolveChain A fuel o name = lookupEnv env name := by
  intro env
  induction env with
  | nil =>
    intro o fuel h _
    cases o with
    | none => cases fuel <;> simp [resolveChain, lookupEnv]
    | some sc => simp [Repr] at h
  | cons fr env ih =>
    intro o fuel h hf
    cases o with
    | none => simp [Repr] at h
    | some sc =>
      obtain ⟨d, hd, he, hpar, hr⟩ := h
      cases fuel with
      | zero => simp [fuelOK] at hf
      | succ fuel =>
        simp only [resolveChain, hd, lookupEnv, he]
        cases hfe : findEntry fr name with
        | some id => rfl
        | none =>
          simp only
          apply ih hr
          cases hp : d.parent with
          | none => trivial
          | some p =>
            have := hpar p hp
            simp only [fuelOK] at hf ⊢
            omega

theorem chainEntries_repr {A : List ScopeData} :
    ∀ {env : Env} {o : Option Nat} {fuel : Nat}, Repr A o env → fuelOK fuel o →
      chainEntries A fuel o = env.flatten := by
  intro env
  induction env with
  | nil =>
    intro o fuel h _
    cases o with
    | none => cases fuel <;> simp [chainEntries]
    | some sc => simp [Repr] at h
  | cons fr env ih =>
    intro o fuel h hf
    cases o with
    | none => simp [Repr] at h
    | some sc =>
      obtain ⟨d, hd, he, hpar, hr⟩ := h
      cases fuel with
      | zero => simp [fuelOK] at hf
      | succ fuel =>
        simp only [chainEntries, hd, he, List.flatten_cons]
        congr 1
        apply ih hr
        cases hp : d.parent with
        | none => trivial
        | some p =>
          have := hpar p hp
          simp only [fuelOK] at hf ⊢
          omega

/-! ## filling the last scope -/

theorem pushEntry_last (A : List ScopeData) (d : ScopeData) (e : Name × Nat) :
    pushEntry (A ++ [d]) A.length e = A ++ [{ d with entries := d.entries ++ [e] }] := by
  induction A with
  | nil => simp [pushEntry]
  | cons a A ih => simp [pushEntry, ih]

mutual
  theorem addBindings_last (A : List ScopeData) (par : Option Nat) (bO bH : List (Nat × Nat)) :
      ∀ (p : Pat) (es : List (Name × Nat)),
        addBindings p A.length { arena := A ++ [{ parent := par, entries := es }], byOcc := bO, byHole := bH }
          = { arena := A ++ [{ parent := par, entries := es ++ patBinders p }], byOcc := bO, byHole := bH }
    | .var id name, es => by
      simp [addBindings, Scopes.push, pushEntry_last, patBinders]
    | .wild, es => by simp [addBindings, patBinders]
    | .node ps, es => by
      simp only [addBindings, patBinders]
      exact addBindingsList_last A par bO bH ps es
  theorem addBindingsList_last (A : List ScopeData) (par : Option Nat) (bO bH : List (Nat × Nat)) :
      ∀ (ps : Pats) (es : List (Name × Nat)),
        addBindingsList ps A.length { arena := A ++ [{ parent := par, entries := es }], byOcc := bO, byHole := bH }
          = { arena := A ++ [{ parent := par, entries := es ++ patsBinders ps }], byOcc := bO, byHole := bH }
    | .nil, es => by simp [addBindingsList, patsBinders]
    | .cons p ps, es => by
      simp only [addBindingsList, patsBinders]
      rw [addBindings_last A par bO bH p es, addBindingsList_last A par bO bH ps]
      simp
end

theorem alloc_addBindingsList (S : Scopes) (par : Option Nat) (ps : Pats) :
    addBindingsList ps S.arena.length (S.alloc par).2
      = { arena := S.arena ++ [{ parent := par, entries := patsBinders ps }],
          byOcc := S.byOcc, byHole := S.byHole } := by
  have := addBindingsList_last S.arena par S.byOcc S.byHole ps []
  simpa [Scopes.alloc] using this

theorem alloc_addBindings (S : Scopes) (par : Option Nat) (p : Pat) :
    addBindings p S.arena.length (S.alloc par).2
      = { arena := S.arena ++ [{ parent := par, entries := patBinders p }],
          byOcc := S.byOcc, byHole := S.byHole } := by
  have := addBindings_last S.arena par S.byOcc S.byHole p []
  simpa [Scopes.alloc] using this

/-- a freshly allocated and filled scope represents the extended environment -/
theorem Repr.push {A : List ScopeData} {sc : Nat} {env : Env} (h : Repr A (some sc) env)
    (fr : Frame) :
    Repr (A ++ [{ parent := some sc, entries := fr }]) (some A.length) (fr :: env) := by
  refine ⟨{ parent := some sc, entries := fr }, by simp, rfl, ?_, ?_⟩
  · intro p hp
    cases hp
    exact h.lt_length
  · exact Repr.mono (List.prefix_append _ _) h

/-! ## association lists with distinct keys -/

theorem lookupAssoc_append_of_not_mem (pre l : List (Nat × Nat)) (k : Nat)
    (h : k ∉ pre.map (·.1)) : lookupAssoc (pre ++ l) k = lookupAssoc l k := by
  induction pre with
  | nil => rfl
  | cons a pre ih =>
    obtain ⟨k', v⟩ := a
    simp only [List.map_cons, List.mem_cons, not_or] at h
    simp only [List.cons_append, lookupAssoc]
    rw [if_neg (fun e => h.1 e.symm)]
    exact ih h.2

theorem map_lookup_eq_zipWith {β γ : Type} (key : β → Nat) (F : β → Option Nat → γ) :
    ∀ (new : List (Nat × Nat)) (names : List β) (pre : List (Nat × Nat)),
      new.map (·.1) = names.map key → ((pre ++ new).map (·.1)).Nodup →
      names.map (fun b => F b (lookupAssoc (pre ++ new) (key b)))
        = List.zipWith (fun os b => F b (some os.2)) new names := by
  intro new
  induction new with
  | nil =>
    intro names pre h _
    cases names with
    | nil => rfl
    | cons b names => simp at h
  | cons a new ih =>
    intro names pre h hnd
    obtain ⟨k, v⟩ := a
    cases names with
    | nil => simp at h
    | cons b names =>
      simp only [List.map_cons, List.cons.injEq] at h
      obtain ⟨hk, ht⟩ := h
      simp only [List.map_cons, List.zipWith_cons_cons, List.cons.injEq]
      constructor
      · have hnot : k ∉ pre.map (·.1) := by
          intro hm
          simp only [List.map_append, List.map_cons] at hnd
          have := (List.nodup_append.1 hnd).2.2 k hm k (by simp)
          exact this rfl
        rw [← hk, lookupAssoc_append_of_not_mem pre _ k hnot]
        simp [lookupAssoc]
      · have e : pre ++ (k, v) :: new = (pre ++ [(k, v)]) ++ new := by simp
        rw [e]
        apply ih names (pre ++ [(k, v)]) ht
        rw [← e]; exact hnd

end Glas.Scope
