import Glas.Lemmas.TreeBuild
/-! Byte ranges of a token list tile the text; counting non-trivia tokens. -/
namespace Glas.Lemmas.Tree
open Glas.Dsl Glas.Tree Glas.SyntaxSpec

theorem ntc_eq (triv : Kind → Bool) (raw : List RawTok) :
    ntc triv raw = ((raw.filter (fun t => !triv t.1)).map (fun t => t.1)).length := by
  induction raw with
  | nil => rfl
  | cons x xs ih =>
    obtain ⟨k, t⟩ := x
    cases h : triv k <;> simp [ntc, h, ih]

theorem u8len_append (a b : List Char) : u8len (a ++ b) = u8len a + u8len b := by
  simp [u8len]

theorem u8len_pos {t : List Char} (h : t ≠ []) : 0 < u8len t := by
  cases t with
  | nil => exact absurd rfl h
  | cons c cs =>
    have := Char.utf8Size_pos c
    simp [u8len]; omega

theorem tiles_ranges (toks : List RawTok) (off : Nat) (h : ∀ x ∈ toks, x.2 ≠ []) :
    Tiles (ranges toks off) off (off + u8len (toks.map (fun x => x.2)).flatten) := by
  induction toks generalizing off with
  | nil => simp [ranges, Tiles, u8len]
  | cons x xs ih =>
    obtain ⟨k, t⟩ := x
    have hpos : 0 < u8len t := u8len_pos (h (k, t) (by simp))
    have := ih (off + u8len t) (fun y hy => h y (by simp [hy]))
    simp only [ranges, Tiles, List.map_cons, List.flatten_cons, u8len_append]
    refine ⟨trivial, by omega, ?_⟩
    rw [← Nat.add_assoc]; exact this

end Glas.Lemmas.Tree
