import Glas.Lemmas.MarkCall
/-! Soundness of the mark-discipline checker, part 4: the interpreter. -/
namespace Glas.Lemmas.Mark
open Glas.Dsl Glas.MarkCheck

/-- the panics the mark discipline does not speak about (they are the subject of `check`) -/
def Benign (w : Why) : Prop := w = .stuck ∨ w = .bumpAtEof ∨ w = .assertFailed

def Post (base nm nl : Nat) (rk : RK) (evs : List Ev) (R : MRes) : Out → Prop
  | .norm σ' fr' => Keep base evs σ'.events ∧ ∃ a' ∈ R.norm, Rel base nm nl σ'.events fr' a'
  | .brk σ' fr' => Keep base evs σ'.events ∧ ∃ a' ∈ R.brk, Rel base nm nl σ'.events fr' a'
  | .ret σ' v => Keep base evs σ'.events ∧ NoUndoneFrom base σ'.events ∧ RetOK base rk σ'.events v
  | .panic w _ => Benign w
  | .oof => True

theorem Post.mono {base nm nl rk evs} {R R' : MRes} {o : Out} (h : Post base nm nl rk evs R o)
    (hn : ∀ a, a ∈ R.norm → a ∈ R'.norm) (hb : ∀ a, a ∈ R.brk → a ∈ R'.brk) : Post base nm nl rk evs R' o := by
  cases o with
  | norm σ' fr' => obtain ⟨hk, a', ha', hr⟩ := h; exact ⟨hk, a', hn _ ha', hr⟩
  | brk σ' fr' => obtain ⟨hk, a', ha', hr⟩ := h; exact ⟨hk, a', hb _ ha', hr⟩
  | ret σ' v => exact h
  | panic w σ' => exact h
  | oof => trivial

theorem Post.keep {base nm nl rk} {evs evs' : List Ev} {R : MRes} {o : Out} (hk : Keep base evs evs')
    (h : Post base nm nl rk evs' R o) : Post base nm nl rk evs R o := by
  cases o with
  | norm σ' fr' => exact ⟨hk.trans h.1, h.2⟩
  | brk σ' fr' => exact ⟨hk.trans h.1, h.2⟩
  | ret σ' v => exact ⟨hk.trans h.1, h.2⟩
  | panic w σ' => exact h
  | oof => trivial

theorem checkProcs_get {Γ : List MSumm} {ps : List Proc} {ss : List MSumm} (h : checkProcs Γ ps ss = true)
    {f : Nat} {s : MSumm} (hs : ss[f]? = some s) : ∃ p, ps[f]? = some p ∧ checkProc Γ p s = true := by
  induction ps generalizing ss f with
  | nil =>
    cases ss with
    | nil => simp at hs
    | cons _ _ => simp [checkProcs] at h
  | cons p ps ih =>
    cases ss with
    | nil => simp [checkProcs] at h
    | cons s' ss =>
      simp only [checkProcs, Bool.and_eq_true] at h
      cases f with
      | zero =>
        simp only [List.getElem?_cons_zero, Option.some.injEq] at hs
        subst hs
        exact ⟨p, rfl, h.1⟩
      | succ f =>
        simp only [List.getElem?_cons_succ] at hs ⊢
        exact ih h.2 hs

theorem toΓ_get {Γ : List MSumm} {f : Nat} {x : Option (Option Bool) × RK} (h : (toΓ Γ)[f]? = some x) :
    ∃ s, Γ[f]? = some s ∧ x = (some s.param, s.rk) := by
  simp only [toΓ, List.getElem?_map, Option.map_eq_some_iff] at h
  obtain ⟨s, hs, rfl⟩ := h
  exact ⟨s, hs, rfl⟩

/-- a call statement never ends in `ret` or `brk` -/
theorem exec_call_shape (P : Prog) (n : Nat) (f : Nat) (args : List Expr) (margs : List Nat) (dst : Dst)
    (σ : St) (fr : Frame) :
    (∀ σ' v, exec P n (.call f args margs dst) σ fr ≠ .ret σ' v) ∧
    (∀ σ' fr', exec P n (.call f args margs dst) σ fr ≠ .brk σ' fr') := by
  cases n with
  | zero => simp [exec]
  | succ n =>
    simp only [exec]
    cases P.procs[f]? with
    | none => simp
    | some p =>
      simp only
      cases evalArgs P σ fr args with
      | none => simp
      | some x =>
        obtain ⟨vs, σ1⟩ := x
        simp only
        generalize exec P n p.body _ _ = ob
        cases ob with
        | norm σ' frc => simp only; cases assignDst (takeMarks fr margs).2 dst .unit <;> simp
        | ret σ' v => simp only; cases assignDst (takeMarks fr margs).2 dst v <;> simp
        | brk σ' frc => simp
        | panic w σ' => simp
        | oof => simp

/-- **soundness of `maexec`**: from a described state, a checked statement ends in a described state,
in one of the panics of `Benign`, or out of model fuel — never in `markMisuse`, `leak`-ing, or `badProg` -/
theorem sound (P : Prog) (Γ : List MSumm) (hΓ : checkProcs Γ P.procs Γ = true) :
    ∀ (n : Nat) (s : Stmt) (σ : St) (fr : Frame) (base nm nl : Nat) (rk : RK) (as : List MA) (R : MRes) (a : MA),
      maexec (toΓ Γ) nm nl rk s as = some R → a ∈ as → Rel base nm nl σ.events fr a →
      Post base nm nl rk σ.events R (exec P n s σ fr) := by
  intro n
  induction n using Nat.strongRecOn with
  | _ n ih =>
  intro s σ fr base nm nl rk as R a hR ha hrel
  cases n with
  | zero => simp [exec, Post]
  | succ n =>
    have ihn := ih n (Nat.lt_succ_self n)
    cases s with
    | skip =>
      simp only [maexec, Option.some.injEq] at hR
      subst hR
      exact ⟨Keep.refl _ _, a, ha, hrel⟩
    | err code arg =>
      simp only [maexec, Option.some.injEq] at hR
      subst hR
      exact ⟨Keep.refl _ _, a, ha, hrel⟩
    | bump =>
      simp only [maexec, Option.some.injEq] at hR
      subst hR
      simp only [exec]
      split
      · exact ⟨Keep.append _ _ hrel.len _, a, ha, hrel.append _ (by intro _ _ hh; cases hh)⟩
      · exact Or.inr (Or.inl rfl)
    | assert c =>
      simp only [maexec, Option.some.injEq] at hR
      subst hR
      simp only [exec]
      split
      · exact Or.inl rfl
      · rename_i v σ' he
        obtain ⟨la, rfl⟩ := Glas.Lemmas.Dsl.evalIn_eq he
        split
        · exact ⟨Keep.refl _ _, a, ha, hrel⟩
        · exact Or.inr (Or.inr rfl)
    | «open» m =>
      simp only [maexec] at hR
      split at hR
      · rename_i r hr
        simp only [Option.some.injEq] at hR
        subst hR
        obtain ⟨a', ha', hm⟩ := mapAll_mem hr ha
        simp only [exec]
        exact ⟨Keep.append _ _ hrel.len _, a', mem_dedup.mpr hm, hrel.open _ _ ha'⟩
      · exact absurd hR (by simp)
    | close m k dst =>
      simp only [maexec] at hR
      split at hR
      · rename_i r hr
        simp only [Option.some.injEq] at hR
        subst hR
        obtain ⟨a', ha', hm⟩ := mapAll_mem hr ha
        obtain ⟨mk, k0, hg, hev, hb, hlt, hrel'⟩ := hrel.close k dst ha'
        have hkeep : Keep base σ.events (setNth σ.events mk.idx (.open k mk.id true) ++ [.close]) := by
          refine ⟨by simp [Glas.Lemmas.Dsl.length_setNth], fun i hi => ?_⟩
          rw [List.getElem?_append_left (by rw [Glas.Lemmas.Dsl.length_setNth]; omega), getElem?_setNth,
            if_neg (by omega)]
        simp only [exec, hg, hev, if_true]
        cases dst with
        | none => exact ⟨hkeep, a', mem_dedup.mpr hm, hrel'⟩
        | some d => exact ⟨hkeep, a', mem_dedup.mpr hm, hrel'⟩
      · exact absurd hR (by simp)
    | openBefore m' m =>
      simp only [maexec] at hR
      split at hR
      · rename_i r hr
        simp only [Option.some.injEq] at hR
        subst hR
        obtain ⟨a', ha', hm⟩ := mapAll_mem hr ha
        obtain ⟨mk, k0, hg, hev, hb, hlt, hrel'⟩ := hrel.openBefore P.errorKind σ.nextId ha'
        have hkeep : Keep base σ.events (insertAt σ.events mk.idx (.open P.errorKind σ.nextId false)) := by
          refine ⟨by rw [length_insertAt]; omega, fun i hi => ?_⟩
          rw [getElem?_insertAt_lt _ _ _ _ (by omega) (Nat.le_of_lt hlt)]
        simp only [exec, hg, hev, if_true]
        exact ⟨hkeep, a', mem_dedup.mpr hm, hrel'⟩
      · exact absurd hR (by simp)
    | set x e =>
      simp only [maexec, Option.some.injEq] at hR
      subst hR
      simp only [exec]
      split
      · exact Or.inl rfl
      · rename_i v σ' he
        have hv : v = (evalE P σ.toks σ.pos fr.locals e).1 := by
          unfold evalIn at he
          simp only at he
          split at he
          · exact absurd he (by simp)
          · simp only [Option.some.injEq, Prod.mk.injEq] at he
            exact he.1.symm
        obtain ⟨la, rfl⟩ := Glas.Lemmas.Dsl.evalIn_eq he
        refine ⟨Keep.refl _ _, aSet nl x e a, mem_dedup.mpr (List.mem_map.mpr ⟨a, ha, rfl⟩), ?_⟩
        unfold aSet
        simp only
        split
        · rename_i hx
          simp only [decide_eq_true_eq] at hx
          split
          · have : v = b2n false := by rw [hv]; rfl
            rw [this]; exact hrel.setLocal_flag x false hx
          · have : v = b2n true := by rw [hv]; rfl
            rw [this]; exact hrel.setLocal_flag x true hx
          · exact hrel.setLocal_drop x v
        · exact hrel.setLocal_drop x v
    | seq s1 s2 =>
      simp only [maexec] at hR
      split at hR
      · exact absurd hR (by simp)
      · rename_i r1 hr1
        split at hR
        · exact absurd hR (by simp)
        · rename_i r2 hr2
          simp only [Option.some.injEq] at hR
          subst hR
          have h1 := ihn s1 σ fr base nm nl rk as r1 a hr1 ha hrel
          simp only [exec]
          split
          · rename_i σ' fr' hex
            rw [hex] at h1
            obtain ⟨hk, a', ha', hrel'⟩ := h1
            have h2 := ihn s2 σ' fr' base nm nl rk r1.norm r2 a' hr2 ha' hrel'
            exact Post.keep hk (h2.mono (fun _ h => h) (fun _ h => mem_unionL.mpr (Or.inr h)))
          · rename_i o hno
            revert h1
            generalize exec P n s1 σ fr = o1 at hno
            intro h1
            cases o1 with
            | norm σ' fr' => exact absurd rfl (hno σ' fr')
            | brk σ' fr' => exact ⟨h1.1, h1.2.choose, mem_unionL.mpr (Or.inl h1.2.choose_spec.1), h1.2.choose_spec.2⟩
            | ret σ' v => exact h1
            | panic w σ' => exact h1
            | oof => trivial
    | ite c t e =>
      simp only [maexec] at hR
      split at hR
      · exact absurd hR (by simp)
      · rename_i r1 hr1
        split at hR
        · exact absurd hR (by simp)
        · rename_i r2 hr2
          simp only [Option.some.injEq] at hR
          subst hR
          simp only [exec]
          split
          · exact Or.inl rfl
          · rename_i v σ' he
            obtain ⟨la, hσ'⟩ := Glas.Lemmas.Dsl.evalIn_eq he
            have hev : σ'.events = σ.events := by rw [hσ']
            split
            · rename_i hv
              have hmem : a ∈ as.filter (fun a => condVal a.flags c != some false) := by
                rw [List.mem_filter]
                refine ⟨ha, ?_⟩
                cases hcv : condVal a.flags c with
                | none => rfl
                | some b =>
                  have := condVal_sound hrel.flags he hcv
                  rw [hv] at this
                  subst this; rfl
              have h1 := ihn t σ' fr base nm nl rk _ r1 a hr1 hmem (by rw [hev]; exact hrel)
              rw [hev] at h1
              exact h1.mono (fun _ h => mem_unionL.mpr (Or.inl h)) (fun _ h => mem_unionL.mpr (Or.inl h))
            · rename_i hv
              have hmem : a ∈ as.filter (fun a => condVal a.flags c != some true) := by
                rw [List.mem_filter]
                refine ⟨ha, ?_⟩
                cases hcv : condVal a.flags c with
                | none => rfl
                | some b =>
                  have := condVal_sound hrel.flags he hcv
                  cases b with
                  | false => rfl
                  | true => exact absurd this hv
              have h2 := ihn e σ' fr base nm nl rk _ r2 a hr2 hmem (by rw [hev]; exact hrel)
              rw [hev] at h2
              exact h2.mono (fun _ h => mem_unionL.mpr (Or.inr h)) (fun _ h => mem_unionL.mpr (Or.inr h))
    | brk =>
      simp only [maexec, Option.some.injEq] at hR
      subst hR
      exact ⟨Keep.refl _ _, a, ha, hrel⟩
    | ret r =>
      simp only [maexec] at hR
      split at hR
      · rename_i hall
        simp only [Option.some.injEq] at hR
        subst hR
        have har := List.all_eq_true.mp hall a ha
        unfold aRet at har
        simp only [Bool.and_eq_true] at har
        obtain ⟨hno, hshape⟩ := har
        have hnu := hrel.noUndone hno
        cases r with
        | unit =>
          cases rk <;> simp at hshape
          simp only [exec]
          exact ⟨Keep.refl _ _, hnu, rfl⟩
        | nat e =>
          cases rk <;> simp at hshape
          simp only [exec]
          split
          · exact Or.inl rfl
          · rename_i v σ' he
            obtain ⟨la, rfl⟩ := Glas.Lemmas.Dsl.evalIn_eq he
            exact ⟨Keep.refl _ _, hnu, rfl⟩
        | noMark =>
          cases rk <;> simp at hshape
          simp only [exec]
          exact ⟨Keep.refl _ _, hnu, rfl⟩
        | mark m =>
          have hl : lookupM m a.ms = some false ∧ (rk = .mark ∨ rk = .optMark) := by
            cases rk <;> simp at hshape
            · exact ⟨hshape, Or.inl rfl⟩
            · exact ⟨hshape, Or.inr rfl⟩
          obtain ⟨mk, k0, hg, hev, hb, _, _⟩ := hrel.opened_slot hl.1
          simp only [exec, hg]
          exact ⟨Keep.refl _ _, hnu, hl.2, hb, k0, hev⟩
      · exact absurd hR (by simp)
    | loop b =>
      simp only [maexec] at hR
      split at hR
      · exact absurd hR (by simp)
      · rename_i r0 hr0
        split at hR
        · exact absurd hR (by simp)
        · rename_i r hr
          split at hR
          · rename_i hinv
            simp only [Option.some.injEq] at hR
            subst hR
            -- every state of the invariant set, with any fuel up to `n + 1`
            have key : ∀ k, k ≤ n + 1 → ∀ (σ : St) (fr : Frame) (a : MA), a ∈ unionL r0.norm as →
                Rel base nm nl σ.events fr a →
                Post base nm nl rk σ.events ⟨r.brk, [], r.calls⟩ (exec P k (.loop b) σ fr) := by
              intro k
              induction k with
              | zero => intro _ σ fr a _ _; simp [exec, Post]
              | succ k ihk =>
                intro hk σ fr a ha hrel
                have hb := ih k (by omega) b σ fr base nm nl rk _ r a hr ha hrel
                simp only [exec]
                split
                · rename_i σ' fr' hex
                  rw [hex] at hb
                  obtain ⟨hkp, a', ha', hrel'⟩ := hb
                  have ha'' : a' ∈ unionL r0.norm as := by
                    have := List.all_eq_true.mp hinv a' ha'
                    simpa using this
                  exact Post.keep hkp (ihk (by omega) σ' fr' a' ha'' hrel')
                · rename_i σ' fr' hex
                  rw [hex] at hb
                  obtain ⟨hkp, a', ha', hrel'⟩ := hb
                  exact ⟨hkp, a', ha', hrel'⟩
                · rename_i o hno1 hno2
                  revert hb
                  generalize exec P k b σ fr = o1 at hno1 hno2
                  intro hb
                  cases o1 with
                  | norm σ' fr' => exact absurd rfl (hno1 σ' fr')
                  | brk σ' fr' => exact absurd rfl (hno2 σ' fr')
                  | ret σ' v => exact hb
                  | panic w σ' => exact hb
                  | oof => trivial
            exact key (n + 1) (Nat.le_refl _) σ fr a (mem_unionL.mpr (Or.inr ha)) hrel
          · exact absurd hR (by simp)
    | call f args margs dst =>
      simp only [maexec] at hR
      split at hR
      · exact absurd hR (by simp)
      · rename_i param frk hΓf
        split at hR
        · exact absurd hR (by simp)
        · rename_i rs hrs
          simp only [Option.some.injEq] at hR
          subst hR
          obtain ⟨s, hs, hx⟩ := toΓ_get hΓf
          simp only [Prod.mk.injEq] at hx
          obtain ⟨rfl, rfl⟩ := hx
          obtain ⟨p, hp, hcp⟩ := checkProcs_get hΓ hs
          obtain ⟨res, hres, hresm⟩ := mapAll_mem hrs ha
          unfold aCall at hres
          split at hres
          · exact absurd hres (by simp)
          · rename_i rest st hsplit
            dsimp only at hres
            split at hres
            · rename_i hc
              simp only [Bool.and_eq_true, beq_iff_eq] at hc
              obtain ⟨hdst, hst⟩ := hc
              split at hres
              · rename_i outs houts
                simp only [Option.some.injEq] at hres
                subst hres
                unfold checkProc at hcp
                split at hcp
                · exact absurd hcp (by simp)
                · rename_i rb hrb
                  simp only [Bool.and_eq_true, List.isEmpty_iff, Bool.or_eq_true, beq_iff_eq] at hcp
                  obtain ⟨⟨hbrk, hnorm⟩, hnoop⟩ := hcp
                  simp only [exec, hp]
                  split
                  · exact Or.inl rfl
                  · rename_i vs σ1 hargs
                    obtain ⟨la, hσ1⟩ := Glas.Lemmas.Dsl.evalArgs_eq hargs
                    obtain ⟨b', hrest, hcal⟩ := enter hrel hsplit vs p
                    rw [hst] at hcal
                    generalize hσ2 : ({ σ1 with depth := σ1.depth + 1, maxDepth := max σ1.maxDepth (σ1.depth + 1) } : St) = σ2
                    have hev2 : σ2.events = σ.events := by rw [← hσ2, hσ1]
                    have hbody := ihn p.body σ2 (calleeFrame vs (takeMarks fr margs).1 p) b' p.nMarks p.nLocals s.rk
                      _ rb _ hrb (List.mem_singleton.mpr rfl) (by rw [hev2]; exact hcal)
                    rw [hev2] at hbody
                    have fin : ∀ (σ' : St) (v : RetV), Keep b' σ.events σ'.events → NoUndoneFrom b' σ'.events →
                        RetOK b' s.rk σ'.events v →
                        Post base nm nl rk σ.events ⟨dedup (rs.flatMap (·.1)), [], rs.map (fun r => (f, r.2))⟩
                          (match assignDst (takeMarks fr margs).2 dst v with
                           | some fr2 => Out.norm { σ' with depth := σ'.depth - 1 } fr2
                           | none => Out.panic .badProg σ') := by
                      intro σ' v hk hn hv
                      obtain ⟨fr2, hfr2, a'', ha'', hrel''⟩ := leave hrest hk hn hv hdst houts
                      rw [hfr2]
                      refine ⟨hk.mono hrest.lo, a'', mem_dedup.mpr ?_, hrel''⟩
                      exact List.mem_flatMap.mpr ⟨_, hresm, ha''⟩
                    simp only [calleeFrame] at hbody
                    revert hbody
                    generalize exec P n p.body σ2 _ = ob
                    intro hbody
                    cases ob with
                    | norm σ' frc =>
                      obtain ⟨hk, a', ha', hrel'⟩ := hbody
                      have hunit : s.rk = .unit := by
                        rcases hnorm with hnil | hu
                        · rw [hnil] at ha'; cases ha'
                        · exact hu
                      exact fin σ' .unit hk (hrel'.noUndone (List.all_eq_true.mp hnoop a' ha')) hunit
                    | ret σ' v => exact fin σ' v hbody.1 hbody.2.1 hbody.2.2
                    | brk σ' frc =>
                      obtain ⟨_, a', ha', _⟩ := hbody
                      rw [hbrk] at ha'; cases ha'
                    | panic w σ' => exact hbody
                    | oof => trivial
              · exact absurd hres (by simp)
            · exact absurd hres (by simp)

theorem hasUndone_spec {evs : List Ev} (h : hasUndone evs = true) : ∃ (i k id : Nat), evs[i]? = some (Ev.open k id false) := by
  induction evs with
  | nil => simp [hasUndone] at h
  | cons e es ih =>
    cases e with
    | «open» k id d =>
      cases d with
      | false => exact ⟨0, k, id, rfl⟩
      | true =>
        simp only [hasUndone] at h
        obtain ⟨i, k', id', hi⟩ := ih h
        exact ⟨i + 1, k', id', by simpa using hi⟩
    | close =>
      simp only [hasUndone] at h
      obtain ⟨i, k', id', hi⟩ := ih h
      exact ⟨i + 1, k', id', by simpa using hi⟩
    | adv =>
      simp only [hasUndone] at h
      obtain ⟨i, k', id', hi⟩ := ih h
      exact ⟨i + 1, k', id', by simpa using hi⟩

/-- a program accepted by the mark checker: every run ends with all nodes finished, or in one of the
panics of `Benign`, or out of model fuel -/
theorem runMain_of_mcheckWith (P : Prog) (Γ : List MSumm) (h : mcheckWith Γ P = true) (n : Nat) (toks : List Kind) :
    match runMain P n toks with
    | .ok _ => True
    | .panic w _ => Benign w
    | .oof => True := by
  unfold mcheckWith at h
  simp only [Bool.and_eq_true] at h
  obtain ⟨hΓ, hmain⟩ := h
  split at hmain
  · rename_i s hs
    simp only [Bool.and_eq_true, Option.isNone_iff_eq_none, beq_iff_eq] at hmain
    obtain ⟨hpar, hrk⟩ := hmain
    have hΓm : (toΓ Γ)[P.main]? = some (some none, RK.unit) := by
      simp only [toΓ, List.getElem?_map, hs, Option.map_some, hpar, hrk]
    have hR : maexec (toΓ Γ) 0 0 .unit (.call P.main [] [] .none) [⟨[], []⟩] =
        some ⟨dedup [⟨[], []⟩], [], [(P.main, none)]⟩ := by
      simp only [maexec, hΓm]
      rfl
    have hrel0 : Rel 0 0 0 (initSt toks).events { locals := [], marks := [] } ⟨[], []⟩ := by
      refine ⟨Nat.le_refl _, Nat.le_refl _, Nat.le_refl _, ?_, List.Pairwise.nil, ?_, ?_⟩
      · intro e he; cases he
      · intro i k id _ hev; simp [initSt] at hev
      · intro x b hb; simp [lookupM] at hb
    have hpost := sound P Γ hΓ n (.call P.main [] [] .none) (initSt toks) { locals := [], marks := [] } 0 0 0 .unit
      _ _ _ hR (List.mem_singleton.mpr rfl) hrel0
    have hshape := exec_call_shape P n P.main [] [] .none (initSt toks) { locals := [], marks := [] }
    unfold runMain
    revert hpost hshape
    generalize exec P n (.call P.main [] [] .none) (initSt toks) { locals := [], marks := [] } = o
    intro hpost hshape
    cases o with
    | norm σ fr =>
      have hnu : hasUndone σ.events = false := by
        cases hu : hasUndone σ.events with
        | false => rfl
        | true =>
          exfalso
          obtain ⟨_, a', ha', hrel'⟩ := hpost
          have : a' = ⟨[], []⟩ := by
            have := mem_dedup.mp ha'
            simpa using this
          subst this
          obtain ⟨i, k, id, hi⟩ := hasUndone_spec hu
          obtain ⟨e, he, _⟩ := hrel'.owned i k id (Nat.zero_le _) hi
          cases he
      simp [hnu]
    | ret σ v => exact absurd rfl (hshape.1 σ v)
    | brk σ fr => exact absurd rfl (hshape.2 σ fr)
    | panic w σ => exact hpost
    | oof => trivial
  · exact absurd hmain (by simp)

end Glas.Lemmas.Mark
