import Glas.Model.Tree
/-!
The tree builder works item by item (for C03 at the level of trees).

* `runEvs_embed` (frame rule): what a list of events does to a builder that starts with an empty stack it
  does, unchanged, inside any context - below an arbitrary stack of open nodes, its top-level trees going
  to the innermost open node.
* `forests`: the trees a list of event segments produces, segment by segment, each from an empty builder
  on the raw tokens the previous one left.
* `runEvs_forests`, `buildTree_forests`: the tree of `open k :: segments ++ [close]` is
  `node k (leading ++ forests ++ trailing)`.
-/
namespace Glas.Lemmas.TreeItems
open Glas.Dsl Glas.Tree

/-- builder `b` working inside a context: the context's open nodes below `b`'s own, `b`'s top-level trees
received by the context's innermost open node `(k0, cs0)` -/
def embed (k0 : Kind) (cs0 : List Tree) (st0 : List (Kind × List Tree)) (tp0 : List Tree) (b : B) : B :=
  { stack := b.stack ++ (k0, b.top ++ cs0) :: st0, top := tp0, rest := b.rest }

variable {k0 : Kind} {cs0 : List Tree} {st0 : List (Kind × List Tree)} {tp0 : List Tree}

theorem push_embed (b : B) (t : Tree) : embed k0 cs0 st0 tp0 (b.push t) = (embed k0 cs0 st0 tp0 b).push t := by
  unfold B.push embed
  cases hs : b.stack with
  | nil => simp
  | cons p st => obtain ⟨k, cs⟩ := p; simp

theorem eatWhile_embed (pred : Kind → Bool) : ∀ (n : Nat) (b : B),
    embed k0 cs0 st0 tp0 (eatWhile pred n b) = eatWhile pred n (embed k0 cs0 st0 tp0 b) := by
  intro n
  induction n with
  | zero => intro b; rfl
  | succ n ih =>
    intro b
    have hr : (embed k0 cs0 st0 tp0 b).rest = b.rest := rfl
    cases hb : b.rest with
    | nil => simp only [eatWhile, hr, hb]
    | cons p r =>
      obtain ⟨k, t⟩ := p
      simp only [eatWhile, hr, hb]
      by_cases hp : pred k = true
      · simp only [hp, if_true]
        rw [ih, push_embed]
        rfl
      · simp only [hp]
        rfl

theorem eatRun_embed (pred : Kind → Bool) (b : B) :
    embed k0 cs0 st0 tp0 (b.eatRun pred) = (embed k0 cs0 st0 tp0 b).eatRun pred := by
  unfold B.eatRun
  rw [eatWhile_embed]
  rfl

theorem eatN_embed : ∀ (n : Nat) (b b' : B), eatN n b = .ok b' →
    eatN n (embed k0 cs0 st0 tp0 b) = .ok (embed k0 cs0 st0 tp0 b') := by
  intro n
  induction n with
  | zero => intro b b' h; simp only [eatN] at h ⊢; cases h; rfl
  | succ n ih =>
    intro b b' h
    have hr : (embed k0 cs0 st0 tp0 b).rest = b.rest := rfl
    cases hb : b.rest with
    | nil => simp [eatN, hb] at h
    | cons p r =>
      obtain ⟨k, t⟩ := p
      simp only [eatN, hb] at h
      simp only [eatN, hr, hb]
      have := ih _ _ h
      rw [push_embed] at this
      exact this

theorem startNode_embed (b : B) (k : Kind) :
    embed k0 cs0 st0 tp0 (b.startNode k) = (embed k0 cs0 st0 tp0 b).startNode k := rfl

theorem finishNode_embed (b b' : B) (h : b.finishNode = .ok b') :
    (embed k0 cs0 st0 tp0 b).finishNode = .ok (embed k0 cs0 st0 tp0 b') := by
  unfold B.finishNode at h
  cases hs : b.stack with
  | nil => rw [hs] at h; cases h
  | cons p st =>
    obtain ⟨k, cs⟩ := p
    rw [hs] at h
    simp only [Except.ok.injEq] at h
    subst h
    rw [push_embed]
    simp [B.finishNode, embed, hs]

theorem runActs_embed (k : Kind) : ∀ (acts : List Act) (b : B),
    embed k0 cs0 st0 tp0 (runActs k acts b) = runActs k acts (embed k0 cs0 st0 tp0 b) := by
  intro acts
  induction acts with
  | nil => intro b; rfl
  | cons a as ih =>
    intro b
    cases a with
    | eat p => simp only [runActs]; rw [ih, eatRun_embed]
    | start => simp only [runActs]; rw [ih, startNode_embed]

theorem stepEv_embed (π : Policy) (b b' : B) (e : Ev) (h : stepEv π b e = .ok b') :
    stepEv π (embed k0 cs0 st0 tp0 b) e = .ok (embed k0 cs0 st0 tp0 b') := by
  cases e with
  | «open» k i d =>
    simp only [stepEv, Except.ok.injEq] at h ⊢
    subst h; exact (runActs_embed k _ b).symm
  | close => exact finishNode_embed b b' h
  | adv =>
    simp only [stepEv] at h ⊢
    rw [← eatRun_embed]
    exact eatN_embed _ _ _ h

/-- **frame rule of the tree builder** -/
theorem runEvs_embed (π : Policy) : ∀ (evs : List Ev) (b b' : B), runEvs π evs b = .ok b' →
    runEvs π evs (embed k0 cs0 st0 tp0 b) = .ok (embed k0 cs0 st0 tp0 b') := by
  intro evs
  induction evs with
  | nil => intro b b' h; simp only [runEvs] at h ⊢; cases h; rfl
  | cons e es ih =>
    intro b b' h
    simp only [runEvs] at h ⊢
    cases hs : stepEv π b e with
    | error p => rw [hs] at h; cases h
    | ok b1 =>
      rw [hs] at h
      rw [stepEv_embed π b b1 e hs]
      exact ih _ _ h

theorem runEvs_append (π : Policy) : ∀ (e1 e2 : List Ev) (b b1 : B), runEvs π e1 b = .ok b1 →
    runEvs π (e1 ++ e2) b = runEvs π e2 b1 := by
  intro e1
  induction e1 with
  | nil => intro e2 b b1 h; simp only [runEvs] at h; cases h; rfl
  | cons e es ih =>
    intro e2 b b1 h
    simp only [runEvs, List.cons_append] at h ⊢
    cases hs : stepEv π b e with
    | error p => rw [hs] at h; cases h
    | ok b' => rw [hs] at h; exact ih _ _ _ h

/-- the builder ignores the model-only identities of events -/
def eraseId : Ev → Ev
  | .open k _ d => .open k 0 d
  | e => e

theorem stepEv_eraseId (π : Policy) (b : B) (e : Ev) : stepEv π b (eraseId e) = stepEv π b e := by
  cases e <;> rfl

theorem runEvs_eraseId (π : Policy) : ∀ (evs : List Ev) (b : B), runEvs π (evs.map eraseId) b = runEvs π evs b := by
  intro evs
  induction evs with
  | nil => intro b; rfl
  | cons e es ih =>
    intro b
    simp only [List.map_cons, runEvs, stepEv_eraseId]
    cases stepEv π b e with
    | error p => rfl
    | ok b' => exact ih b'

/-! ## segment by segment -/

/-- the trees one segment of events produces from an empty builder on the raw tokens `r`, and the raw tokens it
leaves (`none`: the builder fails or the segment leaves a node open) -/
def forestOf (π : Policy) (evs : List Ev) (r : List RawTok) : Option (List Tree × List RawTok) :=
  match runEvs π evs { stack := [], top := [], rest := r } with
  | .ok b => if b.stack.isEmpty then some (b.top.reverse, b.rest) else none
  | .error _ => none

def forests (π : Policy) : List (List Ev) → List RawTok → Option (List Tree × List RawTok)
  | [], r => some ([], r)
  | E :: Es, r =>
    match forestOf π E r with
    | some (F, r') =>
      match forests π Es r' with
      | some (Fs, r'') => some (F ++ Fs, r'')
      | none => none
    | none => none

theorem forestOf_run {π : Policy} {evs : List Ev} {r r' : List RawTok} {F : List Tree}
    (h : forestOf π evs r = some (F, r')) :
    runEvs π evs { stack := [], top := [], rest := r } = .ok { stack := [], top := F.reverse, rest := r' } := by
  unfold forestOf at h
  cases hr : runEvs π evs { stack := [], top := [], rest := r } with
  | error p => rw [hr] at h; cases h
  | ok b =>
    rw [hr] at h
    simp only [] at h
    split at h
    · rename_i hemp
      simp only [Option.some.injEq, Prod.mk.injEq] at h
      obtain ⟨rfl, rfl⟩ := h
      have : b.stack = [] := by simpa using hemp
      cases b with
      | mk stack top rest =>
        simp only at this
        subst this
        simp
    · cases h

/-- the segments, run one after the other inside a context, add their forests to the context's innermost node -/
theorem runEvs_forests (π : Policy) : ∀ (Es : List (List Ev)) (r r' : List RawTok) (Fs : List Tree)
    (k0 : Kind) (cs0 : List Tree) (st0 : List (Kind × List Tree)) (tp0 : List Tree),
    forests π Es r = some (Fs, r') →
    runEvs π Es.flatten { stack := (k0, cs0) :: st0, top := tp0, rest := r } =
      .ok { stack := (k0, Fs.reverse ++ cs0) :: st0, top := tp0, rest := r' } := by
  intro Es
  induction Es with
  | nil =>
    intro r r' Fs k0 cs0 st0 tp0 h
    simp only [forests, Option.some.injEq, Prod.mk.injEq] at h
    obtain ⟨rfl, rfl⟩ := h
    rfl
  | cons E Es ih =>
    intro r r' Fs k0 cs0 st0 tp0 h
    simp only [forests] at h
    cases hF : forestOf π E r with
    | none => rw [hF] at h; cases h
    | some p =>
      obtain ⟨F, r1⟩ := p
      rw [hF] at h
      simp only [] at h
      cases hFs : forests π Es r1 with
      | none => rw [hFs] at h; cases h
      | some q =>
        obtain ⟨Fs', r2⟩ := q
        rw [hFs] at h
        simp only [Option.some.injEq, Prod.mk.injEq] at h
        obtain ⟨rfl, rfl⟩ := h
        have h1 := runEvs_embed (k0 := k0) (cs0 := cs0) (st0 := st0) (tp0 := tp0) π E _ _ (forestOf_run hF)
        have e0 : embed k0 cs0 st0 tp0 { stack := [], top := [], rest := r } =
            { stack := (k0, cs0) :: st0, top := tp0, rest := r } := rfl
        have e1 : embed k0 cs0 st0 tp0 { stack := [], top := F.reverse, rest := r1 } =
            { stack := (k0, F.reverse ++ cs0) :: st0, top := tp0, rest := r1 } := rfl
        rw [e0, e1] at h1
        rw [List.flatten_cons, runEvs_append π E Es.flatten _ _ h1]
        rw [ih r1 _ Fs' k0 (F.reverse ++ cs0) st0 tp0 hFs]
        simp [List.reverse_append, List.append_assoc]

/-- the raw tokens a maximal run of `pred` tokens consists of, as trees, and the rest -/
def eatList (pred : Kind → Bool) : List RawTok → List Tree × List RawTok
  | [] => ([], [])
  | (k, t) :: r => if pred k then ((Tree.tok k t) :: (eatList pred r).1, (eatList pred r).2) else ([], (k, t) :: r)

theorem eatWhile_node (pred : Kind → Bool) : ∀ (n : Nat) (k0 : Kind) (cs0 : List Tree) (st0 : List (Kind × List Tree))
    (tp0 : List Tree) (r : List RawTok), r.length ≤ n →
    eatWhile pred n { stack := (k0, cs0) :: st0, top := tp0, rest := r } =
      { stack := (k0, (eatList pred r).1.reverse ++ cs0) :: st0, top := tp0, rest := (eatList pred r).2 } := by
  intro n
  induction n with
  | zero =>
    intro k0 cs0 st0 tp0 r hr
    have : r = [] := List.eq_nil_of_length_eq_zero (Nat.le_zero.mp hr)
    subst this; rfl
  | succ n ih =>
    intro k0 cs0 st0 tp0 r hr
    cases r with
    | nil => rfl
    | cons p r =>
      obtain ⟨k, t⟩ := p
      simp only [eatWhile, eatList]
      by_cases hp : pred k = true
      · simp only [hp, if_true, B.push]
        rw [ih k0 (Tree.tok k t :: cs0) st0 tp0 r (by simp at hr; omega)]
        simp [List.reverse_cons, List.append_assoc]
      · simp only [hp]
        rfl

theorem eatRun_node (pred : Kind → Bool) (k0 : Kind) (cs0 : List Tree) (st0 : List (Kind × List Tree))
    (tp0 : List Tree) (r : List RawTok) :
    ({ stack := (k0, cs0) :: st0, top := tp0, rest := r } : B).eatRun pred =
      { stack := (k0, (eatList pred r).1.reverse ++ cs0) :: st0, top := tp0, rest := (eatList pred r).2 } :=
  eatWhile_node pred _ k0 cs0 st0 tp0 r (Nat.le_refl _)

/-- **the tree, item by item**: for a policy that opens the root with `start; eat p0`, drops the root's closing event,
flushes `pf` and closes the root at the end (the generated policy of `build_tree` has this shape), the tree of
`open k :: segments ++ [close]` is the root with: the leading `p0` tokens, the forests of the segments in order, the
trailing `pf` tokens -/
theorem buildTree_forests (π : Policy) (k i : Nat) (d : Bool) (p0 pf : Kind → Bool)
    (hopen : π.onOpen k = [.start, .eat p0]) (hpop : π.popLast = true) (hflush : π.finalFlush = some pf)
    (hclose : π.finalClose = true)
    (Es : List (List Ev)) (raw r2 : List RawTok) (Fs : List Tree)
    (hF : forests π Es (eatList p0 raw).2 = some (Fs, r2)) :
    buildTree π (.open k i d :: (Es.flatten ++ [.close])) raw =
      .ok (.node k ((eatList p0 raw).1 ++ Fs ++ (eatList pf r2).1)) := by
  unfold buildTree
  simp only [hpop, if_true]
  have hd : (Ev.open k i d :: (Es.flatten ++ [Ev.close])).dropLast = Ev.open k i d :: Es.flatten := by
    rw [← List.cons_append, List.dropLast_concat]
  rw [hd]
  simp only [runEvs, stepEv, hopen, runActs, B.startNode]
  rw [eatRun_node]
  simp only [List.append_nil]
  rw [runEvs_forests π Es _ r2 Fs k _ [] [] hF]
  simp only [hflush, hclose, if_true]
  rw [eatRun_node]
  simp [B.finishNode, B.push, List.reverse_append, List.append_assoc]

theorem buildTree_eraseId (π : Policy) (evs : List Ev) (raw : List RawTok) :
    buildTree π (evs.map eraseId) raw = buildTree π evs raw := by
  unfold buildTree
  have hd : (if π.popLast then (evs.map eraseId).dropLast else evs.map eraseId) =
      (if π.popLast then evs.dropLast else evs).map eraseId := by
    split
    · rw [List.dropLast_eq_take, List.dropLast_eq_take, List.map_take, List.length_map]
    · rfl
  simp only []
  rw [hd, runEvs_eraseId]

theorem forestOf_eraseId (π : Policy) (evs : List Ev) (r : List RawTok) :
    forestOf π (evs.map eraseId) r = forestOf π evs r := by
  unfold forestOf
  rw [runEvs_eraseId]

theorem forests_eraseId (π : Policy) : ∀ (Es : List (List Ev)) (r : List RawTok),
    forests π (Es.map (fun E => E.map eraseId)) r = forests π Es r := by
  intro Es
  induction Es with
  | nil => intro r; rfl
  | cons E Es ih =>
    intro r
    simp only [List.map_cons, forests, forestOf_eraseId]
    cases forestOf π E r with
    | none => rfl
    | some p => simp only [ih]

theorem forests_append (π : Policy) : ∀ (A B : List (List Ev)) (r r1 r2 : List RawTok) (Fa Fb : List Tree),
    forests π A r = some (Fa, r1) → forests π B r1 = some (Fb, r2) →
    forests π (A ++ B) r = some (Fa ++ Fb, r2) := by
  intro A
  induction A with
  | nil =>
    intro B r r1 r2 Fa Fb ha hb
    simp only [forests, Option.some.injEq, Prod.mk.injEq] at ha
    obtain ⟨rfl, rfl⟩ := ha
    simpa using hb
  | cons E A ih =>
    intro B r r1 r2 Fa Fb ha hb
    simp only [forests, List.cons_append] at ha ⊢
    cases hF : forestOf π E r with
    | none => rw [hF] at ha; cases ha
    | some p =>
      obtain ⟨F, r'⟩ := p
      rw [hF] at ha
      simp only [] at ha ⊢
      cases hA : forests π A r' with
      | none => rw [hA] at ha; cases ha
      | some q =>
        obtain ⟨Fa', r1'⟩ := q
        rw [hA] at ha
        simp only [Option.some.injEq, Prod.mk.injEq] at ha
        obtain ⟨rfl, rfl⟩ := ha
        rw [ih B r' _ r2 Fa' Fb hA hb]
        simp [List.append_assoc]

end Glas.Lemmas.TreeItems
