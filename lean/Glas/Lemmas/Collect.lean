import Glas.Model.Collect
import Glas.Lemmas.UnionFind
/-!
Lemmas for M-collect: the number of classes not yet started (`pending`) is the termination measure
of `Collector::collect` - every descent marks one more class before it goes on.
-/
namespace Glas.Lemmas.Collect
open Glas.UF Glas.Collect

def npend (l : List (Option T)) : Nat := (l.filter (· == none)).length

theorem pending_eq (st : St) : pending st = npend st.cache := rfl

theorem npend_set_some_le (l : List (Option T)) (i : Nat) (t : T) :
    npend (l.set i (some t)) ≤ npend l := by
  induction l generalizing i with
  | nil => simp [npend]
  | cons a l ih =>
    cases i with
    | zero =>
      cases a <;> simp [npend]
    | succ i =>
      have := ih i
      cases a <;> simp [npend] at this ⊢ <;> omega

theorem npend_set_of_none (l : List (Option T)) (i : Nat) (t : T) (h : l[i]? = some none) :
    npend (l.set i (some t)) + 1 = npend l := by
  induction l generalizing i with
  | nil => simp at h
  | cons a l ih =>
    cases i with
    | zero =>
      simp at h
      subst h
      simp [npend]
    | succ i =>
      simp at h
      have := ih i h
      cases a <;> simp [npend] at this ⊢ <;> omega

theorem setCache_length (st : St) (i : Nat) (t : T) : (setCache st i t).cache.length = st.cache.length := by
  simp [setCache]

theorem setCache_pending_le (st : St) (i : Nat) (t : T) : pending (setCache st i t) ≤ pending st := by
  simp only [pending_eq, setCache]
  exact npend_set_some_le _ _ _

theorem setCache_pending_of_none (st : St) (i : Nat) (t : T) (h : st.cache[i]? = some none) :
    pending (setCache st i t) + 1 = pending st := by
  simp only [pending_eq, setCache]
  exact npend_set_of_none _ _ _ h

theorem setCache_get (st : St) (i : Nat) (t : T) (h : i < st.cache.length) :
    (setCache st i t).cache[i]? = some (some t) := by
  simp [setCache, h]

theorem letterOf_cache (st : St) (idx : Nat) : (letterOf st idx).2.cache = st.cache := by
  unfold letterOf
  split <;> rfl

/-- what one successful step of the collector guarantees about the state -/
structure Step (n : Nat) (st st' : St) : Prop where
  len : st'.cache.length = n
  pend : pending st' ≤ pending st

/-- the specification a collector `rec` meets below a bound on `pending` -/
def RecOk (n bound : Nat) (rec : Nat → St → Res T) : Prop :=
  ∀ x st, x < n → st.cache.length = n → pending st ≤ bound →
    ∃ t st', rec x st = .ok t st' ∧ Step n st st' ∧ st'.cache[x]? ≠ none

theorem collectList_ok (n bound : Nat) (rec : Nat → St → Res T) (hrec : RecOk n bound rec) :
    ∀ (vs : List Nat) (st : St), (∀ v ∈ vs, v < n) → st.cache.length = n → pending st ≤ bound →
      ∃ ts st', collectList rec vs st = .ok ts st' ∧ Step n st st' := by
  intro vs
  induction vs with
  | nil => intro st _ hl _; exact ⟨.anil, st, rfl, ⟨hl, Nat.le_refl _⟩⟩
  | cons v vs ih =>
    intro st hv hl hp
    obtain ⟨t, st1, h1, s1, _⟩ := hrec v st (hv v (by simp)) hl hp
    obtain ⟨ts, st2, h2, s2⟩ := ih st1 (fun w hw => hv w (by simp [hw])) s1.len (by have := s1.pend; omega)
    refine ⟨.acons t ts, st2, ?_, ⟨s2.len, by have := s1.pend; have := s2.pend; omega⟩⟩
    simp only [collectList, h1, h2]

theorem collectNode_ok (n bound : Nat) (rec : Nat → St → Res T) (hrec : RecOk n bound rec)
    (node : N) (st : St) (hc : ∀ c ∈ node.children, c < n) (hl : st.cache.length = n)
    (hp : pending st ≤ bound) :
    ∃ t st', collectNode rec node st = .ok t st' ∧ Step n st st' := by
  cases node with
  | unk idx =>
    refine ⟨.generic (letterOf st idx).1, (letterOf st idx).2, rfl, ⟨?_, ?_⟩⟩
    · rw [letterOf_cache]; exact hl
    · simp only [pending_eq, letterOf_cache]; exact Nat.le_refl _
  | base k => exact ⟨.base k, st, rfl, ⟨hl, Nat.le_refl _⟩⟩
  | result a b =>
    obtain ⟨ta, st2, h1, s1, _⟩ := hrec a st (hc a (by simp [N.children])) hl hp
    obtain ⟨tb, st3, h2, s2, _⟩ := hrec b st2 (hc b (by simp [N.children])) s1.len (by have := s1.pend; omega)
    refine ⟨.result ta tb, st3, ?_, ⟨s2.len, by have := s1.pend; have := s2.pend; omega⟩⟩
    simp only [collectNode, h1, h2]
  | list a =>
    obtain ⟨ta, st2, h1, s1, _⟩ := hrec a st (hc a (by simp [N.children])) hl hp
    refine ⟨.list ta, st2, ?_, s1⟩
    simp only [collectNode, h1]
  | tuple fs =>
    obtain ⟨ts, st2, h1, s1⟩ := collectList_ok n bound rec hrec fs st (fun v hv => hc v (by simpa [N.children] using hv)) hl hp
    refine ⟨.tuple ts, st2, ?_, s1⟩
    simp only [collectNode, h1]
  | fn ps ret =>
    obtain ⟨ts, st2, h1, s1⟩ := collectList_ok n bound rec hrec ps st
      (fun v hv => hc v (by simp [N.children, hv])) hl hp
    obtain ⟨tr, st3, h2, s2, _⟩ := hrec ret st2 (hc ret (by simp [N.children])) s1.len (by have := s1.pend; omega)
    refine ⟨.fn ts tr, st3, ?_, ⟨s2.len, by have := s1.pend; have := s2.pend; omega⟩⟩
    simp only [collectNode, h1, h2]
  | adt id ps =>
    obtain ⟨ts, st2, h1, s1⟩ := collectList_ok n bound rec hrec ps st (fun v hv => hc v (by simpa [N.children] using hv)) hl hp
    refine ⟨.adt id ts, st2, ?_, s1⟩
    simp only [collectNode, h1]

theorem rootOf_lt {tbl : Table N} (h : WF tbl) {x : Nat} (hx : x < tbl.length) : rootOf tbl x < tbl.length :=
  (RootOf.bounds h (RootOf.of_fuelOf h x) hx).1

theorem rootOf_val {tbl : Table N} (h : WF tbl) {x : Nat} (hx : x < tbl.length) :
    ∃ node, valOf tbl (rootOf tbl x) = some node := by
  have hr := rootOf_lt h hx
  have := (h _ hr).2.2 (root_fuelOf_isRoot h x)
  exact Option.isSome_iff_exists.mp this

end Glas.Lemmas.Collect
