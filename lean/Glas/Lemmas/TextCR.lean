import Glas.Lemmas.TextPos
/-! Lemmas about `stripCR`, `wfCRLF`, `splitAtByte` (for C13). -/
namespace Glas.Text

theorem stripCR_nil : stripCR [] = [] := rfl

theorem stripCR_append (a b : List Char) : stripCR (a ++ b) = stripCR a ++ stripCR b := by
  simp [stripCR]

theorem stripCR_idem (a : List Char) : stripCR (stripCR a) = stripCR a := by
  simp [stripCR, List.filter_filter]

theorem stripCR_cons_cr (cs : List Char) : stripCR ('\r' :: cs) = stripCR cs := by
  simp [stripCR]

theorem stripCR_cons_ne (c : Char) (cs : List Char) (h : c ≠ '\r') :
    stripCR (c :: cs) = c :: stripCR cs := by
  simp [stripCR, h]

theorem u8sum_stripCR_le (a : List Char) : u8sum (stripCR a) ≤ u8sum a := by
  induction a with
  | nil => simp [stripCR_nil]
  | cons c cs ih =>
    by_cases h : c = '\r'
    · subst h; rw [stripCR_cons_cr, u8sum_cons]; omega
    · rw [stripCR_cons_ne c cs h, u8sum_cons, u8sum_cons]; omega

theorem splitLines_stripCR (a : List Char) :
    splitLines (stripCR a) = (splitLines a).map stripCR := by
  induction a with
  | nil => rfl
  | cons c cs ih =>
    obtain ⟨l, ls, h⟩ := splitLines_exists_cons cs
    rw [h] at ih
    by_cases hr : c = '\r'
    · subst hr
      rw [stripCR_cons_cr, ih, splitLines_cons_ne '\r' cs l ls (by decide) h]
      simp [stripCR_cons_cr]
    · rw [stripCR_cons_ne c cs hr]
      by_cases hn : c = '\n'
      · subst hn
        rw [splitLines_cons_nl, splitLines_cons_nl, ih, h]
        simp [stripCR_nil]
      · rw [splitLines_cons_ne c cs l ls hn h]
        rw [splitLines_cons_ne c (stripCR cs) (stripCR l) (ls.map stripCR) hn (by simpa using ih)]
        simp [stripCR_cons_ne c l hr]

theorem snoc_inj {α : Type} {la lb : List α} {x y : α} (h : la ++ [x] = lb ++ [y]) :
    la = lb ∧ x = y := by
  obtain ⟨h1, h2⟩ := List.append_inj' h rfl
  simp at h2
  exact ⟨h1, h2⟩

theorem wfCRLF_cons_ne (c : Char) (cs : List Char) (h : c ≠ '\r') :
    wfCRLF (c :: cs) = wfCRLF cs :=
  wfCRLF.eq_4 c cs (fun _ hc _ => h hc) (fun hc => h hc)

/-- truncating a well-formed document at a valid index leaves a well-formed document -/
theorem wfCRLF_take (c : List Char) : ∀ (k : Nat), wfCRLF c = true → validIdx c k →
    wfCRLF (c.take k) = true := by
  induction c using wfCRLF.induct with
  | case1 => intro k _ _; simp [wfCRLF]
  | case2 cs ih =>
    intro k hwf hv
    rw [wfCRLF.eq_2] at hwf
    obtain ⟨hk, hv⟩ := hv
    match k, hk, hv with
    | 0, _, _ => simp [wfCRLF]
    | 1, _, hv => simp at hv
    | k' + 2, hk, hv =>
      simp only [List.take_succ_cons]
      rw [wfCRLF.eq_2]
      apply ih k' hwf
      refine ⟨by simpa using hk, ?_⟩
      cases k' with
      | zero => left; rfl
      | succ k'' =>
        right
        simpa using hv
  | case3 tail hne =>
    intro k hwf _
    rw [wfCRLF.eq_3 tail hne] at hwf
    cases hwf
  | case4 head cs h1 h2 ih =>
    intro k hwf hv
    have hne : head ≠ '\r' := fun h => h2 h
    rw [wfCRLF_cons_ne head cs hne] at hwf
    obtain ⟨hk, hv⟩ := hv
    cases k with
    | zero => simp [wfCRLF]
    | succ k' =>
      simp only [List.take_succ_cons]
      rw [wfCRLF_cons_ne head _ hne]
      apply ih k' hwf
      refine ⟨by simpa using hk, ?_⟩
      cases k' with
      | zero => left; rfl
      | succ k'' =>
        right
        simpa using hv

/-- in a well-formed document the last line contains no `'\r'` -/
theorem wf_last_no_cr (a : List Char) : ∀ (la : List (List Char)) (x : List Char),
    wfCRLF a = true → splitLines a = la ++ [x] → stripCR x = x := by
  induction a using wfCRLF.induct with
  | case1 =>
    intro la x _ h
    have : [] ++ [([] : List Char)] = la ++ [x] := by simpa [splitLines] using h
    obtain ⟨_, h2⟩ := snoc_inj this
    subst h2; rfl
  | case2 cs ih =>
    intro la x hwf h
    rw [wfCRLF.eq_2] at hwf
    obtain ⟨la', x', hcs⟩ := splitLines_exists_snoc cs
    have e : splitLines ('\r' :: '\n' :: cs) = (['\r'] :: la') ++ [x'] := by
      rw [splitLines_cons_ne '\r' _ [] (splitLines cs) (by decide) (splitLines_cons_nl cs), hcs]
      simp
    rw [e] at h
    obtain ⟨_, h2⟩ := snoc_inj h
    subst h2
    exact ih la' x' hwf hcs
  | case3 tail hne =>
    intro la x hwf _
    rw [wfCRLF.eq_3 tail hne] at hwf
    cases hwf
  | case4 head cs h1 h2 ih =>
    intro la x hwf h
    have hne : head ≠ '\r' := fun h => h2 h
    rw [wfCRLF_cons_ne head cs hne] at hwf
    obtain ⟨la', x', hcs⟩ := splitLines_exists_snoc cs
    have hx' := ih la' x' hwf hcs
    by_cases hn : head = '\n'
    · subst hn
      have e : splitLines ('\n' :: cs) = ([] :: la') ++ [x'] := by
        rw [splitLines_cons_nl, hcs]; simp
      rw [e] at h
      obtain ⟨_, h2⟩ := snoc_inj h
      subst h2; exact hx'
    · cases la' with
      | nil =>
        have e : splitLines (head :: cs) = [] ++ [head :: x'] := by
          rw [splitLines_cons_ne head cs x' [] hn (by simpa using hcs)]; simp
        rw [e] at h
        obtain ⟨_, h2⟩ := snoc_inj h
        subst h2
        rw [stripCR_cons_ne head x' hne, hx']
      | cons l la'' =>
        have e : splitLines (head :: cs) = ((head :: l) :: la'') ++ [x'] := by
          rw [splitLines_cons_ne head cs l (la'' ++ [x']) hn (by simpa using hcs)]; simp
        rw [e] at h
        obtain ⟨_, h2⟩ := snoc_inj h
        subst h2; exact hx'

theorem stripCR_take_drop (c : List Char) (k : Nat) :
    (stripCR c).take (stripCR (c.take k)).length = stripCR (c.take k) ∧
    (stripCR c).drop (stripCR (c.take k)).length = stripCR (c.drop k) := by
  have h : stripCR c = stripCR (c.take k) ++ stripCR (c.drop k) := by
    rw [← stripCR_append, List.take_append_drop]
  rw [h]
  exact ⟨List.take_left' rfl, List.drop_left' rfl⟩

theorem stripCR_take_length_le (c : List Char) (k : Nat) :
    (stripCR (c.take k)).length ≤ (stripCR c).length := by
  have h : stripCR c = stripCR (c.take k) ++ stripCR (c.drop k) := by
    rw [← stripCR_append, List.take_append_drop]
  rw [h, List.length_append]; omega

theorem clientLineCol_strip (c : List Char) (k : Nat) (hwf : wfCRLF c = true) (hv : validIdx c k) :
    clientLineCol c k = clientLineCol (stripCR c) (stripCR (c.take k)).length := by
  have hwf' := wfCRLF_take c k hwf hv
  obtain ⟨la, x, ha⟩ := splitLines_exists_snoc (c.take k)
  have hx := wf_last_no_cr (c.take k) la x hwf' ha
  rw [clientLineCol_of_split c k la x ha]
  have hs : splitLines ((stripCR c).take (stripCR (c.take k)).length) = la.map stripCR ++ [x] := by
    rw [(stripCR_take_drop c k).1, splitLines_stripCR, ha]
    simp [hx]
  rw [clientLineCol_of_split _ _ _ _ hs]
  simp

theorem splitAtByte_take : ∀ (s : List Char) (n : Nat),
    splitAtByte s (u8sum (s.take n)) = some (s.take n, s.drop n) := by
  intro s
  induction s with
  | nil => intro n; simp [u8sum_nil, splitAtByte]
  | cons c cs ih =>
    intro n
    cases n with
    | zero => simp [u8sum_nil, splitAtByte]
    | succ n =>
      simp only [List.take_succ_cons, List.drop_succ_cons, u8sum_cons]
      have h8 := u8_pos c
      obtain ⟨m, hm⟩ : ∃ m, u8 c + u8sum (cs.take n) = m + 1 := ⟨u8 c + u8sum (cs.take n) - 1, by omega⟩
      rw [hm]
      simp only [splitAtByte]
      have hle : u8 c ≤ m + 1 := by omega
      have e : m + 1 - u8 c = u8sum (cs.take n) := by omega
      rw [if_pos hle, e, ih n]

end Glas.Text
