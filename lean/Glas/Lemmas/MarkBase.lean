import Glas.Model.MarkCheck
import Glas.Lemmas.DslExec
/-! Soundness of the mark-discipline checker, part 1: lists, frames, the concretisation `Rel`. -/
namespace Glas.Lemmas.Mark
open Glas.Dsl Glas.MarkCheck

/-! ## lists of abstract states -/

theorem mem_addNew {x y : MA} {l : List MA} : y ∈ addNew x l ↔ y = x ∨ y ∈ l := by
  unfold addNew
  split
  · rename_i h
    constructor
    · intro hy; exact Or.inr hy
    · rintro (rfl | hy)
      · exact h
      · exact hy
  · simp

theorem mem_unionL {y : MA} {a b : List MA} : y ∈ unionL a b ↔ y ∈ a ∨ y ∈ b := by
  induction a with
  | nil => simp [unionL]
  | cons x xs ih =>
    have : unionL (x :: xs) b = addNew x (unionL xs b) := rfl
    rw [this, mem_addNew, ih]
    simp only [List.mem_cons]
    constructor
    · rintro (h | h | h)
      · exact Or.inl (Or.inl h)
      · exact Or.inl (Or.inr h)
      · exact Or.inr h
    · rintro ((h | h) | h)
      · exact Or.inl h
      · exact Or.inr (Or.inl h)
      · exact Or.inr (Or.inr h)

theorem mem_dedup {y : MA} {a : List MA} : y ∈ dedup a ↔ y ∈ a := by
  unfold dedup
  rw [mem_unionL]
  simp

theorem mapAll_mem {α β} {f : α → Option β} {l : List α} {r : List β} (h : mapAll f l = some r)
    {a : α} (ha : a ∈ l) : ∃ b, f a = some b ∧ b ∈ r := by
  induction l generalizing r with
  | nil => cases ha
  | cons x xs ih =>
    simp only [mapAll] at h
    split at h
    · exact absurd h (by simp)
    · rename_i y hy
      split at h
      · exact absurd h (by simp)
      · rename_i ys hys
        simp only [Option.some.injEq] at h
        subst h
        rcases List.mem_cons.mp ha with rfl | ha'
        · exact ⟨y, hy, List.mem_cons_self⟩
        · obtain ⟨b, hb, hm⟩ := ih hys ha'
          exact ⟨b, hb, List.mem_cons_of_mem _ hm⟩

/-! ## `setNth`, `insertAt` -/

theorem getElem?_setNth {α} (l : List α) (i j : Nat) (a : α) :
    (setNth l i a)[j]? = if i = j ∧ i < l.length then some a else l[j]? := by
  induction l generalizing i j with
  | nil => simp [setNth]
  | cons x xs ih =>
    cases i with
    | zero =>
      cases j with
      | zero => simp [setNth]
      | succ j => simp [setNth]
    | succ i =>
      cases j with
      | zero => simp [setNth]
      | succ j =>
        simp only [setNth, List.getElem?_cons_succ, ih, List.length_cons]
        by_cases h : i = j ∧ i < xs.length
        · rw [if_pos h, if_pos ⟨by omega, by omega⟩]
        · rw [if_neg h, if_neg (by omega)]

theorem length_insertAt {α} (l : List α) (i : Nat) (a : α) : (insertAt l i a).length = l.length + 1 := by
  induction l generalizing i with
  | nil => cases i <;> simp [insertAt]
  | cons x xs ih =>
    cases i with
    | zero => simp [insertAt]
    | succ i => simp [insertAt, ih]

theorem getElem?_insertAt_lt {α} (l : List α) (i j : Nat) (a : α) (h : j < i) (hi : i ≤ l.length) :
    (insertAt l i a)[j]? = l[j]? := by
  induction l generalizing i j with
  | nil => simp at hi; omega
  | cons x xs ih =>
    cases i with
    | zero => omega
    | succ i =>
      cases j with
      | zero => simp [insertAt]
      | succ j =>
        simp only [insertAt, List.getElem?_cons_succ]
        exact ih i j (by omega) (by simpa using hi)

theorem getElem?_insertAt_eq {α} (l : List α) (i : Nat) (a : α) (hi : i ≤ l.length) :
    (insertAt l i a)[i]? = some a := by
  induction l generalizing i with
  | nil =>
    have : i = 0 := by simpa using hi
    subst this; simp [insertAt]
  | cons x xs ih =>
    cases i with
    | zero => simp [insertAt]
    | succ i =>
      simp only [insertAt, List.getElem?_cons_succ]
      exact ih i (by simpa using hi)

theorem getElem?_insertAt_gt {α} (l : List α) (i j : Nat) (a : α) (h : i ≤ j) (hi : i ≤ l.length) :
    (insertAt l i a)[j + 1]? = l[j]? := by
  induction l generalizing i j with
  | nil =>
    have : i = 0 := by simpa using hi
    subst this; simp [insertAt]
  | cons x xs ih =>
    cases i with
    | zero => simp [insertAt]
    | succ i =>
      cases j with
      | zero => omega
      | succ j =>
        simp only [insertAt, List.getElem?_cons_succ]
        exact ih i j (by omega) (by simpa using hi)

/-! ## frames -/

theorem getMark_setMark (fr : Frame) (m m' : Nat) (v : Option Mark) :
    getMark (setMark fr m v) m' = if m = m' ∧ m < fr.marks.length then v else getMark fr m' := by
  unfold getMark setMark
  simp only [getElem?_setNth]
  split <;> simp

theorem getMark_setMark_ne (fr : Frame) {m m' : Nat} (v : Option Mark) (h : m ≠ m') :
    getMark (setMark fr m v) m' = getMark fr m' := by
  rw [getMark_setMark, if_neg (fun h' => h h'.1)]

theorem getMark_setMark_same (fr : Frame) {m : Nat} (v : Option Mark) (h : m < fr.marks.length) :
    getMark (setMark fr m v) m = v := by
  rw [getMark_setMark, if_pos ⟨rfl, h⟩]

theorem getMark_setMark_none (fr : Frame) (m : Nat) : getMark (setMark fr m none) m = none := by
  rw [getMark_setMark]
  split
  · rfl
  · rename_i h
    unfold getMark
    have : ¬ m < fr.marks.length := fun h' => h ⟨rfl, h'⟩
    rw [List.getElem?_eq_none (by omega)]
    rfl

@[simp] theorem setMark_marks_length (fr : Frame) (m : Nat) (v : Option Mark) :
    (setMark fr m v).marks.length = fr.marks.length := by
  simp [setMark, Glas.Lemmas.Dsl.length_setNth]

@[simp] theorem setMark_locals (fr : Frame) (m : Nat) (v : Option Mark) :
    (setMark fr m v).locals = fr.locals := rfl

@[simp] theorem setLocal_marks (fr : Frame) (x v : Nat) : (setLocal fr x v).marks = fr.marks := rfl

@[simp] theorem getMark_setLocal (fr : Frame) (x v m : Nat) : getMark (setLocal fr x v) m = getMark fr m := rfl

@[simp] theorem setLocal_locals_length (fr : Frame) (x v : Nat) :
    (setLocal fr x v).locals.length = fr.locals.length := by
  simp [setLocal, Glas.Lemmas.Dsl.length_setNth]

theorem getLocal_setLocal (fr : Frame) (x y v : Nat) :
    ((setLocal fr x v).locals[y]?).getD 0 =
      if x = y ∧ x < fr.locals.length then v else (fr.locals[y]?).getD 0 := by
  unfold setLocal
  simp only [getElem?_setNth]
  split <;> simp

/-! ## lookups in the abstract state -/

theorem lookupM_mem {m : Nat} {s : Bool} {l : List (Nat × Bool)} (h : lookupM m l = some s) : (m, s) ∈ l := by
  induction l with
  | nil => simp [lookupM] at h
  | cons x xs ih =>
    obtain ⟨y, t⟩ := x
    simp only [lookupM] at h
    split at h
    · rename_i hy
      simp only [Option.some.injEq] at h
      subst hy; subst h
      exact List.mem_cons_self
    · exact List.mem_cons_of_mem _ (ih h)

/-- slots are pairwise different -/
def Distinct (l : List (Nat × Bool)) : Prop := l.Pairwise (fun x y => x.1 ≠ y.1)

theorem lookupM_of_mem {m : Nat} {s : Bool} {l : List (Nat × Bool)} (hd : Distinct l) (h : (m, s) ∈ l) :
    lookupM m l = some s := by
  induction l with
  | nil => cases h
  | cons x xs ih =>
    obtain ⟨y, t⟩ := x
    simp only [lookupM]
    rcases List.mem_cons.mp h with h' | h'
    · simp only [Prod.mk.injEq] at h'
      rw [if_pos h'.1.symm, h'.2]
    · have hne : y ≠ m := (List.pairwise_cons.mp hd).1 _ h'
      rw [if_neg hne]
      exact ih (List.pairwise_cons.mp hd).2 h'

theorem mem_removeM {m : Nat} {e : Nat × Bool} {l : List (Nat × Bool)} :
    e ∈ removeM m l ↔ e ∈ l ∧ e.1 ≠ m := by
  simp [removeM]

theorem removeM_sublist (m : Nat) (l : List (Nat × Bool)) : (removeM m l).Sublist l := List.filter_sublist

theorem lookupM_dropFlag {x y : Nat} {b : Bool} {l : List (Nat × Bool)} (h : lookupM y (dropFlag x l) = some b) :
    y ≠ x ∧ lookupM y l = some b := by
  induction l with
  | nil => simp [dropFlag, lookupM] at h
  | cons e es ih =>
    obtain ⟨z, t⟩ := e
    by_cases hz : z = x
    · have : dropFlag x ((z, t) :: es) = dropFlag x es := by simp [dropFlag, hz]
      rw [this] at h
      obtain ⟨h1, h2⟩ := ih h
      refine ⟨h1, ?_⟩
      simp only [lookupM]
      rw [if_neg (by omega), h2]
    · have : dropFlag x ((z, t) :: es) = (z, t) :: dropFlag x es := by simp [dropFlag, hz]
      rw [this] at h
      simp only [lookupM] at h ⊢
      split at h
      · rename_i hzy
        exact ⟨by omega, by rw [if_pos hzy]; exact h⟩
      · rename_i hzy
        obtain ⟨h1, h2⟩ := ih h
        exact ⟨h1, by rw [if_neg hzy]; exact h2⟩

end Glas.Lemmas.Mark
