import Glas.Model.Project
/-!
# Helper lemmas for M-project (C17)
-/
namespace Glas.Project

/-! ## `isPrefix` -/

theorem isPrefix_iff (a b : Path) : isPrefix a b = true ↔ ∃ t, b = a ++ t := by
  induction a generalizing b with
  | nil => simp [isPrefix]
  | cons x xs ih =>
    cases b with
    | nil => simp [isPrefix]
    | cons y ys =>
      simp only [isPrefix, Bool.and_eq_true, beq_iff_eq, ih, List.cons_append, List.cons.injEq]
      constructor
      · rintro ⟨rfl, t, rfl⟩; exact ⟨t, rfl, rfl⟩
      · rintro ⟨t, rfl, rfl⟩; exact ⟨rfl, t, rfl⟩

theorem isPrefix_append (a t : Path) : isPrefix a (a ++ t) = true :=
  (isPrefix_iff _ _).2 ⟨t, rfl⟩

theorem isPrefix_refl (a : Path) : isPrefix a a = true :=
  (isPrefix_iff _ _).2 ⟨[], by simp⟩

theorem isPrefix_trans {a b c : Path} (h1 : isPrefix a b = true) (h2 : isPrefix b c = true) :
    isPrefix a c = true := by
  obtain ⟨t, rfl⟩ := (isPrefix_iff _ _).1 h1
  obtain ⟨u, rfl⟩ := (isPrefix_iff _ _).1 h2
  exact (isPrefix_iff _ _).2 ⟨t ++ u, by simp⟩

/-! ## `stripGleam` -/

theorem gleamExt_length : gleamExt.length = 6 := rfl

theorem stripGleam_append (n : Comp) (hn : n ≠ []) : stripGleam (n ++ gleamExt) = some n := by
  unfold stripGleam
  have hl : (n ++ gleamExt).length - gleamExt.length = n.length := by
    simp [List.length_append]
  rw [hl]
  simp [hn]

/-! ## `assignRoot` -/

/-- the step function of the `foldl` in `assignRoot` -/
def pick (best : Option Path) (r : Path) : Option Path :=
  match best with
  | none => some r
  | some b => if r.length > b.length then some r else some b

theorem assignRoot_eq (roots : List Path) (path : Path) :
    assignRoot roots path = (roots.filter (fun r => isPrefix r path)).foldl pick none := rfl

theorem foldl_pick_inv (cands : List Path) (best : Option Path) (r : Path)
    (h : cands.foldl pick best = some r) :
    (r ∈ cands ∨ best = some r) ∧ (∀ c ∈ cands, c.length ≤ r.length) ∧
      (∀ b, best = some b → b.length ≤ r.length) := by
  induction cands generalizing best with
  | nil =>
    simp only [List.foldl_nil] at h
    subst h
    simp
  | cons c cs ih =>
    simp only [List.foldl_cons] at h
    obtain ⟨hm, hall, hb⟩ := ih _ h
    cases best with
    | none =>
      simp only [pick] at hm hb
      have hc := hb c rfl
      refine ⟨?_, ?_, ?_⟩
      · rcases hm with hm | hm
        · exact Or.inl (List.mem_cons_of_mem _ hm)
        · simp only [Option.some.injEq] at hm; subst hm; exact Or.inl List.mem_cons_self
      · intro c' hc'
        rcases List.mem_cons.1 hc' with rfl | hc'
        · exact hc
        · exact hall _ hc'
      · intro b hb'; cases hb'
    | some b0 =>
      simp only [pick] at hm hb
      by_cases hlt : c.length > b0.length
      · simp only [hlt, if_true] at hm hb
        have hc := hb c rfl
        refine ⟨?_, ?_, ?_⟩
        · rcases hm with hm | hm
          · exact Or.inl (List.mem_cons_of_mem _ hm)
          · simp only [Option.some.injEq] at hm; subst hm; exact Or.inl List.mem_cons_self
        · intro c' hc'
          rcases List.mem_cons.1 hc' with rfl | hc'
          · exact hc
          · exact hall _ hc'
        · intro b hb'
          simp only [Option.some.injEq] at hb'; subst hb'; omega
      · simp only [hlt, if_false] at hm hb
        have hc := hb b0 rfl
        refine ⟨?_, ?_, ?_⟩
        · rcases hm with hm | hm
          · exact Or.inl (List.mem_cons_of_mem _ hm)
          · exact Or.inr hm
        · intro c' hc'
          rcases List.mem_cons.1 hc' with rfl | hc'
          · omega
          · exact hall _ hc'
        · intro b hb'
          simp only [Option.some.injEq] at hb'; subst hb'; exact hc

theorem foldl_pick_some (cands : List Path) (b : Path) :
    ∃ r, cands.foldl pick (some b) = some r := by
  induction cands generalizing b with
  | nil => exact ⟨b, rfl⟩
  | cons c cs ih =>
    simp only [List.foldl_cons, pick]
    split
    · exact ih _
    · exact ih _

/-! ## `findParentLoop` -/

theorem findParentLoop_false_none (fuel : Nat) (directory : Path) (isModule : Bool) :
    findParentLoop (fun _ => false) fuel directory isModule = none := by
  induction fuel generalizing directory isModule with
  | zero => rfl
  | succ k ih =>
    unfold findParentLoop
    split
    · rfl
    · simp [ih]

theorem findParentLoop_spec (hasToml : Path → Bool) (path : Path) (fuel : Nat) (directory : Path)
    (isModule : Bool) (r : Path) (hd : isPrefix directory path = true)
    (h : findParentLoop hasToml fuel directory isModule = some r) :
    hasToml r = true ∧ isPrefix r path = true := by
  induction fuel generalizing directory isModule with
  | zero => simp [findParentLoop] at h
  | succ k ih =>
    unfold findParentLoop at h
    split at h
    · cases h
    · rename_i last revRoot hrev
      have hdir : directory = revRoot.reverse ++ [last] := by
        have := congrArg List.reverse hrev
        simpa using this
      have hroot : isPrefix revRoot.reverse path = true :=
        isPrefix_trans (by rw [hdir]; exact isPrefix_append _ _) hd
      simp only [] at h
      split at h
      · exact ih _ _ hroot h
      · rename_i ht
        have ht' : hasToml revRoot.reverse = true := by simpa using ht
        split at h
        · exact ih _ _ hroot h
        · split at h
          · split at h
            · exact ih _ _ hroot h
            · cases h; exact ⟨ht', hroot⟩
          · cases h; exact ⟨ht', hroot⟩

end Glas.Project
