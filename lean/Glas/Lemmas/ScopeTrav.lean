import Glas.Lemmas.ScopeBase
/-!
# The traversal invariant: `traverseExpr` extends the arena, appends the occurrences / holes of the
term in traversal order, and every recorded scope represents (in every extension of the resulting
arena) the environment the specification uses at that point.
-/
namespace Glas.Scope

/-- the dedup fold used by `visible` and `implHolesAll` -/
def dedupNames (l : List (Name × Nat)) : List (Name × Nat) :=
  l.foldl (fun acc e => if acc.any (fun p => p.1 = e.1) then acc else acc ++ [e]) []

def resolvedBy (F : List ScopeData) (new : List (Nat × Nat)) (names : List (Nat × Name)) :
    List (Nat × Option Nat) :=
  List.zipWith (fun os on => (on.1, resolveChain F F.length (some os.2) on.2)) new names

def holesBy (F : List ScopeData) (new : List (Nat × Nat)) (hids : List Nat) :
    List (Nat × List (Name × Nat)) :=
  List.zipWith (fun os h => (h, dedupNames (chainEntries F F.length (some os.2)))) new hids

structure Trav (S S' : Scopes) (names : List (Nat × Name)) (spec : List (Nat × Option Nat))
    (hids : List Nat) (hspec : List (Nat × List (Name × Nat))) : Prop where
  pre : S.arena <+: S'.arena
  occ : ∃ new, S'.byOcc = S.byOcc ++ new ∧ new.map (·.1) = names.map (·.1) ∧
    ∀ F, S'.arena <+: F → resolvedBy F new names = spec
  hole : ∃ new, S'.byHole = S.byHole ++ new ∧ new.map (·.1) = hids ∧
    ∀ F, S'.arena <+: F → holesBy F new hids = hspec

theorem Trav.refl (S : Scopes) : Trav S S [] [] [] [] :=
  ⟨List.prefix_refl _, ⟨[], by simp, rfl, fun _ _ => rfl⟩, ⟨[], by simp, rfl, fun _ _ => rfl⟩⟩

theorem Trav.trans {S S1 S2 : Scopes} {n1 n2 s1 s2 h1 h2 hs1 hs2}
    (a : Trav S S1 n1 s1 h1 hs1) (b : Trav S1 S2 n2 s2 h2 hs2) :
    Trav S S2 (n1 ++ n2) (s1 ++ s2) (h1 ++ h2) (hs1 ++ hs2) := by
  obtain ⟨pa, ⟨na, ea, ka, ra⟩, ⟨ma, fa, ja, qa⟩⟩ := a
  obtain ⟨pb, ⟨nb, eb, kb, rb⟩, ⟨mb, fb, jb, qb⟩⟩ := b
  refine ⟨pa.trans pb, ⟨na ++ nb, ?_, ?_, ?_⟩, ⟨ma ++ mb, ?_, ?_, ?_⟩⟩
  · rw [eb, ea, List.append_assoc]
  · simp [ka, kb]
  · intro F hF
    have hl : na.length = n1.length := by
      have := congrArg List.length ka; simpa using this
    unfold resolvedBy
    rw [List.zipWith_append hl]
    have e1 := ra F (pb.trans hF)
    have e2 := rb F hF
    unfold resolvedBy at e1 e2
    rw [e1, e2]
  · rw [fb, fa, List.append_assoc]
  · simp [ja, jb]
  · intro F hF
    have hl : ma.length = h1.length := by
      have := congrArg List.length ja; simpa using this
    unfold holesBy
    rw [List.zipWith_append hl]
    have e1 := qa F (pb.trans hF)
    have e2 := qb F hF
    unfold holesBy at e1 e2
    rw [e1, e2]

/-- prepend a step that only extends the arena -/
theorem Trav.of_ext {S S1 S2 : Scopes} {n s h hs} (hp : S.arena <+: S1.arena)
    (ho : S1.byOcc = S.byOcc) (hh : S1.byHole = S.byHole) (b : Trav S1 S2 n s h hs) :
    Trav S S2 n s h hs := by
  have a : Trav S S1 [] [] [] [] :=
    ⟨hp, ⟨[], by simp [ho], rfl, fun _ _ => rfl⟩, ⟨[], by simp [hh], rfl, fun _ _ => rfl⟩⟩
  simpa using a.trans b

theorem visible_eq (env : Env) : visible env = dedupNames env.flatten := rfl

theorem Trav.ofVar {S : Scopes} {sc : Nat} {env : Env} (hr : Repr S.arena (some sc) env)
    (occ : Nat) (name : Name) :
    Trav S { S with byOcc := S.byOcc ++ [(occ, sc)] } [(occ, name)] [(occ, lookupEnv env name)]
      [] [] := by
  refine ⟨List.prefix_refl _, ⟨[(occ, sc)], rfl, rfl, ?_⟩, ⟨[], by simp, rfl, fun _ _ => rfl⟩⟩
  intro F hF
  have hr' : Repr F (some sc) env := Repr.mono hF hr
  simp only [resolvedBy, List.zipWith_cons_cons, List.zipWith_nil_right]
  rw [resolveChain_repr name hr' hr'.lt_length]

theorem Trav.ofHole {S : Scopes} {sc : Nat} {env : Env} (hr : Repr S.arena (some sc) env)
    (id : Nat) :
    Trav S { S with byHole := S.byHole ++ [(id, sc)] } [] [] [id] [(id, visible env)] := by
  refine ⟨List.prefix_refl _, ⟨[], by simp, rfl, fun _ _ => rfl⟩, ⟨[(id, sc)], rfl, rfl, ?_⟩⟩
  intro F hF
  have hr' : Repr F (some sc) env := Repr.mono hF hr
  simp only [holesBy, List.zipWith_cons_cons, List.zipWith_nil_right]
  rw [chainEntries_repr hr' hr'.lt_length, visible_eq]

/-- the shape shared by lambdas, clauses, `let` and `use`: allocate, fill, traverse -/
theorem Trav.scoped {S S2 : Scopes} {sc : Nat} {env : Env} (hr : Repr S.arena (some sc) env)
    (fr : Frame) {n s h hs}
    (k : ∀ S1 : Scopes, S1.arena = S.arena ++ [{ parent := some sc, entries := fr }] →
      S1.byOcc = S.byOcc → S1.byHole = S.byHole →
      Repr S1.arena (some S.arena.length) (fr :: env) → Trav S1 S2 n s h hs) :
    Trav S S2 n s h hs := by
  let S1 : Scopes := { arena := S.arena ++ [{ parent := some sc, entries := fr }],
                        byOcc := S.byOcc, byHole := S.byHole }
  exact Trav.of_ext (S1 := S1) (List.prefix_append _ _) rfl rfl (k S1 rfl rfl rfl (hr.push fr))

mutual
  theorem trav_expr : ∀ (e : Expr) (sc : Nat) (S : Scopes) (env : Env),
      Repr S.arena (some sc) env →
      Trav S (traverseExpr e sc S) (occNames e) (specExpr e env) (holeIds e) (specHoles e env)
    | .var occ name, sc, S, env, hr => by
      simp only [traverseExpr, occNames, specExpr, holeIds, specHoles]
      exact Trav.ofVar hr occ name
    | .hole id, sc, S, env, hr => by
      simp only [traverseExpr, occNames, specExpr, holeIds, specHoles]
      exact Trav.ofHole hr id
    | .leaf, sc, S, env, hr => by
      simp only [traverseExpr, occNames, specExpr, holeIds, specHoles]
      exact Trav.refl S
    | .block ss, sc, S, env, hr => by
      simp only [traverseExpr, occNames, specExpr, holeIds, specHoles]
      exact trav_stmts ss sc S env hr
    | .call f args, sc, S, env, hr => by
      simp only [traverseExpr, occNames, specExpr, holeIds, specHoles]
      have a := trav_exprs args sc S env hr
      exact a.trans (trav_expr f sc _ env (Repr.mono a.pre hr))
    | .node es, sc, S, env, hr => by
      simp only [traverseExpr, occNames, specExpr, holeIds, specHoles]
      exact trav_exprs es sc S env hr
    | .case_ subjects clauses, sc, S, env, hr => by
      simp only [traverseExpr, occNames, specExpr, holeIds, specHoles]
      have a := trav_exprs subjects sc S env hr
      exact a.trans (trav_clauses clauses sc _ env (Repr.mono a.pre hr))
    | .lam params body, sc, S, env, hr => by
      simp only [traverseExpr, occNames, specExpr, holeIds, specHoles]
      rw [show (S.alloc (some sc)).1 = S.arena.length from rfl, alloc_addBindingsList]
      apply Trav.scoped hr (patsBinders params)
      intro S1 ha ho hh hr1
      have := trav_expr body S.arena.length S1 _ hr1
      have e : S1 = { arena := S.arena ++ [{ parent := some sc, entries := patsBinders params }],
                      byOcc := S.byOcc, byHole := S.byHole } := by
        cases S1; simp_all
      rw [← e]; exact this
  theorem trav_exprs : ∀ (es : Exprs) (sc : Nat) (S : Scopes) (env : Env),
      Repr S.arena (some sc) env →
      Trav S (traverseExprs es sc S) (occNamesExprs es) (specExprs es env) (holeIdsExprs es)
        (specHolesExprs es env)
    | .nil, sc, S, env, hr => by
      simp only [traverseExprs, occNamesExprs, specExprs, holeIdsExprs, specHolesExprs]
      exact Trav.refl S
    | .cons e es, sc, S, env, hr => by
      simp only [traverseExprs, occNamesExprs, specExprs, holeIdsExprs, specHolesExprs]
      have a := trav_expr e sc S env hr
      exact a.trans (trav_exprs es sc _ env (Repr.mono a.pre hr))
  theorem trav_stmts : ∀ (ss : Stmts) (sc : Nat) (S : Scopes) (env : Env),
      Repr S.arena (some sc) env →
      Trav S (traverseStmts ss sc S) (occNamesStmts ss) (specStmts ss env) (holeIdsStmts ss)
        (specHolesStmts ss env)
    | .nil, sc, S, env, hr => by
      simp only [traverseStmts, occNamesStmts, specStmts, holeIdsStmts, specHolesStmts]
      exact Trav.refl S
    | .cons (.let_ p e) ss, sc, S, env, hr => by
      simp only [traverseStmts, occNamesStmts, specStmts, holeIdsStmts, specHolesStmts]
      have a := trav_expr e sc S env hr
      refine a.trans ?_
      have hr0 := Repr.mono a.pre hr
      generalize traverseExpr e sc S = S0 at hr0 ⊢
      rw [show (S0.alloc (some sc)).1 = S0.arena.length from rfl, alloc_addBindings]
      apply Trav.scoped hr0 (patBinders p)
      intro S1 ha ho hh hr1
      have := trav_stmts ss S0.arena.length S1 _ hr1
      have e : S1 = { arena := S0.arena ++ [{ parent := some sc, entries := patBinders p }],
                      byOcc := S0.byOcc, byHole := S0.byHole } := by
        cases S1; simp_all
      rw [← e]; exact this
    | .cons (.use_ ps e) ss, sc, S, env, hr => by
      simp only [traverseStmts, occNamesStmts, specStmts, holeIdsStmts, specHolesStmts]
      have a := trav_expr e sc S env hr
      refine a.trans ?_
      have hr0 := Repr.mono a.pre hr
      generalize traverseExpr e sc S = S0 at hr0 ⊢
      rw [show (S0.alloc (some sc)).1 = S0.arena.length from rfl, alloc_addBindingsList]
      apply Trav.scoped hr0 (patsBinders ps)
      intro S1 ha ho hh hr1
      have := trav_stmts ss S0.arena.length S1 _ hr1
      have e : S1 = { arena := S0.arena ++ [{ parent := some sc, entries := patsBinders ps }],
                      byOcc := S0.byOcc, byHole := S0.byHole } := by
        cases S1; simp_all
      rw [← e]; exact this
    | .cons (.expr e) ss, sc, S, env, hr => by
      simp only [traverseStmts, occNamesStmts, specStmts, holeIdsStmts, specHolesStmts]
      have a := trav_expr e sc S env hr
      exact a.trans (trav_stmts ss sc _ env (Repr.mono a.pre hr))
  theorem trav_clauses : ∀ (cs : Clauses) (sc : Nat) (S : Scopes) (env : Env),
      Repr S.arena (some sc) env →
      Trav S (traverseClauses cs sc S) (occNamesClauses cs) (specClauses cs env)
        (holeIdsClauses cs) (specHolesClauses cs env)
    | .nil, sc, S, env, hr => by
      simp only [traverseClauses, occNamesClauses, specClauses, holeIdsClauses, specHolesClauses]
      exact Trav.refl S
    | .cons (.mk pats body) cs, sc, S, env, hr => by
      simp only [traverseClauses, occNamesClauses, specClauses, holeIdsClauses, specHolesClauses]
      rw [show (S.alloc (some sc)).1 = S.arena.length from rfl, alloc_addBindingsList]
      have a : Trav S (traverseExpr body S.arena.length
          { arena := S.arena ++ [{ parent := some sc, entries := patsBinders pats }],
            byOcc := S.byOcc, byHole := S.byHole })
          (occNames body) (specExpr body (patsBinders pats :: env)) (holeIds body)
          (specHoles body (patsBinders pats :: env)) := by
        apply Trav.scoped hr (patsBinders pats)
        intro S1 ha ho hh hr1
        have := trav_expr body S.arena.length S1 _ hr1
        have e : S1 = { arena := S.arena ++ [{ parent := some sc, entries := patsBinders pats }],
                        byOcc := S.byOcc, byHole := S.byHole } := by
          cases S1; simp_all
        rw [← e]; exact this
      exact a.trans (trav_clauses cs sc _ env (Repr.mono a.pre hr))
end

/-- the invariant for a whole function: start from the root scope filled with the parameters -/
theorem trav_buildScopes (f : Function) :
    Trav { arena := [{ parent := none, entries := patsBinders f.params }], byOcc := [], byHole := [] }
      (buildScopes f) (occNames f.body) (specExpr f.body [patsBinders f.params]) (holeIds f.body)
      (specHoles f.body [patsBinders f.params]) := by
  have h0 := addBindingsList_last [] none [] [] f.params []
  simp only [List.nil_append, List.length_nil] at h0
  unfold buildScopes
  simp only [h0]
  apply trav_expr
  exact ⟨_, rfl, rfl, by simp, trivial⟩

end Glas.Scope
