import Glas.Lemmas.DslInv
/-! A normally ending run of a well-shaped main: shape of the event list. -/
namespace Glas.Lemmas.Dsl
open Glas.Dsl Glas.SyntaxSpec

/-- outcome of `p.call f` inside the main loop -/
def CallOut (k0 r : Nat) : Out → Prop
  | .norm σ' _ => RInv k0 r σ'.events σ'.nextId
  | .brk _ _ | .ret _ _ => False
  | _ => True

theorem FrOK.of_all_none {r : Nat} {fr : Frame} (h : ∀ x ∈ fr.marks, x = none) : FrOK r fr := by
  intro mk hmk
  exact absurd (h _ hmk) (by simp)

theorem exec_call_nil (P : Prog) (k0 r n f : Nat) (σ : St) (fr : Frame)
    (hσ : RInv k0 r σ.events σ.nextId) : CallOut k0 r (exec P n (.call f [] [] .none) σ fr) := by
  cases n with
  | zero => trivial
  | succ n =>
    simp only [exec, evalArgs, takeMarks, assignDst]
    split
    · trivial
    · rename_i p hp
      generalize hex : exec P n p.body _ _ = o
      have hb : InvOut k0 r o := by
        rw [← hex]
        exact exec_inv _ _ _ _ _ _ _ hσ (FrOK.of_all_none (by simp))
      cases o with
      | norm σ' fr' => exact hb.1
      | ret σ' v => exact hb.1
      | brk σ' fr' => trivial
      | panic w σ' => trivial
      | oof => trivial

theorem evalIn_not_eof {P : Prog} {σ σ' : St} {fr : Frame} {v : Nat}
    (h : evalIn P σ fr (.not .eof) = some (v, σ')) :
    v = b2n (b2n (σ.pos == σ.toks.length) == 0) ∧ ∃ la, σ' = { σ with la := la } := by
  have he : evalE P σ.toks σ.pos fr.locals (.not .eof) =
      (b2n (b2n (σ.pos == σ.toks.length) == 0), 0) := rfl
  unfold evalIn at h
  rw [he] at h
  simp only at h
  split at h
  · exact absurd h (by simp)
  · simp only [Option.some.injEq, Prod.mk.injEq] at h
    exact ⟨h.1.symm, _, h.2.symm⟩

def loopBody (f : Nat) : Stmt := .ite (.not .eof) (.call f [] [] .none) .brk

def BodyOut (k0 r : Nat) : Out → Prop
  | .norm σ' _ => RInv k0 r σ'.events σ'.nextId
  | .brk σ' _ => RInv k0 r σ'.events σ'.nextId ∧ σ'.pos = σ'.toks.length
  | .ret _ _ => False
  | _ => True

theorem exec_loopBody (P : Prog) (k0 r n f : Nat) (σ : St) (fr : Frame)
    (hσ : RInv k0 r σ.events σ.nextId) : BodyOut k0 r (exec P n (loopBody f) σ fr) := by
  cases n with
  | zero => trivial
  | succ n =>
    simp only [loopBody, exec]
    split
    · trivial
    · rename_i v σ' h
      · obtain ⟨hv, la, rfl⟩ := evalIn_not_eof h
        split
        · have := exec_call_nil P k0 r n f
            { σ with la := la } fr hσ
          generalize exec P n (.call f [] [] .none) _ fr = o at this ⊢
          cases o <;> first | exact this | trivial
        · rename_i hv0
          cases n with
          | zero => trivial
          | succ n =>
            simp only [exec, BodyOut]
            refine ⟨hσ, ?_⟩
            subst hv
            by_cases hp : σ.pos = σ.toks.length
            · exact hp
            · simp [b2n, hp] at hv0

def LoopOut (k0 r : Nat) : Out → Prop
  | .norm σ' _ => RInv k0 r σ'.events σ'.nextId ∧ σ'.pos = σ'.toks.length
  | .brk _ _ | .ret _ _ => False
  | _ => True

theorem exec_mainLoop (P : Prog) (k0 r n f : Nat) (σ : St) (fr : Frame)
    (hσ : RInv k0 r σ.events σ.nextId) : LoopOut k0 r (exec P n (.loop (loopBody f)) σ fr) := by
  induction n generalizing σ fr with
  | zero => trivial
  | succ n ih =>
    simp only [exec]
    have hb := exec_loopBody P k0 r n f σ fr hσ
    split
    · rename_i σ' fr' h
      rw [h] at hb
      exact ih σ' fr' hb
    · rename_i σ' fr' h
      rw [h] at hb
      exact hb
    · rename_i o h1 h2
      generalize exec P n (loopBody f) σ fr = o' at *
      cases o' <;> first | trivial | exact hb | (exfalso; simp_all)

end Glas.Lemmas.Dsl

namespace Glas.Lemmas.Dsl
open Glas.Dsl Glas.SyntaxSpec

def mainBody (f k : Nat) : Stmt :=
  .seq (.open 0) (.seq (.loop (loopBody f)) (.close 0 k none))

theorem hasUndone_append (a b : List Ev) : hasUndone (a ++ b) = (hasUndone a || hasUndone b) := by
  induction a with
  | nil => simp [hasUndone]
  | cons e es ih =>
    cases e with
    | «open» k i d => cases d <;> simp [hasUndone, ih]
    | close => simp [hasUndone, ih]
    | adv => simp [hasUndone, ih]

/-- what a finished run of the main body looks like -/
def MainOut (k r : Nat) : Out → Prop
  | .norm σ' _ => σ'.pos = σ'.toks.length ∧
      (hasUndone σ'.events = true ∨
        ∃ mid, σ'.events = .open k r true :: (mid ++ [.close]) ∧ Ok 0 mid ∧
          closeCount mid = doneCount mid)
  | .ret _ _ => False
  | _ => True

theorem exec_close_root (P : Prog) (k0 r n m k : Nat) (σ : St) (fr : Frame)
    (hσ : RInv k0 r σ.events σ.nextId) (hpos : σ.pos = σ.toks.length) :
    MainOut k r (exec P n (.close m k none) σ fr) := by
  cases n with
  | zero => trivial
  | succ n =>
    simp only [exec]
    split
    · trivial
    · rename_i mk hmk
      split
      · rename_i kk id hev
        split
        · rename_i hid
          refine ⟨hpos, ?_⟩
          obtain ⟨_, rest, hrest, hok, hcnt⟩ := hσ
          simp only
          rw [hrest] at hev ⊢
          cases hidx : mk.idx with
          | zero =>
            rw [hidx] at hev
            simp at hev
            right
            refine ⟨rest, ?_, hok, hcnt⟩
            simp [setNth, hev.2]
          | succ j =>
            left
            simp [setNth, hasUndone]
        · trivial
      · trivial

theorem exec_mainBody (P : Prog) (f k n : Nat) (σ : St) (fr : Frame) (hev : σ.events = []) :
    MainOut k σ.nextId (exec P n (mainBody f k) σ fr) := by
  cases n with
  | zero => trivial
  | succ n =>
    cases n with
    | zero => trivial
    | succ n =>
      have h0 : RInv P.errorKind σ.nextId (σ.events ++ [.open P.errorKind σ.nextId false])
          (σ.nextId + 1) := by
        rw [hev]
        exact ⟨Nat.lt_succ_self _, [], rfl, trivial, rfl⟩
      simp only [mainBody, exec]
      have hl := exec_mainLoop P P.errorKind σ.nextId n f
        { σ with events := σ.events ++ [.open P.errorKind σ.nextId false], nextId := σ.nextId + 1 }
        (setMark fr 0 (some { idx := σ.events.length, id := σ.nextId })) h0
      generalize exec P n (.loop (loopBody f)) _ _ = o at hl ⊢
      cases o with
      | norm σ' fr' => exact exec_close_root P _ _ n 0 k σ' fr' hl.1 hl.2
      | brk σ' fr' => exact hl.elim
      | ret σ' v => exact hl.elim
      | panic w σ' => trivial
      | oof => trivial

/-- the shape of the event list of a normally ending run of a well-shaped main -/
theorem run_shape (P : Prog) (f k : Nat)
    (hP : (P.procs[P.main]?).map (fun p => p.body) = some (mainBody f k))
    (n : Nat) (toks : List Kind) (σ : St) (hr : runMain P n toks = .ok σ) :
    σ.pos = toks.length ∧ σ.toks = toks ∧ advCount σ.events = toks.length ∧
    ∃ mid, σ.events = .open k 0 true :: (mid ++ [.close]) ∧ Ok 0 mid ∧ hasUndone mid = false ∧
      closeCount mid = doneCount mid := by
  unfold runMain at hr
  have hadv := exec_advOut P n (.call P.main [] [] .none) (initSt toks) { locals := [], marks := [] }
  generalize hex : exec P n (.call P.main [] [] .none) (initSt toks) { locals := [], marks := [] } = o
    at hr hadv
  cases o with
  | norm σ0 fr0 =>
    simp only at hr
    split at hr
    · exact absurd hr (by simp)
    · rename_i hund
      simp only [ParseOut.ok.injEq] at hr
      subst hr
      obtain ⟨htoks, _, hcount⟩ := hadv
      simp only [initSt, advCount] at htoks hcount
      -- now open the call
      cases n with
      | zero => exact absurd hex (by simp [exec])
      | succ n =>
        simp only [exec, evalArgs, takeMarks, assignDst] at hex
        cases hp : P.procs[P.main]? with
        | none => rw [hp] at hP; simp at hP
        | some p =>
          rw [hp] at hP hex
          simp only [Option.map_some, Option.some.injEq] at hP
          simp only [hP] at hex
          have hm := exec_mainBody P f k n
            { initSt toks with depth := (initSt toks).depth + 1,
                               maxDepth := max (initSt toks).maxDepth ((initSt toks).depth + 1) }
            { locals := [] ++ List.replicate (p.nLocals - ([] : List Nat).length) 0,
              marks := [] ++ List.replicate (p.nMarks - ([] : List (Option Mark)).length) none }
            rfl
          generalize exec P n (mainBody f k) _ _ = o1 at hm hex
          cases o1 with
          | norm σ1 fr1 =>
            simp only [Out.norm.injEq] at hex
            obtain ⟨rfl, _⟩ := hex
            obtain ⟨hpos, hsh⟩ := hm
            simp only at hpos hsh hund htoks hcount ⊢
            rcases hsh with hu | ⟨mid, hmid, hok, hcnt⟩
            · rw [hu] at hund; exact absurd rfl hund
            · have hpos' : σ1.pos = toks.length := by rw [hpos, htoks]
              refine ⟨hpos', htoks, ?_, mid, hmid, hok, ?_, hcnt⟩
              · omega
              rw [hmid] at hund
              simp only [hasUndone, hasUndone_append, Bool.or_eq_true, not_or] at hund
              simpa using hund.1
          | ret σ1 v => exact hm.elim
          | brk σ1 fr1 => simp at hex
          | panic w σ1 => simp at hex
          | oof => simp at hex
  | brk σ0 fr0 => simp at hr
  | ret σ0 v => simp at hr
  | panic w σ0 => simp at hr
  | oof => simp at hr

end Glas.Lemmas.Dsl
