import Glas.Lemmas.DslExec
/-! The root invariant: while the root `Open` (index 0, identity `r`) is unfinished, no statement
of any program can touch it, and the events after it stay balanced. -/
namespace Glas.Lemmas.Dsl
open Glas.Dsl Glas.SyntaxSpec

/-- no mark of the frame refers to identity `r` -/
def FrOK (r : Nat) (fr : Frame) : Prop := ∀ mk : Mark, some mk ∈ fr.marks → mk.id ≠ r

def RetOK (r : Nat) : RetV → Prop
  | .mark mk => mk.id ≠ r
  | _ => True

/-- the root is the unfinished event at index 0, everything after it is balanced -/
def RInv (k0 r : Nat) (evs : List Ev) (nid : Nat) : Prop :=
  r < nid ∧ ∃ rest, evs = .open k0 r false :: rest ∧ Ok 0 rest ∧ closeCount rest = doneCount rest

theorem getMark_mem {fr : Frame} {m : Nat} {mk : Mark} (h : getMark fr m = some mk) :
    some mk ∈ fr.marks := by
  unfold getMark at h
  cases hm : fr.marks[m]? with
  | none => simp [hm] at h
  | some v =>
    simp [hm] at h
    subst h
    exact List.mem_of_getElem? hm

theorem FrOK.setMark {r : Nat} {fr : Frame} (h : FrOK r fr) (m : Nat) (v : Option Mark)
    (hv : ∀ mk, v = some mk → mk.id ≠ r) : FrOK r (setMark fr m v) := by
  intro mk hmk
  simp only [Dsl.setMark] at hmk
  rcases mem_setNth hmk with h' | h'
  · exact h mk h'
  · exact hv mk h'.symm

theorem FrOK.setLocal {r : Nat} {fr : Frame} (h : FrOK r fr) (x v : Nat) :
    FrOK r (setLocal fr x v) := h

theorem FrOK.getMark {r : Nat} {fr : Frame} (h : FrOK r fr) {m : Nat} {mk : Mark}
    (hm : getMark fr m = some mk) : mk.id ≠ r := h mk (getMark_mem hm)

theorem FrOK.takeMarks {r : Nat} (ms : List Nat) {fr : Frame} (h : FrOK r fr) :
    FrOK r (takeMarks fr ms).2 ∧ ∀ mk : Mark, some mk ∈ (takeMarks fr ms).1 → mk.id ≠ r := by
  induction ms generalizing fr with
  | nil => exact ⟨h, by simp [Dsl.takeMarks]⟩
  | cons m ms ih =>
    have h' := ih (h.setMark m none (by simp))
    simp only [Dsl.takeMarks]
    refine ⟨h'.1, ?_⟩
    intro mk hmk
    rcases List.mem_cons.mp hmk with e | e
    · exact h.getMark e.symm
    · exact h'.2 mk e

theorem FrOK.assignDst {r : Nat} {fr fr2 : Frame} {d : Dst} {v : RetV} (h : FrOK r fr)
    (hv : RetOK r v) (ha : assignDst fr d v = some fr2) : FrOK r fr2 := by
  unfold Dsl.assignDst at ha
  split at ha
  · cases ha; exact h
  · cases ha; exact h.setLocal _ _
  · cases ha; exact h.setMark _ _ (by intro mk e; cases e; exact hv)
  · cases ha; exact (h.setMark _ _ (by intro mk e; cases e; exact hv)).setLocal _ _
  · cases ha; exact (h.setMark _ _ (by simp)).setLocal _ _
  · exact absurd ha (by simp)

/-! ### the primitive steps preserve `RInv` -/

theorem RInv.mono {k0 r : Nat} {evs : List Ev} {nid : Nat} (h : RInv k0 r evs nid) :
    RInv k0 r evs (nid + 1) := ⟨by have := h.1; omega, h.2⟩

theorem RInv.adv {k0 r : Nat} {evs : List Ev} {nid : Nat} (h : RInv k0 r evs nid) :
    RInv k0 r (evs ++ [.adv]) nid := by
  obtain ⟨h1, rest, rfl, h2, h3⟩ := h
  exact ⟨h1, rest ++ [.adv], rfl, h2.append_nonclose (by simp),
    by simp [closeCount_append, doneCount_append, closeCount, doneCount, h3]⟩

theorem RInv.open {k0 r : Nat} {evs : List Ev} {nid : Nat} (h : RInv k0 r evs nid) (k id : Nat) :
    RInv k0 r (evs ++ [.open k id false]) (nid + 1) := by
  obtain ⟨h1, rest, rfl, h2, h3⟩ := h
  exact ⟨by omega, rest ++ [.open k id false], rfl, h2.append_nonclose (by simp),
    by simp [closeCount_append, doneCount_append, closeCount, doneCount, h3]⟩

theorem RInv.openBefore {k0 r : Nat} {evs : List Ev} {nid : Nat} (h : RInv k0 r evs nid)
    {i kk id : Nat} (hi : evs[i]? = some (.open kk id true)) (k id' : Nat) :
    RInv k0 r (insertAt evs i (.open k id' false)) (nid + 1) := by
  obtain ⟨h1, rest, rfl, h2, h3⟩ := h
  cases i with
  | zero => simp at hi
  | succ j =>
    refine ⟨by omega, insertAt rest j (.open k id' false), rfl, h2.insertAt _ _ _, ?_⟩
    rw [closeCount_insertAt, doneCount_insertAt, h3]

theorem RInv.close {k0 r : Nat} {evs : List Ev} {nid : Nat} (h : RInv k0 r evs nid)
    {i kk id : Nat} (hi : evs[i]? = some (.open kk id false)) (hid : id ≠ r) (k : Nat) :
    RInv k0 r (setNth evs i (.open k id true) ++ [.close]) nid := by
  obtain ⟨h1, rest, rfl, h2, h3⟩ := h
  cases i with
  | zero => simp at hi; exact absurd hi.2.symm hid
  | succ j =>
    simp only [List.getElem?_cons_succ] at hi
    have hc := closeCount_setNth rest j kk id k id false true hi
    have hd := doneCount_setNth rest j kk id k id hi
    refine ⟨h1, setNth rest j (.open k id true) ++ [.close], rfl, ?_, ?_⟩
    · exact (h2.setNth hi).append_close (by omega)
    · simp [closeCount_append, doneCount_append, closeCount, doneCount, hc, hd, h3]

/-! ### every statement of every program preserves the invariant -/

def InvOut (k0 r : Nat) : Out → Prop
  | .norm σ' fr' | .brk σ' fr' => RInv k0 r σ'.events σ'.nextId ∧ FrOK r fr'
  | .ret σ' v => RInv k0 r σ'.events σ'.nextId ∧ RetOK r v
  | _ => True

theorem FrOK.callee {r : Nat} {mvs : List (Option Mark)} (h : ∀ mk : Mark, some mk ∈ mvs → mk.id ≠ r)
    (vs : List Nat) (a b : Nat) :
    FrOK r { locals := vs ++ List.replicate a 0, marks := mvs ++ List.replicate b none } := by
  intro mk hmk
  simp only [List.mem_append, List.mem_replicate] at hmk
  rcases hmk with h' | h'
  · exact h mk h'
  · exact absurd h'.2 (by simp)

theorem exec_inv (P : Prog) (k0 r : Nat) (n : Nat) (s : Stmt) (σ : St) (fr : Frame)
    (hσ : RInv k0 r σ.events σ.nextId) (hfr : FrOK r fr) : InvOut k0 r (exec P n s σ fr) := by
  induction n generalizing s σ fr with
  | zero => simp [exec, InvOut]
  | succ n ih =>
    cases s with
    | skip => exact ⟨hσ, hfr⟩
    | bump =>
      simp only [exec]
      split
      · exact ⟨hσ.adv, hfr⟩
      · trivial
    | err code arg => exact ⟨hσ, hfr⟩
    | «open» m =>
      simp only [exec, InvOut]
      exact ⟨hσ.open _ _, hfr.setMark _ _ (by intro mk e; cases e; exact Nat.ne_of_gt hσ.1)⟩
    | openBefore m' m =>
      simp only [exec]
      split
      · trivial
      · split
        · rename_i kk id hev
          split
          · exact ⟨hσ.openBefore hev _ _, (hfr.setMark _ _ (by simp)).setMark _ _
              (by intro mk e; cases e; exact Nat.ne_of_gt hσ.1)⟩
          · trivial
        · trivial
    | close m k dst =>
      simp only [exec]
      split
      · trivial
      · rename_i mk hmk
        split
        · rename_i kk id hev
          split
          · rename_i hid
            have hne : id ≠ r := by rw [hid]; exact hfr.getMark hmk
            have hσ' := hσ.close hev hne k
            split
            · exact ⟨hσ', hfr.setMark _ _ (by simp)⟩
            · exact ⟨hσ', (hfr.setMark _ _ (by simp)).setMark _ _
                (by intro mk' e; cases e; exact hfr.getMark hmk)⟩
          · trivial
        · trivial
    | assert c =>
      simp only [exec]
      split
      · trivial
      · rename_i v σ' h
        obtain ⟨la, rfl⟩ := evalIn_eq h
        split
        · exact ⟨hσ, hfr⟩
        · trivial
    | set x e =>
      simp only [exec]
      split
      · trivial
      · rename_i v σ' h
        obtain ⟨la, rfl⟩ := evalIn_eq h
        exact ⟨hσ, hfr.setLocal _ _⟩
    | seq a b =>
      simp only [exec]
      have ha := ih a σ fr hσ hfr
      split
      · rename_i σ' fr' h
        rw [h] at ha
        exact ih b σ' fr' ha.1 ha.2
      · exact ha
    | ite c t e =>
      simp only [exec]
      split
      · trivial
      · rename_i v σ' h
        obtain ⟨la, rfl⟩ := evalIn_eq h
        split
        · exact ih t _ fr hσ hfr
        · exact ih e _ fr hσ hfr
    | loop b =>
      simp only [exec]
      have hb := ih b σ fr hσ hfr
      split
      · rename_i σ' fr' h
        rw [h] at hb
        exact ih (.loop b) σ' fr' hb.1 hb.2
      · rename_i σ' fr' h
        rw [h] at hb
        exact hb
      · exact hb
    | brk => exact ⟨hσ, hfr⟩
    | ret rv =>
      cases rv with
      | unit => exact ⟨hσ, trivial⟩
      | nat e =>
        simp only [exec]
        split
        · trivial
        · rename_i v σ' h
          obtain ⟨la, rfl⟩ := evalIn_eq h
          exact ⟨hσ, trivial⟩
      | mark m =>
        simp only [exec]
        split
        · rename_i mk hmk
          exact ⟨hσ, hfr.getMark hmk⟩
        · trivial
      | noMark => exact ⟨hσ, trivial⟩
    | call f args margs dst =>
      simp only [exec]
      split
      · trivial
      · rename_i p hp
        split
        · trivial
        · rename_i vs σ1 hargs
          obtain ⟨la, rfl⟩ := evalArgs_eq hargs
          have htm := hfr.takeMarks margs
          have hb := ih p.body
            { toks := σ.toks, pos := σ.pos, la := la, events := σ.events, errs := σ.errs,
              nextId := σ.nextId, depth := σ.depth + 1,
              maxDepth := max σ.maxDepth (σ.depth + 1) }
            { locals := vs ++ List.replicate (p.nLocals - vs.length) 0,
              marks := (takeMarks fr margs).1 ++
                List.replicate (p.nMarks - (takeMarks fr margs).1.length) none }
            hσ (FrOK.callee htm.2 _ _ _)
          split
          · rename_i σ' fr' h
            rw [h] at hb
            split
            · rename_i fr2 ha
              exact ⟨hb.1, htm.1.assignDst (v := .unit) trivial ha⟩
            · trivial
          · rename_i σ' v h
            rw [h] at hb
            split
            · rename_i fr2 ha
              exact ⟨hb.1, htm.1.assignDst hb.2 ha⟩
            · trivial
          · trivial
          · rename_i o h1 h2 h3
            cases o <;> first | trivial | (exfalso; simp_all)

end Glas.Lemmas.Dsl
