import Glas.Model.Server
import Glas.Lemmas.TextTotal
/-! Lemmas about the document store and the change loop of M-server (for C15). -/
namespace Glas.Server
open Glas.Text

theorem lookup_mem : ∀ (d : Docs) (u : Nat) (t : List Char), lookup d u = some t → (u, t) ∈ d := by
  intro d
  induction d with
  | nil => intro u t h; simp [lookup] at h
  | cons p r ih =>
    intro u t h
    obtain ⟨k, t0⟩ := p
    simp only [lookup] at h
    split at h
    · rename_i hk; cases h; subst hk; simp
    · exact List.mem_cons_of_mem _ (ih u t h)

theorem mem_remove : ∀ (d : Docs) (u : Nat) (p : Nat × List Char), p ∈ remove d u → p ∈ d := by
  intro d
  induction d with
  | nil => intro u p h; simp [remove] at h
  | cons q r ih =>
    intro u p h
    obtain ⟨k, t0⟩ := q
    simp only [remove] at h
    split at h
    · exact List.mem_cons_of_mem _ (ih u p h)
    · simp only [List.mem_cons] at h ⊢
      rcases h with h | h
      · exact Or.inl h
      · exact Or.inr (ih u p h)

theorem lookup_remove : ∀ (d : Docs) (u : Nat), lookup (remove d u) u = none := by
  intro d
  induction d with
  | nil => intro u; rfl
  | cons q r ih =>
    intro u
    obtain ⟨k, t0⟩ := q
    simp only [remove]
    split
    · exact ih u
    · rename_i hk
      simp only [lookup, if_neg hk]
      exact ih u

theorem lookup_set (d : Docs) (u : Nat) (t : List Char) : lookup (set d u t) u = some t := by
  simp [set, lookup]

theorem mem_set (d : Docs) (u : Nat) (t : List Char) (p : Nat × List Char) (h : p ∈ set d u t) :
    p = (u, t) ∨ p ∈ d := by
  simp only [set, List.mem_cons] at h
  rcases h with h | h
  · exact Or.inl h
  · exact Or.inr (mem_remove d u p h)

/-- the change loop never panics when the text plus everything inserted stays below `u32` -/
theorem applyChanges_ne_none : ∀ (cs : List Change) (t : List Char),
    u8sum t + (cs.map (fun c => u8sum c.text)).sum < U32 → applyChanges t cs ≠ none := by
  intro cs
  induction cs with
  | nil => intro t _ h; simp [applyChanges] at h
  | cons c cs ih =>
    intro t hs
    simp only [List.map_cons, List.sum_cons] at hs
    simp only [applyChanges]
    have hnp := applyChange_ne_panic t c.range c.text (by omega)
    split
    · rename_i t' hok
      have := (applyChange_ok t c.range c.text t' hok).2
      exact ih t' (by omega)
    · intro h; cases h
    · rename_i hp; exact absurd hp hnp

theorem applyChanges_normal : ∀ (cs : List Change) (t t' : List Char), stripCR t = t →
    applyChanges t cs = some (some t') → stripCR t' = t' := by
  intro cs
  induction cs with
  | nil => intro t t' hcr h; simp only [applyChanges] at h; cases h; exact hcr
  | cons c cs ih =>
    intro t t' _ h
    simp only [applyChanges] at h
    split at h
    · rename_i t1 hok
      exact ih t1 t' (applyChange_ok t c.range c.text t1 hok).1 h
    · cases h
    · cases h

/-- after a `didChange` that did not crash, the document is the result of all changes or absent -/
theorem didChange_result (d : Docs) (u : Nat) (changes : List Change) (t t' : List Char)
    (hnc : (step d (.didChange (.file u) changes)).2 ≠ .crash)
    (h0 : lookup d u = some t) (h1 : lookup (step d (.didChange (.file u) changes)).1 u = some t') :
    applyChanges t changes = some (some t') := by
  simp only [step, h0] at h1 hnc
  split at h1
  · rename_i t'' heq
    simp only [lookup_set] at h1
    cases h1; exact heq
  · simp only [lookup_remove] at h1
    cases h1
  · rename_i heq
    simp only [heq] at hnc
    exact absurd rfl hnc

/-- a text of at least `2^32` bytes on one line: `from_pos` at its end overflows `u32` -/
theorem fromPos_panic_of_big (t : List Char) (hnl : ∀ c ∈ t, c ≠ '\n') (hbig : U32 ≤ u8sum t) :
    (lineMap t).fromPos 0 (u16sum t) = .panic := by
  have hs : splitLines t = [] ++ (t ++ []) :: [] := by simpa using splitLines_no_nl t hnl
  have h1 := le_lastLine_of_split t [] _ [] hs
  have h2 := endColForLine_of_split t [] _ [] hs
  have h3 := lineStarts_split t [] _ [] hs
  have h4 := charDiffs_split t [] _ [] hs
  have h5 := posForCol_correct (t ++ []) 0 t.length (by simp)
  simp only [List.take_left', Nat.zero_add] at h5
  simp only [List.length_nil] at h1 h2 h3 h4
  have hmin : min (u16sum t) (u16sum (t ++ [])) = u16sum t := by simp
  have hge : ¬ lsum [] + u8sum t < U32 := by rw [lsum_nil]; omega
  unfold LineMap.fromPos
  rw [if_neg h1]
  simp only [h2, hmin, LineMap.posForLineCol, h3, h4, Option.getD_some, h5, if_neg hge]

/-- the change loop does panic on such a text (the counterexample to an unconditional
`unappliable_dropped`) -/
theorem applyChanges_panic_of_big (t : List Char) (hnl : ∀ c ∈ t, c ≠ '\n') (hbig : U32 ≤ u8sum t) :
    applyChanges t [⟨some (0, u16sum t, 0, u16sum t), []⟩] = none := by
  simp only [applyChanges, applyChange, LineMap.fromRange, fromPos_panic_of_big t hnl hbig]

theorem big_text : (∀ c ∈ List.replicate U32 'a', c ≠ '\n') ∧ U32 ≤ u8sum (List.replicate U32 'a') := by
  constructor
  · intro c hc
    rw [List.mem_replicate] at hc
    rw [hc.2]; decide
  · have h1 := length_le_u16sum (List.replicate U32 'a')
    have h2 := u16sum_le_u8sum (List.replicate U32 'a')
    rw [List.length_replicate] at h1
    omega

end Glas.Server
