import Glas.Lemmas.Alpha
/-!
Helper lemmas for C07 `alpha_fresh_module`: the module's value table as the outermost frame of the
environment, and what `resolve_name` (scope chain first, then the table) has to do with it.
-/
namespace Glas.Scope

/-- the module's value table as a frame: value `i` of the table gets the id `base + i`; the entries
`resolve_name` skips (types reached through an unqualified value import) are left out -/
def modFrame (base : Nat) (values : List (Name × ValEntry)) : Frame :=
  values.filterMap (fun v => v.2.map (fun i => (v.1, base + i)))

/-- one number for a definition: a local by its pattern id, a module value by `base +` its index -/
def encDef (base : Nat) : Option Def → Option Nat
  | some (.local_ p) => some p
  | some (.modVal i) => some (base + i)
  | _ => none

theorem findVal_none_of_not_mem {values : List (Name × ValEntry)} {n : Name}
    (h : n ∉ values.map (·.1)) : findVal values n = none := by
  induction values with
  | nil => rfl
  | cons v r ih =>
    obtain ⟨k, w⟩ := v
    simp only [List.map_cons, List.mem_cons, not_or] at h
    simp only [findVal]
    rw [if_neg (fun hh => h.1 hh.symm)]
    exact ih h.2

theorem findEntry_modFrame_none {base : Nat} {values : List (Name × ValEntry)} {n : Name}
    (h : n ∉ values.map (·.1)) : findEntry (modFrame base values) n = none := by
  induction values with
  | nil => rfl
  | cons v r ih =>
    obtain ⟨k, w⟩ := v
    simp only [List.map_cons, List.mem_cons, not_or] at h
    cases w with
    | none =>
      simp only [modFrame, List.filterMap_cons, Option.map_none]
      exact ih h.2
    | some i =>
      simp only [modFrame, List.filterMap_cons, Option.map_some, findEntry]
      rw [if_neg (fun hh => h.1 hh.symm)]
      exact ih h.2

/-- with distinct keys, looking a name up in the frame is `findVal` restricted to values -/
theorem findEntry_modFrame (base : Nat) (values : List (Name × ValEntry)) (hnd : (values.map (·.1)).Nodup)
    (n : Name) :
    findEntry (modFrame base values) n =
      (match findVal values n with
       | some (some i) => some (base + i)
       | _ => none) := by
  induction values with
  | nil => rfl
  | cons v r ih =>
    obtain ⟨k, w⟩ := v
    simp only [List.map_cons, List.nodup_cons] at hnd
    by_cases hk : k = n
    · subst hk
      simp only [findVal, if_true]
      cases w with
      | none =>
        simp only [modFrame, List.filterMap_cons, Option.map_none]
        exact findEntry_modFrame_none hnd.1
      | some i => simp [modFrame, findEntry]
    · simp only [findVal, if_neg hk]
      rw [← ih hnd.2]
      cases w with
      | none => simp only [modFrame, List.filterMap_cons, Option.map_none]
      | some i => simp only [modFrame, List.filterMap_cons, Option.map_some, findEntry, if_neg hk]

theorem lookupEnv_snoc (env : Env) (mf : Frame) (n : Name) :
    lookupEnv (env ++ [mf]) n = (match lookupEnv env n with
      | some id => some id
      | none => findEntry mf n) := by
  induction env with
  | nil =>
    simp only [List.nil_append, lookupEnv]
    cases findEntry mf n <;> rfl
  | cons fr env ih =>
    simp only [List.cons_append, lookupEnv]
    cases findEntry fr n with
    | some id => rfl
    | none => exact ih

/-- add the module table as a fallback to a list of local bindings -/
def withModule (mf : Frame) (l : List (Nat × Option Nat)) (names : List (Nat × Name)) : List (Nat × Option Nat) :=
  List.zipWith (fun p on => (p.1, match p.2 with
    | some id => some id
    | none => findEntry mf on.2)) l names

theorem withModule_append (mf : Frame) (a b : List (Nat × Option Nat)) (c d : List (Nat × Name))
    (h : a.length = c.length) :
    withModule mf (a ++ b) (c ++ d) = withModule mf a c ++ withModule mf b d := by
  unfold withModule
  exact List.zipWith_append h

theorem spec_len_expr (e : Expr) (env : Env) : (specExpr e env).length = (occNames e).length := by
  have := congrArg List.length (specExpr_fst e env)
  simpa using this
theorem spec_len_exprs (es : Exprs) (env : Env) : (specExprs es env).length = (occNamesExprs es).length := by
  have := congrArg List.length (specExprs_fst es env)
  simpa using this
theorem spec_len_stmts (ss : Stmts) (env : Env) : (specStmts ss env).length = (occNamesStmts ss).length := by
  have := congrArg List.length (specStmts_fst ss env)
  simpa using this
theorem spec_len_clauses (cs : Clauses) (env : Env) : (specClauses cs env).length = (occNamesClauses cs).length := by
  have := congrArg List.length (specClauses_fst cs env)
  simpa using this

mutual
  /-- resolving with the module table as the outermost frame = resolving locally, with the table as
  the fallback of every occurrence no local binder captures -/
  theorem spec_module_expr (mf : Frame) : ∀ (e : Expr) (env : Env),
      specExpr e (env ++ [mf]) = withModule mf (specExpr e env) (occNames e)
    | .var occ name, env => by
      simp only [specExpr, occNames, withModule, List.zipWith_cons_cons, List.zipWith_nil_right, lookupEnv_snoc]
    | .hole _, env => by simp [specExpr, occNames, withModule]
    | .leaf, env => by simp [specExpr, occNames, withModule]
    | .block ss, env => by simp only [specExpr, occNames]; exact spec_module_stmts mf ss env
    | .call f args, env => by
      simp only [specExpr, occNames]
      rw [withModule_append _ _ _ _ _ (spec_len_exprs args env), spec_module_exprs mf args env, spec_module_expr mf f env]
    | .node es, env => by simp only [specExpr, occNames]; exact spec_module_exprs mf es env
    | .case_ subjects clauses, env => by
      simp only [specExpr, occNames]
      rw [withModule_append _ _ _ _ _ (spec_len_exprs subjects env), spec_module_exprs mf subjects env,
        spec_module_clauses mf clauses env]
    | .lam params body, env => by
      simp only [specExpr, occNames]
      rw [← List.cons_append]
      exact spec_module_expr mf body _
  theorem spec_module_exprs (mf : Frame) : ∀ (es : Exprs) (env : Env),
      specExprs es (env ++ [mf]) = withModule mf (specExprs es env) (occNamesExprs es)
    | .nil, env => by simp [specExprs, occNamesExprs, withModule]
    | .cons e es, env => by
      simp only [specExprs, occNamesExprs]
      rw [withModule_append _ _ _ _ _ (spec_len_expr e env), spec_module_expr mf e env, spec_module_exprs mf es env]
  theorem spec_module_stmts (mf : Frame) : ∀ (ss : Stmts) (env : Env),
      specStmts ss (env ++ [mf]) = withModule mf (specStmts ss env) (occNamesStmts ss)
    | .nil, env => by simp [specStmts, occNamesStmts, withModule]
    | .cons (.let_ p e) ss, env => by
      simp only [specStmts, occNamesStmts]
      rw [withModule_append _ _ _ _ _ (spec_len_expr e env), spec_module_expr mf e env, ← List.cons_append,
        spec_module_stmts mf ss _]
    | .cons (.use_ ps e) ss, env => by
      simp only [specStmts, occNamesStmts]
      rw [withModule_append _ _ _ _ _ (spec_len_expr e env), spec_module_expr mf e env, ← List.cons_append,
        spec_module_stmts mf ss _]
    | .cons (.expr e) ss, env => by
      simp only [specStmts, occNamesStmts]
      rw [withModule_append _ _ _ _ _ (spec_len_expr e env), spec_module_expr mf e env, spec_module_stmts mf ss env]
  theorem spec_module_clauses (mf : Frame) : ∀ (cs : Clauses) (env : Env),
      specClauses cs (env ++ [mf]) = withModule mf (specClauses cs env) (occNamesClauses cs)
    | .nil, env => by simp [specClauses, occNamesClauses, withModule]
    | .cons (.mk pats body) cs, env => by
      simp only [specClauses, occNamesClauses]
      rw [withModule_append _ _ _ _ _ (spec_len_expr body _), ← List.cons_append, spec_module_expr mf body _,
        spec_module_clauses mf cs env]
end

end Glas.Scope
