import Glas.Lemmas.DslEvents
/-! The interpreter: helper facts about expression evaluation and `exec_advances`. -/
namespace Glas.Lemmas.Dsl
open Glas.Dsl Glas.SyntaxSpec

/-- `σ'` is `σ` with possibly more look-aheads burnt -/
theorem evalIn_eq {P : Prog} {σ σ' : St} {fr : Frame} {e : Expr} {v : Nat}
    (h : evalIn P σ fr e = some (v, σ')) : ∃ la, σ' = { σ with la := la } := by
  unfold evalIn at h
  simp only at h
  split at h
  · exact absurd h (by simp)
  · simp only [Option.some.injEq, Prod.mk.injEq] at h
    exact ⟨_, h.2.symm⟩

theorem evalArgs_eq {P : Prog} {fr : Frame} {es : List Expr} {σ σ' : St} {vs : List Nat}
    (h : evalArgs P σ fr es = some (vs, σ')) : ∃ la, σ' = { σ with la := la } := by
  induction es generalizing σ vs with
  | nil => simp only [evalArgs, Option.some.injEq, Prod.mk.injEq] at h; exact ⟨σ.la, h.2.symm⟩
  | cons e es ih =>
    simp only [evalArgs] at h
    split at h
    · exact absurd h (by simp)
    · rename_i v σ1 h1
      split at h
      · exact absurd h (by simp)
      · rename_i vs' σ2 h2
        simp only [Option.some.injEq, Prod.mk.injEq] at h
        obtain ⟨_, rfl⟩ := h
        obtain ⟨la1, rfl⟩ := evalIn_eq h1
        obtain ⟨la2, h2'⟩ := ih h2
        exact ⟨la2, by rw [h2']⟩

/-- the relation of `exec_advances` -/
def Adv (σ σ' : St) : Prop :=
  σ'.toks = σ.toks ∧ σ.pos ≤ σ'.pos ∧ advCount σ'.events + σ.pos = advCount σ.events + σ'.pos

theorem Adv.refl (σ : St) : Adv σ σ := ⟨rfl, Nat.le_refl _, rfl⟩

theorem Adv.trans {a b c : St} (h1 : Adv a b) (h2 : Adv b c) : Adv a c := by
  obtain ⟨h1a, h1b, h1c⟩ := h1
  obtain ⟨h2a, h2b, h2c⟩ := h2
  exact ⟨h2a.trans h1a, by omega, by omega⟩

def AdvOut (σ : St) : Out → Prop
  | .norm σ' _ | .brk σ' _ | .ret σ' _ => Adv σ σ'
  | _ => True

theorem AdvOut.trans {a b : St} {o : Out} (h1 : Adv a b) (h2 : AdvOut b o) : AdvOut a o := by
  cases o <;> simp only [AdvOut] at h2 ⊢ <;> exact h1.trans h2

theorem exec_advOut (P : Prog) (n : Nat) (s : Stmt) (σ : St) (fr : Frame) :
    AdvOut σ (exec P n s σ fr) := by
  induction n generalizing s σ fr with
  | zero => simp [exec, AdvOut]
  | succ n ih =>
    cases s with
    | skip => exact Adv.refl σ
    | bump =>
      simp only [exec]
      split
      · refine ⟨rfl, by simp, ?_⟩
        simp [advCount_append, advCount]; omega
      · trivial
    | err code arg => exact Adv.refl σ
    | «open» m =>
      simp only [exec, AdvOut, Adv, advCount_append, advCount]
      simp
    | openBefore m' m =>
      simp only [exec]
      split
      · trivial
      · split
        · split
          · simp only [AdvOut, Adv, advCount_insertAt]; simp
          · trivial
        · trivial
    | close m k dst =>
      simp only [exec]
      split
      · trivial
      · split
        · rename_i kk id hev
          split
          · have := advCount_setNth σ.events _ kk id k id false true hev
            split <;> simp only [AdvOut, Adv, advCount_append, this, advCount] <;> simp
          · trivial
        · trivial
    | assert c =>
      simp only [exec]
      split
      · trivial
      · rename_i v σ' h
        obtain ⟨la, rfl⟩ := evalIn_eq h
        split
        · exact Adv.refl σ
        · trivial
    | set x e =>
      simp only [exec]
      split
      · trivial
      · rename_i v σ' h
        obtain ⟨la, rfl⟩ := evalIn_eq h
        exact Adv.refl σ
    | seq a b =>
      simp only [exec]
      have ha := ih a σ fr
      split
      · rename_i σ' fr' h
        rw [h] at ha
        exact AdvOut.trans ha (ih b σ' fr')
      · exact ha
    | ite c t e =>
      simp only [exec]
      split
      · trivial
      · rename_i v σ' h
        obtain ⟨la, rfl⟩ := evalIn_eq h
        split
        · exact AdvOut.trans (a := σ) ⟨rfl, Nat.le_refl _, rfl⟩ (ih t _ fr)
        · exact AdvOut.trans (a := σ) ⟨rfl, Nat.le_refl _, rfl⟩ (ih e _ fr)
    | loop b =>
      simp only [exec]
      have hb := ih b σ fr
      split
      · rename_i σ' fr' h
        rw [h] at hb
        exact AdvOut.trans hb (ih (.loop b) σ' fr')
      · rename_i σ' fr' h
        rw [h] at hb
        exact hb
      · exact hb
    | brk => exact Adv.refl σ
    | ret r =>
      cases r with
      | unit => exact Adv.refl σ
      | nat e =>
        simp only [exec]
        split
        · trivial
        · rename_i v σ' h
          obtain ⟨la, rfl⟩ := evalIn_eq h
          exact Adv.refl σ
      | mark m =>
        simp only [exec]
        split
        · exact Adv.refl σ
        · trivial
      | noMark => exact Adv.refl σ
    | call f args margs dst =>
      simp only [exec]
      split
      · trivial
      · rename_i p hp
        split
        · trivial
        · rename_i vs σ1 hargs
          obtain ⟨la, rfl⟩ := evalArgs_eq hargs
          have hb := ih p.body
            { toks := σ.toks, pos := σ.pos, la := la, events := σ.events, errs := σ.errs,
              nextId := σ.nextId, depth := σ.depth + 1,
              maxDepth := max σ.maxDepth (σ.depth + 1) }
            { locals := vs ++ List.replicate (p.nLocals - vs.length) 0,
              marks := (takeMarks fr margs).1 ++
                List.replicate (p.nMarks - (takeMarks fr margs).1.length) none }
          split
          · rename_i σ' fr' h
            rw [h] at hb
            split
            · exact hb
            · trivial
          · rename_i σ' v h
            rw [h] at hb
            split
            · exact hb
            · trivial
          · trivial
          · rename_i o h1 h2 h3
            cases o <;> first | trivial | (exfalso; simp_all)
