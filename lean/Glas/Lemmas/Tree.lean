import Glas.Lemmas.DslEvents
import Glas.Model.Tree
/-! The tree builder: leaves of everything built so far, followed by the remaining raw tokens, is
invariantly the raw token list. -/
namespace Glas.Lemmas.Tree
open Glas.Dsl Glas.Tree Glas.SyntaxSpec Glas.Lemmas.Dsl

theorem leavesList_append (a b : List Tree) : leavesList (a ++ b) = leavesList a ++ leavesList b := by
  induction a with
  | nil => simp [leavesList]
  | cons x xs ih => simp [leavesList, ih]

theorem leavesList_singleton (t : Tree) : leavesList [t] = t.leaves := by
  simp [leavesList]

/-- leaves of the open nodes, outermost first -/
def stackLeaves : List (Kind × List Tree) → List RawTok
  | [] => []
  | (_, cs) :: st => stackLeaves st ++ leavesList cs.reverse

/-- leaves of everything built so far, in text order -/
def flat (b : B) : List RawTok := leavesList b.top.reverse ++ stackLeaves b.stack

/-- number of non-trivia tokens -/
def ntc (triv : Kind → Bool) : List RawTok → Nat
  | [] => 0
  | (k, _) :: r => if triv k then ntc triv r else ntc triv r + 1

/-- `d + 1` nodes are open and nothing has been emitted at top level -/
def Sh (d : Nat) (b : B) : Prop := b.stack.length = d + 1 ∧ b.top = []

theorem flat_push (b : B) (t : Tree) : flat (b.push t) = flat b ++ t.leaves := by
  unfold B.push flat
  split
  · rename_i h
    simp [h, stackLeaves, leavesList_append, leavesList_singleton]
  · rename_i k cs st h
    simp [h, stackLeaves, leavesList_append, leavesList_singleton]

theorem rest_push (b : B) (t : Tree) : (b.push t).rest = b.rest := by
  unfold B.push; split <;> rfl

theorem Sh.push {d : Nat} {b : B} (h : Sh d b) (t : Tree) : Sh d (b.push t) := by
  obtain ⟨h1, h2⟩ := h
  unfold B.push
  split
  · rename_i hs; simp [hs] at h1
  · rename_i k cs st hs
    simp only [hs, List.length_cons] at h1
    exact ⟨by simp [h1], h2⟩

/-- moving one token from `rest` into the tree -/
theorem step_tok {d : Nat} {b : B} {k : Kind} {t : List Char} {r : List RawTok} (h : Sh d b)
    (hr : b.rest = (k, t) :: r) :
    Sh d ({ b with rest := r }.push (.tok k t)) ∧
    ({ b with rest := r }.push (.tok k t)).rest = r ∧
    flat ({ b with rest := r }.push (.tok k t)) ++ r = flat b ++ b.rest := by
  refine ⟨Sh.push (b := { b with rest := r }) h _, by rw [rest_push], ?_⟩
  rw [flat_push, hr]
  simp [Tree.leaves, flat]

theorem eatWhile_spec (pred triv : Kind → Bool) (hp : ∀ k, pred k = true → triv k = true) :
    ∀ (n d : Nat) (b : B), Sh d b →
      Sh d (eatWhile pred n b) ∧
      flat (eatWhile pred n b) ++ (eatWhile pred n b).rest = flat b ++ b.rest ∧
      ntc triv (eatWhile pred n b).rest = ntc triv b.rest ∧
      (b.rest.length ≤ n → (eatWhile pred n b).rest = [] ∨
        ∃ k t r, (eatWhile pred n b).rest = (k, t) :: r ∧ pred k = false) := by
  intro n
  induction n with
  | zero =>
    intro d b h
    refine ⟨h, rfl, rfl, ?_⟩
    intro hl
    left
    exact List.length_eq_zero_iff.mp (by simpa [eatWhile] using hl)
  | succ n ih =>
    intro d b h
    unfold eatWhile
    split
    · rename_i k t r hr
      split
      · rename_i hk
        obtain ⟨s1, s2, s3⟩ := step_tok h hr
        obtain ⟨i1, i2, i3, i4⟩ := ih d _ s1
        refine ⟨i1, ?_, ?_, ?_⟩
        · rw [i2, s2, s3]
        · rw [i3, s2, hr]; simp [ntc, hp k hk]
        · intro hl
          apply i4
          rw [s2]; rw [hr] at hl; simp at hl; omega
      · rename_i hk
        refine ⟨h, rfl, rfl, fun _ => Or.inr ⟨k, t, r, hr, by simpa using hk⟩⟩
    · rename_i hr
      exact ⟨h, rfl, rfl, fun _ => Or.inl hr⟩

theorem eatRun_spec (pred triv : Kind → Bool) (hp : ∀ k, pred k = true → triv k = true)
    (d : Nat) (b : B) (h : Sh d b) :
    Sh d (b.eatRun pred) ∧
    flat (b.eatRun pred) ++ (b.eatRun pred).rest = flat b ++ b.rest ∧
    ntc triv (b.eatRun pred).rest = ntc triv b.rest ∧
    ((b.eatRun pred).rest = [] ∨ ∃ k t r, (b.eatRun pred).rest = (k, t) :: r ∧ pred k = false) := by
  obtain ⟨h1, h2, h3, h4⟩ := eatWhile_spec pred triv hp b.rest.length d b h
  exact ⟨h1, h2, h3, h4 (Nat.le_refl _)⟩

/-- `Event::Advance`: the trivia run and then exactly one non-trivia token -/
theorem adv_spec (pred triv : Kind → Bool) (hp : ∀ k, pred k = triv k) (d : Nat) (b : B) (h : Sh d b)
    (hn : 1 ≤ ntc triv b.rest) :
    ∃ b', eatN 1 (b.eatRun pred) = .ok b' ∧ Sh d b' ∧ flat b' ++ b'.rest = flat b ++ b.rest ∧
      ntc triv b'.rest + 1 = ntc triv b.rest := by
  obtain ⟨h1, h2, h3, h4⟩ := eatRun_spec pred triv (fun k hk => by rw [← hp]; exact hk) d b h
  rcases h4 with h4 | ⟨k, t, r, h4, hk⟩
  · rw [h4] at h3; simp [ntc] at h3; omega
  · obtain ⟨s1, s2, s3⟩ := step_tok h1 h4
    refine ⟨_, ?_, s1, ?_, ?_⟩
    · simp only [eatN, h4]
    · rw [s2, s3, h2]
    · rw [s2, ← h3, h4]
      have : triv k = false := by rw [← hp]; exact hk
      simp [ntc, this]

theorem finish_spec {d : Nat} {b : B} (h : Sh (d + 1) b) :
    ∃ b', b.finishNode = .ok b' ∧ Sh d b' ∧ flat b' = flat b ∧ b'.rest = b.rest := by
  obtain ⟨h1, h2⟩ := h
  unfold B.finishNode
  split
  · rename_i hs; simp [hs] at h1
  · rename_i k cs st hs
    refine ⟨_, rfl, ?_, ?_, ?_⟩
    · apply Sh.push (b := { b with stack := st })
      simp only [hs, List.length_cons] at h1
      exact ⟨by simp; omega, h2⟩
    · rw [flat_push]
      simp [flat, hs, stackLeaves, Tree.leaves]
    · rw [rest_push]

def startCount (acts : List Act) : Nat :=
  (acts.filter (fun a => match a with | .start => true | _ => false)).length

theorem runActs_spec (triv : Kind → Bool) (k : Kind) :
    ∀ (acts : List Act) (d : Nat) (b : B), Sh d b →
      (∀ p k', Act.eat p ∈ acts → p k' = true → triv k' = true) →
      Sh (d + startCount acts) (runActs k acts b) ∧
      flat (runActs k acts b) ++ (runActs k acts b).rest = flat b ++ b.rest ∧
      ntc triv (runActs k acts b).rest = ntc triv b.rest := by
  intro acts
  induction acts with
  | nil => intro d b h _; exact ⟨h, rfl, rfl⟩
  | cons a as ih =>
    intro d b h hp
    cases a with
    | eat p =>
      obtain ⟨e1, e2, e3, _⟩ := eatRun_spec p triv (fun k' hk => hp p k' (by simp) hk) d b h
      obtain ⟨i1, i2, i3⟩ := ih d _ e1 (fun p' k' hm hk => hp p' k' (by simp [hm]) hk)
      simp only [runActs]
      refine ⟨?_, by rw [i2, e2], by rw [i3, e3]⟩
      simpa [startCount] using i1
    | start =>
      have hs : Sh (d + 1) (b.startNode k) := by
        obtain ⟨h1, h2⟩ := h
        exact ⟨by simp [B.startNode, h1], h2⟩
      obtain ⟨i1, i2, i3⟩ := ih (d + 1) _ hs (fun p' k' hm hk => hp p' k' (by simp [hm]) hk)
      simp only [runActs]
      refine ⟨?_, ?_, ?_⟩
      · have e : d + startCount (Act.start :: as) = d + 1 + startCount as := by
          simp [startCount]; omega
        rw [e]; exact i1
      · rw [i2]; simp [flat, B.startNode, stackLeaves, leavesList]
      · rw [i3]; rfl

end Glas.Lemmas.Tree
