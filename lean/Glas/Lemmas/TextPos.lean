import Glas.Lemmas.TextMap
import Glas.Model.TextSpec
/-! The server's line/column conversions against the client's view (`clientLineCol`). -/
namespace Glas.Text

/-- decomposition of the lines of `t` at the character boundary `k` -/
theorem split_take (t : List Char) (k : Nat) :
    ∃ la x y lb, splitLines (t.take k) = la ++ [x] ∧ splitLines (t.drop k) = y :: lb ∧
      splitLines t = la ++ (x ++ y) :: lb ∧ lsum la + u8sum x = u8sum (t.take k) := by
  obtain ⟨la, x, ha⟩ := splitLines_exists_snoc (t.take k)
  obtain ⟨y, lb, hb⟩ := splitLines_exists_cons (t.drop k)
  refine ⟨la, x, y, lb, ha, hb, ?_, ?_⟩
  · have := splitLines_append (t.take k) (t.drop k) la x y lb ha hb
    rwa [List.take_append_drop] at this
  · have := lsum_splitLines (t.take k)
    rw [ha, lsum_append, lsum_cons, lsum_nil] at this
    omega

theorem clientLineCol_of_split (t : List Char) (k : Nat) (la : List (List Char)) (x : List Char)
    (h : splitLines (t.take k) = la ++ [x]) : clientLineCol t k = (la.length, u16sum x) := by
  simp [clientLineCol, h]

theorem diffsOf_takeWhile0 (p q : List Char) :
    (((diffsOf (p ++ q) 0).takeWhile (fun d => decide (d.1 < u8sum p))).map (fun d => d.2)).sum
      + u16sum p = u8sum p := by
  have := diffsOf_takeWhile p q 0
  simpa using this

theorem lineStarts_split (t : List Char) (la : List (List Char)) (xy : List Char) (lb : List (List Char))
    (h : splitLines t = la ++ xy :: lb) : (lineMap t).lineStarts[la.length]? = some (lsum la) := by
  simp only [lineMap]
  rw [startsFrom_getElem? _ 0 la.length (by rw [h]; simp), h]
  simp

theorem charDiffs_split (t : List Char) (la : List (List Char)) (xy : List Char) (lb : List (List Char))
    (h : splitLines t = la ++ xy :: lb) : (lineMap t).charDiffs[la.length]? = some (diffsOf xy 0) := by
  simp only [lineMap]
  rw [h]; simp

theorem lineColForPos_of_split (t : List Char) (la : List (List Char)) (x y : List Char)
    (lb : List (List Char)) (h : splitLines t = la ++ (x ++ y) :: lb) :
    (lineMap t).lineColForPos (lsum la + u8sum x) = some (la.length, u16sum x) := by
  have hl : ((lineMap t).lineStarts.takeWhile (fun i => decide (i ≤ lsum la + u8sum x))).length
      = la.length + 1 := by
    simp only [lineMap]
    apply startsFrom_takeWhile _ 0 la.length (x ++ y)
    · rw [h]; simp
    · rw [h]; simp
    · rw [h]; simp [u8sum_append]
  have h1 := lineStarts_split t la (x ++ y) lb h
  have h2 := charDiffs_split t la (x ++ y) lb h
  have h3 := diffsOf_takeWhile0 x y
  unfold LineMap.lineColForPos
  simp only [hl, Nat.add_sub_cancel, h1, h2, Option.getD_some]
  have e : lsum la + u8sum x - lsum la = u8sum x := by omega
  rw [e]
  have hle : ((List.takeWhile (fun d => decide (d.1 < u8sum x)) (diffsOf (x ++ y) 0)).map (fun d => d.2)).sum ≤ u8sum x := by omega
  rw [if_pos hle]
  congr 2
  omega

theorem posForLineCol_of_split (t : List Char) (la : List (List Char)) (x y : List Char)
    (lb : List (List Char)) (h : splitLines t = la ++ (x ++ y) :: lb)
    (hlt : lsum la + u8sum x < U32) :
    (lineMap t).posForLineCol la.length (u16sum x) = some (lsum la + u8sum x) := by
  have h1 := lineStarts_split t la (x ++ y) lb h
  have h2 := charDiffs_split t la (x ++ y) lb h
  have h3 := posForCol_correct (x ++ y) 0 x.length (by simp)
  simp only [List.take_left', Nat.zero_add] at h3
  unfold LineMap.posForLineCol
  simp only [h1, h2, Option.getD_some, h3]
  rw [if_pos hlt]

end Glas.Text

namespace Glas.Text

theorem u8sum_take_le (t : List Char) (k : Nat) : u8sum (t.take k) ≤ u8sum t := by
  have := u8sum_append (t.take k) (t.drop k)
  rw [List.take_append_drop] at this
  omega

theorem posLt_trans {a b c : Nat × Nat} (h1 : posLt a b) (h2 : posLt b c) : posLt a c := by
  unfold posLt at *
  omega

theorem splitLines_single (c : Char) :
    splitLines [c] = if c = '\n' then [[], []] else [[c]] := by
  by_cases h : c = '\n'
  · subst h; rfl
  · simp [h, splitLines]

theorem clientLineCol_step (t : List Char) (j : Nat) (hj : j < t.length) :
    posLt (clientLineCol t j) (clientLineCol t (j + 1)) := by
  obtain ⟨la, x, ha⟩ := splitLines_exists_snoc (t.take j)
  have htake : t.take (j + 1) = t.take j ++ [t[j]] := by simp
  rw [clientLineCol_of_split t j la x ha]
  by_cases hc : t[j] = '\n'
  · have hs : splitLines (t.take (j + 1)) = (la ++ [x ++ []]) ++ [[]] := by
      rw [htake]
      have := splitLines_append (t.take j) [t[j]] la x [] [[]] ha (by rw [splitLines_single]; simp [hc])
      rw [this]; simp
    rw [clientLineCol_of_split t (j + 1) _ _ hs]
    left; simp
  · have hs : splitLines (t.take (j + 1)) = la ++ [x ++ [t[j]]] := by
      rw [htake]
      exact splitLines_append (t.take j) [t[j]] la x [t[j]] [] ha (by rw [splitLines_single]; simp [hc])
    rw [clientLineCol_of_split t (j + 1) _ _ hs]
    right
    refine ⟨rfl, ?_⟩
    have := u16_pos t[j]
    simp [u16sum_append, u16sum_cons, u16sum_nil]; omega

theorem clientLineCol_strict_mono (t : List Char) (j : Nat) : ∀ (k : Nat), j < k → k ≤ t.length →
    posLt (clientLineCol t j) (clientLineCol t k) := by
  intro k
  induction k with
  | zero => intro h; omega
  | succ k ih =>
    intro hjk hk
    have hstep := clientLineCol_step t k (by omega)
    rcases Nat.lt_or_ge j k with h | h
    · exact posLt_trans (ih h (by omega)) hstep
    · have : j = k := by omega
      subst this; exact hstep

theorem posLt_irrefl (a : Nat × Nat) : ¬ posLt a a := by
  unfold posLt; omega

theorem clientOffset_clientLineCol (t : List Char) (k : Nat) (hk : k ≤ t.length) :
    clientOffset t (clientLineCol t k) = some k := by
  unfold clientOffset
  rw [List.find?_range_eq_some]
  refine ⟨by simp, by simp; omega, ?_⟩
  intro j hj
  have := clientLineCol_strict_mono t j k hj hk
  simp only [Bool.not_eq_eq_eq_not, Bool.not_true, decide_eq_false_iff_not]
  intro heq
  rw [heq] at this
  exact posLt_irrefl _ this

theorem lineColForPos_client (t : List Char) (k : Nat) :
    (lineMap t).lineColForPos (u8sum (t.take k)) = some (clientLineCol t k) := by
  obtain ⟨la, x, y, lb, ha, _, ht, hsum⟩ := split_take t k
  rw [clientLineCol_of_split t k la x ha, ← hsum]
  exact lineColForPos_of_split t la x y lb ht

theorem posForLineCol_client (t : List Char) (k : Nat) (hlen : u8sum t < U32) :
    (lineMap t).posForLineCol (clientLineCol t k).1 (clientLineCol t k).2
      = some (u8sum (t.take k)) := by
  obtain ⟨la, x, y, lb, ha, _, ht, hsum⟩ := split_take t k
  rw [clientLineCol_of_split t k la x ha, ← hsum]
  have := u8sum_take_le t k
  exact posForLineCol_of_split t la x y lb ht (by omega)

end Glas.Text
