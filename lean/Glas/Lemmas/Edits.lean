import Glas.Model.Edits
/-! Helper lemmas for C07 (edits part): the edits of a rename, generalised over the byte offset and
the index of the first token. -/
namespace Glas.Edits

/-- `editsOf` for a token list starting at byte offset `off` whose first token has index `idx` -/
def editsFrom (ts : List Text) (sel : Nat → Bool) (new : Text) (off idx : Nat) : List (Nat × Nat × Text) :=
  (((offsets ts off).zipIdx idx).filter (fun p => sel p.2)).map (fun p => (p.1.1, p.1.2, new))

/-- `renameToks` for a token list whose first token has index `idx` -/
def renameFrom (ts : List Text) (sel : Nat → Bool) (new : Text) (idx : Nat) : List Text :=
  (ts.zipIdx idx).map (fun p => if sel p.2 then new else p.1)

theorem editsOf_eq (ts : List Text) (sel : Nat → Bool) (new : Text) :
    editsOf ts sel new = editsFrom ts sel new 0 0 := rfl

theorem renameToks_eq (ts : List Text) (sel : Nat → Bool) (new : Text) :
    renameToks ts sel new = renameFrom ts sel new 0 := rfl

theorem editsFrom_nil (sel : Nat → Bool) (new : Text) (off idx : Nat) :
    editsFrom [] sel new off idx = [] := rfl

theorem editsFrom_cons (t : Text) (ts : List Text) (sel : Nat → Bool) (new : Text) (off idx : Nat) :
    editsFrom (t :: ts) sel new off idx =
      if sel idx then (off, off + t.length, new) :: editsFrom ts sel new (off + t.length) (idx + 1)
      else editsFrom ts sel new (off + t.length) (idx + 1) := by
  simp only [editsFrom, offsets, List.zipIdx_cons, List.filter_cons]
  split <;> simp

theorem renameFrom_cons (t : Text) (ts : List Text) (sel : Nat → Bool) (new : Text) (idx : Nat) :
    renameFrom (t :: ts) sel new idx = (if sel idx then new else t) :: renameFrom ts sel new (idx + 1) := by
  simp [renameFrom, List.zipIdx_cons]

theorem splice_mid (a b c ins : Text) :
    splice (a ++ b ++ c) a.length (a.length + b.length) ins = a ++ ins ++ c := by
  unfold splice
  have h1 : (a ++ b ++ c).take a.length = a := by
    rw [List.append_assoc, List.take_left]
  have h2 : (a ++ b ++ c).drop (a.length + b.length) = c := by
    rw [← List.length_append, List.drop_left]
  rw [h1, h2]

theorem applyEdits_cons (s : Text) (e : Nat × Nat × Text) (es : List (Nat × Nat × Text)) :
    applyEdits s (e :: es) = splice (applyEdits s es) e.1 e.2.1 e.2.2 := rfl

/-- the generalised statement: the edits of a suffix, applied last-to-first, leave the prefix alone -/
theorem applyEdits_editsFrom (sel : Nat → Bool) (new : Text) :
    ∀ (ts : List Text) (pre : Text) (idx : Nat),
      applyEdits (pre ++ ts.flatten) (editsFrom ts sel new pre.length idx) =
        pre ++ (renameFrom ts sel new idx).flatten := by
  intro ts
  induction ts with
  | nil => intro pre idx; simp [editsFrom_nil, renameFrom, applyEdits]
  | cons t ts ih =>
    intro pre idx
    have ih' := ih (pre ++ t) (idx + 1)
    rw [List.length_append] at ih'
    rw [editsFrom_cons, renameFrom_cons]
    simp only [List.flatten_cons]
    rw [← List.append_assoc]
    split
    · rw [applyEdits_cons, ih']
      simp only
      rw [splice_mid, List.append_assoc]
    · rw [ih', List.append_assoc]

theorem getElem?_renameFrom (ts : List Text) (sel : Nat → Bool) (new : Text) (idx i : Nat) :
    (renameFrom ts sel new idx)[i]? = (ts[i]?).map (fun t => if sel (idx + i) then new else t) := by
  simp only [renameFrom, List.getElem?_map, List.getElem?_zipIdx]
  cases ts[i]? <;> simp

theorem editsFrom_bounds (sel : Nat → Bool) (new : Text) :
    ∀ (ts : List Text) (off idx : Nat), ∀ e ∈ editsFrom ts sel new off idx, off ≤ e.1 := by
  intro ts
  induction ts with
  | nil => intro off idx e he; simp [editsFrom_nil] at he
  | cons t ts ih =>
    intro off idx e he
    rw [editsFrom_cons] at he
    split at he
    · rcases List.mem_cons.mp he with rfl | h
      · exact Nat.le_refl _
      · have := ih _ _ e h; omega
    · have := ih _ _ e he; omega

theorem editsFrom_pairwise (sel : Nat → Bool) (new : Text) :
    ∀ (ts : List Text) (off idx : Nat),
      List.Pairwise (fun a b => a.2.1 ≤ b.1) (editsFrom ts sel new off idx) := by
  intro ts
  induction ts with
  | nil => intro off idx; simp [editsFrom_nil]
  | cons t ts ih =>
    intro off idx
    rw [editsFrom_cons]
    split
    · rw [List.pairwise_cons]
      exact ⟨fun e he => editsFrom_bounds sel new ts _ _ e he, ih _ _⟩
    · exact ih _ _

end Glas.Edits
