import Glas.Lemmas.ItemsHist
import Glas.Lemmas.DslMain
import Glas.Lemmas.TreeItems
/-!
`runMain` *is* the item-wise iteration (for C03): a normally ending run of a well-shaped main
(`mainBody f k`: open the root, `while !eof { statement }`, close the root) parses exactly the items
`parseItems` finds one at a time from fresh states, and its events / errors are theirs, concatenated.
-/
namespace Glas.Lemmas.ItemsMain
open Glas.Dsl Glas.Items Glas.Lemmas.ItemsLocal Glas.Lemmas.ItemsHist Glas.Lemmas.Dsl Glas.Lemmas.TreeItems

/-! ### the cursor never passes the end of input -/

def PosLe (σ : St) : Prop := σ.pos ≤ σ.toks.length

def PosOut : Out → Prop
  | .norm σ _ | .brk σ _ | .ret σ _ => PosLe σ
  | _ => True

theorem evalIn_posLe {P : Prog} {σ σ' : St} {fr : Frame} {e : Expr} {v : Nat}
    (h : evalIn P σ fr e = some (v, σ')) (hp : PosLe σ) : PosLe σ' := by
  obtain ⟨la, rfl⟩ := evalIn_eq h; exact hp

theorem evalArgs_posLe {P : Prog} {σ σ' : St} {fr : Frame} {es : List Expr} {vs : List Nat}
    (h : evalArgs P σ fr es = some (vs, σ')) (hp : PosLe σ) : PosLe σ' := by
  obtain ⟨la, rfl⟩ := evalArgs_eq h; exact hp

theorem exec_posLe (P : Prog) (n : Nat) : ∀ (s : Stmt) (σ : St) (fr : Frame),
    PosLe σ → PosOut (exec P n s σ fr) := by
  induction n with
  | zero => intro s σ fr _; trivial
  | succ n ih =>
    intro s σ fr hp
    cases s with
    | skip => exact hp
    | bump =>
      simp only [exec]
      split
      · rename_i hlt; exact (Nat.succ_le_of_lt hlt : σ.pos + 1 ≤ σ.toks.length)
      · trivial
    | err code arg => exact hp
    | «open» m => exact hp
    | openBefore m' m =>
      simp only [exec]
      split
      · trivial
      · split
        · split
          · exact hp
          · trivial
        · trivial
    | close m k dst =>
      simp only [exec]
      split
      · trivial
      · split
        · split
          · cases dst <;> exact hp
          · trivial
        · trivial
    | assert c =>
      simp only [exec]
      split
      · trivial
      · rename_i v σ' h1
        split
        · exact evalIn_posLe h1 hp
        · trivial
    | set x e =>
      simp only [exec]
      split
      · trivial
      · rename_i v σ' h1; exact evalIn_posLe h1 hp
    | seq a b =>
      simp only [exec]
      have ha := ih a σ fr hp
      generalize exec P n a σ fr = o at ha
      cases o with
      | norm σ' fr' => exact ih b σ' fr' ha
      | _ => exact ha
    | ite c t e =>
      simp only [exec]
      split
      · trivial
      · rename_i v σ' h1
        split
        · exact ih t _ _ (evalIn_posLe h1 hp)
        · exact ih e _ _ (evalIn_posLe h1 hp)
    | loop b =>
      simp only [exec]
      have ha := ih b σ fr hp
      generalize exec P n b σ fr = o at ha
      cases o with
      | norm σ' fr' => exact ih (.loop b) σ' fr' ha
      | brk σ' fr' => exact ha
      | _ => exact ha
    | brk => exact hp
    | ret r =>
      cases r with
      | unit => exact hp
      | nat e =>
        simp only [exec]
        split
        · trivial
        · rename_i v σ' h1; exact evalIn_posLe h1 hp
      | mark m =>
        simp only [exec]
        split
        · exact hp
        · trivial
      | noMark => exact hp
    | call f args margs dst =>
      rw [ItemsLocal.exec_call]
      cases P.procs[f]? with
      | none => trivial
      | some p =>
        simp only []
        cases hx : evalArgs P σ fr args with
        | none => trivial
        | some x =>
          simp only []
          have hb := ih p.body (enter x.2) (calleeFrame p x.1 (takeMarks fr margs).1)
            (evalArgs_posLe (vs := x.1) (σ' := x.2) hx hp)
          generalize exec P n p.body _ _ = o at hb
          cases o with
          | norm σ' fr' =>
            simp only [callOut, callFin]
            cases assignDst (takeMarks fr margs).2 dst .unit with
            | none => trivial
            | some fr2 => exact hb
          | ret σ' v =>
            simp only [callOut, callFin]
            cases assignDst (takeMarks fr margs).2 dst v with
            | none => trivial
            | some fr2 => exact hb
          | brk σ' fr' => trivial
          | panic w σ' => trivial
          | oof => trivial

/-! ### one `statement` inside the loop is one `runItem` -/

def freshAt (toks : List Kind) (pos : Nat) : St := { initSt toks with pos := pos }

def emptyFrame : Frame := { locals := [], marks := [] }

theorem sim_fresh (σ : St) : Sim σ.events σ.errs σ.nextId σ (freshAt σ.toks σ.pos) :=
  ⟨rfl, rfl, Nat.zero_le _, by simp [freshAt, initSt], by simp [freshAt, initSt], by simp [freshAt, initSt]⟩

/-- what `p.statement()` does in the loop, with the history of the run so far, against what it does from a
fresh state at the same token -/
def CallSim (σ : St) (fr : Frame) : Out → Out → Prop
  | .norm σm frm, .norm σi _ => Sim σ.events σ.errs σ.nextId σm σi ∧ frm = fr
  | .panic w _, .panic w' _ => w = w'
  | .oof, .oof => True
  | _, _ => False

theorem call_hist (P : Prog) (n f : Nat) (σ : St) (fr : Frame) :
    Stuck (exec P n (.call f [] [] .none) σ fr) ∨
    CallSim σ fr (exec P n (.call f [] [] .none) σ fr)
      (exec P n (.call f [] [] .none) (freshAt σ.toks σ.pos) emptyFrame) := by
  cases n with
  | zero => exact Or.inr trivial
  | succ n =>
    rw [ItemsLocal.exec_call, ItemsLocal.exec_call]
    cases P.procs[f]? with
    | none => exact Or.inr rfl
    | some p =>
      simp only [evalArgs, takeMarks]
      have hc : calleeFrame p [] [] = shFrame σ.events.length σ.nextId (calleeFrame p [] []) :=
        calleeFrame_sh σ.events.length σ.nextId p [] []
      have hh := exec_hist (E0 := σ.events) (R0 := σ.errs) (i0 := σ.nextId) P n p.body (enter σ)
        (enter (freshAt σ.toks σ.pos)) (calleeFrame p [] []) (sim_fresh σ).enter
      rw [← hc] at hh
      generalize exec P n p.body (enter σ) (calleeFrame p [] []) = om at hh
      generalize exec P n p.body (enter (freshAt σ.toks σ.pos)) (calleeFrame p [] []) = oi at hh
      rcases hh with hh | hh
      · cases om with
        | panic w σ1 => cases w <;> first | exact hh.elim | exact Or.inl trivial
        | _ => exact hh.elim
      · cases om <;> cases oi <;> simp only [OutSim'] at hh
        case norm.norm σm frm σi fri =>
          exact Or.inr ⟨⟨hh.1.toks, hh.1.pos, hh.1.la, hh.1.events, hh.1.errs, hh.1.nextId⟩, rfl⟩
        case ret.ret σm vm σi vi =>
          exact Or.inr ⟨⟨hh.1.toks, hh.1.pos, hh.1.la, hh.1.events, hh.1.errs, hh.1.nextId⟩, rfl⟩
        case brk.brk => exact Or.inr rfl
        case panic.panic => exact Or.inr hh
        case oof.oof => exact Or.inr trivial
        all_goals exact hh.elim

theorem evKinds_append (a b : List Ev) : evKinds (a ++ b) = evKinds a ++ evKinds b := by
  simp [evKinds]

theorem evKinds_shEv (i0 : Nat) (l : List Ev) : evKinds (l.map (shEv i0)) = evKinds l := by
  simp only [evKinds, List.map_map]
  congr 1
  funext e
  cases e <;> rfl

theorem eraseId_shEv (i0 : Nat) (l : List Ev) : (l.map (shEv i0)).map eraseId = l.map eraseId := by
  simp only [List.map_map]
  congr 1
  funext e
  cases e <;> rfl

/-! ### the module loop -/

theorem loop_items (P : Prog) (f N : Nat) : ∀ (n : Nat), n ≤ N →
    ∀ (σ : St) (fr : Frame) (σ' : St) (fr' : Frame), PosLe σ →
    exec P n (.loop (loopBody f)) σ fr = .norm σ' fr' →
    ∃ items, parseSeg P f N σ.toks (n + 1) σ.pos σ.toks.length = some items ∧
      fr' = fr ∧ σ'.toks = σ.toks ∧
      evKinds σ'.events = evKinds σ.events ++ items.flatMap (fun o => evKinds o.events) ∧
      σ'.errs = σ.errs ++ items.flatMap (fun o => o.errs) ∧
      σ'.events.map eraseId = σ.events.map eraseId ++ items.flatMap (fun o => o.events.map eraseId) := by
  intro n
  induction n with
  | zero => intro _ σ fr σ' fr' _ h; simp [exec] at h
  | succ n ih =>
    intro hN σ fr σ' fr' hp h
    rw [exec_loop] at h
    cases n with
    | zero => simp [exec] at h
    | succ n =>
      unfold loopBody at h
      rw [exec_ite] at h
      cases he : evalIn P σ fr (.not .eof) with
      | none => rw [he] at h; simp at h
      | some x =>
      obtain ⟨v, σ2⟩ := x
      obtain ⟨hv0, la2, rfl⟩ := evalIn_not_eof he
      rw [he] at h
      simp only [] at h
      subst hv0
      by_cases hpos : σ.pos = σ.toks.length
      · -- end of input: `break`
        have hv : b2n (b2n (σ.pos == σ.toks.length) == 0) = 0 := by simp [hpos, b2n]
        rw [hv] at h
        simp only [bne_self_eq_false, Bool.false_eq_true, if_false] at h
        cases n with
        | zero => simp [exec] at h
        | succ n =>
          simp only [exec, Out.norm.injEq] at h
          obtain ⟨rfl, rfl⟩ := h
          refine ⟨[], ?_, rfl, rfl, by simp, by simp, by simp⟩
          simp only [parseSeg, hpos, if_true]
      · have hv : b2n (b2n (σ.pos == σ.toks.length) == 0) = 1 := by simp [hpos, b2n]
        rw [hv] at h
        simp only [show ((1 : Nat) != 0) = true from rfl, if_true] at h
        -- one statement
        have hc := call_hist P n f { σ with la := la2 } fr
        have hadv := exec_advOut P n (.call f [] [] .none) { σ with la := la2 } fr
        generalize hom : exec P n (.call f [] [] .none) { σ with la := la2 } fr = om at h hc hadv
        generalize hoi : exec P n (.call f [] [] .none) (freshAt σ.toks σ.pos) emptyFrame = oi at hc
        rcases hc with hc | hc
        · cases om with
          | panic w σ1 => simp at h
          | _ => exact hc.elim
        · cases om <;> cases oi <;> simp only [CallSim] at hc
          case norm.norm σ1 fr1 σi1 fri1 =>
            obtain ⟨hs, rfl⟩ := hc
            simp only [] at h
            -- the item, at the item fuel `N`
            have hne : exec P n (.call f [] [] .none) (freshAt σ.toks σ.pos) emptyFrame ≠ .oof := by
              rw [hoi]; simp
            have hfm := exec_fuel_mono P n N _ _ _ hne (by omega)
            have hitem : runItem P f N σ.toks σ.pos =
                .ok { start := σ.pos, stop := σi1.pos, events := σi1.events, errs := σi1.errs } := by
              have e : exec P N (.call f [] [] .none) { initSt σ.toks with pos := σ.pos }
                  { locals := [], marks := [] } = .norm σi1 fri1 := by
                have := hfm; rw [hoi] at this; exact this
              simp only [runItem, e]
            have hp1 : PosLe σ1 := by
              have := exec_posLe P n (.call f [] [] .none) { σ with la := la2 } fr1 hp
              rw [hom] at this; exact this
            obtain ⟨items, hseg, hfr, htoks, hev, herr, hex⟩ := ih (by omega) σ1 fr1 σ' fr' hp1 h
            refine ⟨{ start := σ.pos, stop := σi1.pos, events := σi1.events, errs := σi1.errs } :: items,
              ?_, hfr, by rw [htoks]; exact hadv.1, ?_, ?_, ?_⟩
            · have hlt : ¬ (σ.toks.length < σ.pos) := by have : σ.pos ≤ σ.toks.length := hp; omega
              rw [parseSeg]
              rw [if_neg hpos, if_neg hlt, hitem]
              simp only []
              have e1 : σ1.toks = σ.toks := hadv.1
              rw [e1, hs.pos] at hseg
              rw [hseg]; rfl
            · rw [hev, hs.events, evKinds_append, evKinds_shEv]
              simp [List.append_assoc]
            · rw [herr, hs.errs]
              simp [List.append_assoc]
            · rw [hex, hs.events, List.map_append, eraseId_shEv]
              simp [List.append_assoc]
          case panic.panic => simp at h
          case oof.oof => simp at h
          all_goals exact hc.elim

theorem call_no_ret (P : Prog) (n f : Nat) (args : List Expr) (margs : List Nat) (dst : Dst) (σ : St)
    (fr : Frame) (σ' : St) (v : RetV) : exec P n (.call f args margs dst) σ fr ≠ .ret σ' v := by
  cases n with
  | zero => intro h; simp [exec] at h
  | succ n =>
    rw [ItemsLocal.exec_call]
    cases P.procs[f]? with
    | none => simp
    | some p =>
      simp only []
      cases evalArgs P σ fr args with
      | none => simp
      | some x =>
        simp only []
        generalize exec P n p.body _ _ = o
        cases o with
        | norm σ1 fr1 => simp only [callOut, callFin]; split <;> simp
        | ret σ1 v1 => simp only [callOut, callFin]; split <;> simp
        | brk σ1 fr1 => simp [callOut]
        | panic w σ1 => simp [callOut]
        | oof => simp [callOut]

theorem loop_no_ret (P : Prog) (f : Nat) : ∀ (n : Nat) (σ : St) (fr : Frame) (σ' : St) (v : RetV),
    exec P n (.loop (.ite (.not .eof) (.call f [] [] .none) .brk)) σ fr ≠ .ret σ' v := by
  intro n
  induction n with
  | zero => intro σ fr σ' v h; simp [exec] at h
  | succ n ih =>
    intro σ fr σ' v h
    rw [exec_loop] at h
    cases n with
    | zero => simp [exec] at h
    | succ n =>
      rw [exec_ite] at h
      cases he : evalIn P σ fr (.not .eof) with
      | none => rw [he] at h; simp at h
      | some x =>
        rw [he] at h
        simp only [] at h
        by_cases hv : (x.1 != 0) = true
        · rw [if_pos hv] at h
          generalize hc : exec P n (.call f [] [] .none) x.2 fr = oc at h
          cases oc with
          | norm σ1 fr1 => exact ih _ _ _ _ h
          | ret σ1 v1 => exact call_no_ret _ _ _ _ _ _ _ _ _ _ hc
          | brk σ1 fr1 => simp at h
          | panic w σ1 => simp at h
          | oof => simp at h
        · rw [if_neg hv] at h
          cases n with
          | zero => simp [exec] at h
          | succ n => simp [exec] at h

/-! ### the whole run -/

theorem getMark_setMark_zero {fr : Frame} {v : Option Mark} {mk : Mark}
    (h : getMark (setMark fr 0 v) 0 = some mk) : v = some mk := by
  unfold getMark setMark at h
  cases hm : fr.marks with
  | nil => rw [hm] at h; simp [setNth] at h
  | cons x xs => rw [hm] at h; simpa [setNth] using h

theorem evKinds_setNth (l : List Ev) (i k id : Nat) (d : Bool) :
    evKinds (setNth l i (Ev.open k id d)) = setNth (evKinds l) i (some k) := by
  unfold evKinds
  rw [← setNth_map]

/-- **`runMain` is the item-wise iteration.** -/
theorem runMain_items (P : Prog) (f k : Nat)
    (hP : (P.procs[P.main]?).map (fun p => p.body) = some (mainBody f k))
    (n : Nat) (toks : List Kind) (σ : St) (hr : runMain P n toks = .ok σ) :
    ∃ items, parseItems P f n toks n = some items ∧
      evKinds σ.events = some k :: (items.flatMap (fun o => evKinds o.events) ++ [some 0]) ∧
      σ.errs = items.flatMap (fun o => o.errs) ∧
      σ.events.map eraseId = Ev.open k 0 true :: (items.flatMap (fun o => o.events.map eraseId) ++ [Ev.close]) := by
  unfold runMain at hr
  generalize hex : exec P n (.call P.main [] [] .none) (initSt toks) { locals := [], marks := [] } = o at hr
  cases o with
  | norm σ0 fr0 =>
    simp only at hr
    split at hr
    · exact absurd hr (by simp)
    · simp only [ParseOut.ok.injEq] at hr
      subst hr
      cases n with
      | zero => exact absurd hex (by simp [exec])
      | succ n =>
        simp only [exec, evalArgs, takeMarks, assignDst] at hex
        cases hp : P.procs[P.main]? with
        | none => rw [hp] at hP; simp at hP
        | some p =>
          rw [hp] at hP hex
          simp only [Option.map_some, Option.some.injEq] at hP
          simp only [hP] at hex
          -- the body: open; loop; close
          cases n with
          | zero => simp [exec] at hex
          | succ n =>
            unfold mainBody at hex
            rw [exec_seq] at hex
            cases n with
            | zero => simp [exec] at hex
            | succ n =>
              simp only [exec, initSt, List.length_nil] at hex
              generalize hl : exec P n (.loop (loopBody f)) _ _ = ol at hex
              cases ol with
              | norm σ1 fr1 =>
                simp only [] at hex
                obtain ⟨items, hseg, hfr, htoks, hev, herr, hxe⟩ :=
                  loop_items P f (n + 1 + 1 + 1) n (by omega) _ _ σ1 fr1 (Nat.zero_le _) hl
                simp only [] at hseg htoks hev herr hxe
                cases n with
                | zero => simp [exec] at hex
                | succ n =>
                  simp only [exec] at hex
                  cases hg : getMark fr1 0 with
                  | none => rw [hg] at hex; simp at hex
                  | some mk =>
                    rw [hg] at hex
                    simp only [] at hex
                    have hmk : some ({ idx := 0, id := 0 } : Mark) = some mk := by
                      rw [hfr] at hg; exact getMark_setMark_zero hg
                    simp only [Option.some.injEq] at hmk
                    subst hmk
                    simp only [] at hex
                    cases he0 : σ1.events[0]? with
                    | none => rw [he0] at hex; simp at hex
                    | some ev =>
                      rw [he0] at hex
                      cases ev with
                      | «open» k' id d =>
                        cases d
                        · simp only [] at hex
                          by_cases hid : id = 0
                          · rw [if_pos hid] at hex
                            simp only [Out.norm.injEq] at hex
                            obtain ⟨rfl, _⟩ := hex
                            refine ⟨items, ?_, ?_, ?_, ?_⟩
                            · unfold parseItems
                              exact Glas.Lemmas.ItemsSeg.parseSeg_mono P f _ toks _ 0 toks.length items hseg _
                                (by omega)
                            · simp only []
                              rw [evKinds_append, evKinds_setNth, hev]
                              rfl
                            · simp only []
                              rw [herr]; rfl
                            · simp only []
                              rw [List.map_append]
                              have e1 : Ev.open k 0 true = eraseId (Ev.open k id true) := rfl
                              rw [← setNth_map, hxe]
                              rfl
                          · rw [if_neg hid] at hex; simp at hex
                        · simp at hex
                      | close => simp at hex
                      | adv => simp at hex
              | brk σ1 fr1 => simp at hex
              | ret σ1 v => exact absurd hl (loop_no_ret P f _ _ _ _ _)
              | panic w σ1 => simp at hex
              | oof => simp at hex
  | brk σ0 fr0 => simp at hr
  | ret σ0 v => simp at hr
  | panic w σ0 => simp at hr
  | oof => simp at hr

end Glas.Lemmas.ItemsMain
