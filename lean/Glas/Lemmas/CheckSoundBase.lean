import Glas.Model.Check
/-!
# Soundness of the certificate checker, part 1: sets, concretisation, conditions
-/
namespace Glas.Check
open Glas.Dsl

/-! ## `Cur` -/
namespace Cur

theorem testBit_msub (a b k : Nat) : (msub a b).testBit k = (a.testBit k && !b.testBit k) := by
  simp only [msub, Nat.testBit_xor, Nat.testBit_and]
  cases a.testBit k <;> cases b.testBit k <;> rfl

theorem mem_top (o : Option Nat) : top.mem o = true := by
  cases o <;> simp [mem, top]

theorem mem_inter {o : Option Nat} {a b : Cur} (ha : a.mem o = true) (hb : b.mem o = true) :
    (a.inter b).mem o = true := by
  cases o with
  | none => simp_all [mem, inter]
  | some k =>
    rcases a with ⟨ae, an, am⟩
    rcases b with ⟨be, bn, bm⟩
    cases an <;> cases bn <;>
      simp_all [mem, inter, testBit_msub, Nat.testBit_and, Nat.testBit_or]

theorem mem_diff {o : Option Nat} {a b : Cur} (ha : a.mem o = true) (hb : b.mem o = false) :
    (a.diff b).mem o = true := by
  cases o with
  | none => simp_all [mem, diff]
  | some k =>
    rcases a with ⟨ae, an, am⟩
    rcases b with ⟨be, bn, bm⟩
    cases an <;> cases bn <;>
      simp_all [mem, diff, testBit_msub, Nat.testBit_and, Nat.testBit_or]

theorem not_mem_of_isEmpty {o : Option Nat} {c : Cur} (h : c.isEmpty = true) : c.mem o = false := by
  rcases c with ⟨e, n, m⟩
  simp only [isEmpty, Bool.and_eq_true, Bool.not_eq_true', beq_iff_eq] at h
  obtain ⟨⟨he, hn⟩, hm⟩ := h
  subst he hn hm
  cases o <;> simp [mem]

theorem mem_of_sub {o : Option Nat} {a b : Cur} (h : a.sub b = true) (ha : a.mem o = true) :
    b.mem o = true := by
  cases hb : b.mem o with
  | true => rfl
  | false =>
    have h1 := mem_diff ha hb
    have h2 := not_mem_of_isEmpty (o := o) h
    rw [h1] at h2; cases h2

theorem mem_endOnly (o : Option Nat) : endOnly.mem o = o.isNone := by
  cases o <;> simp [mem, endOnly]

theorem mem_ofMask (eofK S : Nat) (o : Option Nat) : (ofMask eofK S).mem o = S.testBit (o.getD eofK) := by
  cases o <;> simp [mem, ofMask]

end Cur

theorem testBit_one_shiftLeft (K k : Nat) : (1 <<< K).testBit k = (k == K) := by
  rw [Nat.one_shiftLeft, Nat.testBit_two_pow]
  by_cases h : K = k
  · subst h; simp
  · have : ¬ k = K := fun h' => h h'.symm
    simp [h, this]

/-! ## deduplicating unions -/

theorem mem_addNew {x y : AState} {l : List AState} : y ∈ addNew x l ↔ y = x ∨ y ∈ l := by
  unfold addNew
  split
  · constructor
    · intro h; exact Or.inr h
    · rintro (rfl | h)
      · assumption
      · exact h
  · exact List.mem_cons

theorem mem_unionL {y : AState} {a b : List AState} : y ∈ unionL a b ↔ y ∈ a ∨ y ∈ b := by
  induction a with
  | nil => simp [unionL]
  | cons x xs ih =>
    have : unionL (x :: xs) b = addNew x (unionL xs b) := rfl
    rw [this, mem_addNew, ih, List.mem_cons, or_assoc]

theorem mem_dedup {y : AState} {a : List AState} : y ∈ dedup a ↔ y ∈ a := by
  simp [dedup, mem_unionL]

/-! ## progress flags -/

/-- `refs[i]` is a position reached earlier; flag `i` promises that a token was consumed since -/
def Flags : List Bool → List Nat → Nat → Prop
  | [], [], _ => True
  | b :: bs, r :: rs, p => r ≤ p ∧ (b = true → r < p) ∧ Flags bs rs p
  | _, _, _ => False

def lastRef : List Nat → Nat
  | [] => 0
  | [r] => r
  | _ :: rs => lastRef rs

theorem Flags.mono {adv : List Bool} {refs : List Nat} {p q : Nat} (h : Flags adv refs p) (hpq : p ≤ q) :
    Flags adv refs q := by
  induction adv generalizing refs with
  | nil => cases refs <;> simp_all [Flags]
  | cons b bs ih =>
    cases refs with
    | nil => simp [Flags] at h
    | cons r rs =>
      simp only [Flags] at h ⊢
      exact ⟨by omega, fun hb => by have := h.2.1 hb; omega, ih h.2.2⟩

theorem Flags.consume {adv : List Bool} {refs : List Nat} {p q : Nat} (h : Flags adv refs p) (hpq : p < q) :
    Flags (adv.map (fun _ => true)) refs q := by
  induction adv generalizing refs with
  | nil => cases refs <;> simp_all [Flags]
  | cons b bs ih =>
    cases refs with
    | nil => simp [Flags] at h
    | cons r rs =>
      simp only [Flags, List.map] at h ⊢
      exact ⟨by omega, fun _ => by omega, ih h.2.2⟩

theorem Flags.le_all {adv : List Bool} {refs : List Nat} {p : Nat} (h : Flags adv refs p) :
    ∀ r ∈ refs, r ≤ p := by
  induction adv generalizing refs with
  | nil => cases refs <;> simp_all [Flags]
  | cons b bs ih =>
    cases refs with
    | nil => simp [Flags] at h
    | cons r rs =>
      simp only [Flags] at h
      intro x hx
      rcases List.mem_cons.mp hx with rfl | hx
      · exact h.1
      · exact ih h.2.2 x hx

theorem Flags.push {adv : List Bool} {refs : List Nat} {p : Nat} (h : Flags adv refs p) :
    Flags (false :: adv) (p :: refs) p := by
  simp only [Flags]
  exact ⟨Nat.le_refl _, (fun hb => by cases hb), h⟩

theorem Flags.last {adv : List Bool} {refs : List Nat} {p : Nat} (h : Flags adv refs p)
    (hl : lastFlag adv = true) : lastRef refs < p := by
  induction adv generalizing refs with
  | nil => simp [lastFlag] at hl
  | cons b bs ih =>
    cases refs with
    | nil => simp [Flags] at h
    | cons r rs =>
      simp only [Flags] at h
      cases bs with
      | nil =>
        cases rs with
        | nil => simp only [lastFlag] at hl; simpa [lastRef] using h.2.1 hl
        | cons r' rs' => simp [Flags] at h
      | cons b' bs' =>
        cases rs with
        | nil => simp [Flags] at h
        | cons r' rs' =>
          have : lastFlag (b :: b' :: bs') = lastFlag (b' :: bs') := rfl
          rw [this] at hl
          have := ih h.2.2 hl
          simpa [lastRef] using this

theorem Flags.lastRef_le {adv : List Bool} {refs : List Nat} {p : Nat} (h : Flags adv refs p)
    (hne : refs ≠ []) : lastRef refs ≤ p := by
  apply h.le_all
  clear h
  induction refs with
  | nil => exact absurd rfl hne
  | cons r rs ih =>
    cases rs with
    | nil => simp [lastRef]
    | cons r' rs' =>
      have : lastRef (r :: r' :: rs') = lastRef (r' :: rs') := rfl
      rw [this]
      exact List.mem_cons_of_mem _ (ih (by simp))

/-! ## concretisation -/

structure G (eofK : Nat) (a : AState) (refs : List Nat) (toks : List Kind) (pos : Nat)
    (locals : List Nat) : Prop where
  cur : a.cur.mem toks[pos]? = true
  facts : ∀ x ∈ a.facts, (locals[x]?).getD 0 = kindAt eofK toks pos
  bfacts : ∀ x S, (x, S) ∈ a.bfacts → (locals[x]?).getD 0 = b2n (S.testBit (kindAt eofK toks pos))
  flags : Flags a.adv refs pos
  le : pos ≤ toks.length

/-- the part of `G` that does not mention the frame -/
structure G0 (a : AState) (refs : List Nat) (toks : List Kind) (pos : Nat) : Prop where
  cur : a.cur.mem toks[pos]? = true
  flags : Flags a.adv refs pos
  le : pos ≤ toks.length

theorem G.toG0 {eofK a refs toks pos locals} (h : G eofK a refs toks pos locals) : G0 a refs toks pos :=
  ⟨h.cur, h.flags, h.le⟩

theorem G.setCur {eofK a refs toks pos locals} (h : G eofK a refs toks pos locals) {c : Cur}
    (hc : c.mem toks[pos]? = true) : G eofK { a with cur := c } refs toks pos locals :=
  ⟨hc, h.facts, h.bfacts, h.flags, h.le⟩

theorem kindAt_eq (eofK : Nat) (toks : List Kind) (pos : Nat) :
    kindAt eofK toks pos = (toks[pos]?).getD eofK := rfl

/-! ## conditions -/

theorem b2n_ne_zero (b : Bool) : b2n b ≠ 0 ↔ b = true := by cases b <;> simp [b2n]
theorem b2n_eq_zero (b : Bool) : b2n b = 0 ↔ b = false := by cases b <;> simp [b2n]

theorem isCurE_sound {P : Prog} {a refs toks pos locals} (hG : G P.eofKind a refs toks pos locals)
    {e : Expr} (h : isCurE a.facts e = true) :
    (evalE P toks pos locals e).1 = kindAt P.eofKind toks pos := by
  cases e with
  | nth k =>
    cases k with
    | zero => simp [evalE]
    | succ k => simp [isCurE] at h
  | var x =>
    simp only [isCurE, decide_eq_true_eq] at h
    simpa [evalE] using hG.facts x h
  | _ => simp [isCurE] at h

theorem testOf_sound {P : Prog} {a refs toks pos locals} (hG : G P.eofKind a refs toks pos locals)
    {e : Expr} {S : Nat} (h : testOf a.facts e = some S) :
    (evalE P toks pos locals e).1 = b2n (S.testBit (kindAt P.eofKind toks pos)) := by
  cases e with
  | eq e1 e2 =>
    cases e2 with
    | lit K =>
      simp only [testOf] at h
      split at h
      · rename_i hc
        cases h
        simp only [evalE, isCurE_sound hG hc, testBit_one_shiftLeft]
      · cases h
    | _ => simp [testOf] at h
  | inSet S' e1 =>
    simp only [testOf] at h
    split at h
    · rename_i hc
      cases h
      simp only [evalE, isCurE_sound hG hc]
    · cases h
  | _ => simp [testOf] at h

theorem lookupB_mem {x S : Nat} {l : List (Nat × Nat)} (h : lookupB x l = some S) : (x, S) ∈ l := by
  induction l with
  | nil => simp [lookupB] at h
  | cons p l ih =>
    rcases p with ⟨y, T⟩
    simp only [lookupB] at h
    split at h
    · rename_i hy; cases h; subst hy; exact List.mem_cons_self
    · exact List.mem_cons_of_mem _ (ih h)

/-- a test "`nth(0) ∈ S`" that evaluated to `t` refines the state accordingly -/
theorem refCur_sound {eofK a refs toks pos locals} (hG : G eofK a refs toks pos locals)
    {b : Cur} {t : Bool} (hb : b.mem toks[pos]? = t) :
    ∃ a' ∈ refCur a b t, G eofK a' refs toks pos locals := by
  have hmem : (if t then a.cur.inter b else a.cur.diff b).mem toks[pos]? = true := by
    cases t with
    | true => exact Cur.mem_inter hG.cur hb
    | false => exact Cur.mem_diff hG.cur hb
  unfold refCur
  generalize (if t = true then a.cur.inter b else a.cur.diff b) = c at hmem
  simp only []
  split
  · rename_i he
    rw [Cur.not_mem_of_isEmpty he] at hmem; cases hmem
  · exact ⟨_, List.mem_singleton.mpr rfl, hG.setCur hmem⟩

theorem refine_sound {P : Prog} {refs toks pos locals} (c : Expr) :
    ∀ (a : AState), G P.eofKind a refs toks pos locals →
      ((evalE P toks pos locals c).1 ≠ 0 → ∃ a' ∈ refine P.eofKind c true a, G P.eofKind a' refs toks pos locals) ∧
      ((evalE P toks pos locals c).1 = 0 → ∃ a' ∈ refine P.eofKind c false a, G P.eofKind a' refs toks pos locals) := by
  have leaf : ∀ (c : Expr) (a : AState), G P.eofKind a refs toks pos locals →
      ∀ t : Bool, (t = true ↔ (evalE P toks pos locals c).1 ≠ 0) →
      ∃ a' ∈ refTest P.eofKind c t a, G P.eofKind a' refs toks pos locals := by
    intro c a hG t ht
    unfold refTest
    split
    · rename_i S hS
      apply refCur_sound hG
      rw [Cur.mem_ofMask, ← kindAt_eq]
      have hv := testOf_sound (P := P) hG hS
      rw [hv, b2n_ne_zero] at ht
      cases t <;> simp_all
    · exact ⟨a, List.mem_singleton.mpr rfl, hG⟩
  have leaf2 : ∀ (c : Expr) (a : AState), G P.eofKind a refs toks pos locals →
      ((evalE P toks pos locals c).1 ≠ 0 →
        ∃ a' ∈ refTest P.eofKind c true a, G P.eofKind a' refs toks pos locals) ∧
      ((evalE P toks pos locals c).1 = 0 →
        ∃ a' ∈ refTest P.eofKind c false a, G P.eofKind a' refs toks pos locals) := by
    intro c a hG
    exact ⟨fun h => leaf c a hG true (by simp [h]), fun h => leaf c a hG false (by simp [h])⟩
  induction c with
  | eof =>
    intro a hG
    have hval : (evalE P toks pos locals .eof).1 = b2n (pos == toks.length) := rfl
    have hnone : Cur.endOnly.mem toks[pos]? = (pos == toks.length) := by
      rw [Cur.mem_endOnly]
      have := hG.le
      by_cases h : pos = toks.length
      · subst h; simp
      · have h1 : pos < toks.length := by omega
        simp [h, h1]
    constructor
    · intro h
      rw [hval, b2n_ne_zero] at h
      simp only [refine]
      exact refCur_sound hG (by rw [hnone, h])
    · intro h
      rw [hval, b2n_eq_zero] at h
      simp only [refine]
      exact refCur_sound hG (by rw [hnone, h])
  | not c ih =>
    intro a hG
    have hval : (evalE P toks pos locals (.not c)).1 = b2n ((evalE P toks pos locals c).1 == 0) := rfl
    constructor
    · intro h
      rw [hval, b2n_ne_zero, beq_iff_eq] at h
      simp only [refine, Bool.not_true]
      exact (ih a hG).2 h
    · intro h
      rw [hval, b2n_eq_zero] at h
      simp only [refine, Bool.not_false]
      exact (ih a hG).1 (by simpa using h)
  | and c d ihc ihd =>
    intro a hG
    constructor
    · intro h
      simp only [refine]
      by_cases hx : (evalE P toks pos locals c).1 = 0
      · exfalso; apply h; simp [evalE, hx]
      · obtain ⟨a1, ha1, hG1⟩ := (ihc a hG).1 hx
        have hy : (evalE P toks pos locals d).1 ≠ 0 := by
          intro hy; apply h; simp [evalE, hx, hy, b2n]
        obtain ⟨a2, ha2, hG2⟩ := (ihd a1 hG1).1 hy
        exact ⟨a2, List.mem_flatMap.mpr ⟨a1, ha1, ha2⟩, hG2⟩
    · intro h
      simp only [refine]
      by_cases hx : (evalE P toks pos locals c).1 = 0
      · obtain ⟨a1, ha1, hG1⟩ := (ihc a hG).2 hx
        exact ⟨a1, List.mem_append_left _ ha1, hG1⟩
      · obtain ⟨a1, ha1, hG1⟩ := (ihc a hG).1 hx
        have hy : (evalE P toks pos locals d).1 = 0 := by
          simp only [evalE, beq_iff_eq, hx, if_false] at h
          rw [b2n_eq_zero] at h
          simpa using h
        obtain ⟨a2, ha2, hG2⟩ := (ihd a1 hG1).2 hy
        exact ⟨a2, List.mem_append_right _ (List.mem_flatMap.mpr ⟨a1, ha1, ha2⟩), hG2⟩
  | or c d ihc ihd =>
    intro a hG
    constructor
    · intro h
      simp only [refine]
      by_cases hx : (evalE P toks pos locals c).1 = 0
      · obtain ⟨a1, ha1, hG1⟩ := (ihc a hG).2 hx
        have hy : (evalE P toks pos locals d).1 ≠ 0 := by
          intro hy; apply h; simp [evalE, hx, hy, b2n]
        obtain ⟨a2, ha2, hG2⟩ := (ihd a1 hG1).1 hy
        exact ⟨a2, List.mem_append_right _ (List.mem_flatMap.mpr ⟨a1, ha1, ha2⟩), hG2⟩
      · obtain ⟨a1, ha1, hG1⟩ := (ihc a hG).1 hx
        exact ⟨a1, List.mem_append_left _ ha1, hG1⟩
    · intro h
      simp only [refine]
      by_cases hx : (evalE P toks pos locals c).1 = 0
      · obtain ⟨a1, ha1, hG1⟩ := (ihc a hG).2 hx
        have hy : (evalE P toks pos locals d).1 = 0 := by
          simp only [evalE, hx, bne_self_eq_false, Bool.false_eq_true, if_false] at h
          rw [b2n_eq_zero] at h
          simpa using h
        obtain ⟨a2, ha2, hG2⟩ := (ihd a1 hG1).2 hy
        exact ⟨a2, List.mem_flatMap.mpr ⟨a1, ha1, ha2⟩, hG2⟩
      · exfalso
        simp [evalE, hx] at h
  | var x =>
    intro a hG
    have key : ∀ t : Bool, (t = true ↔ (evalE P toks pos locals (.var x)).1 ≠ 0) →
        ∃ a' ∈ refine P.eofKind (.var x) t a, G P.eofKind a' refs toks pos locals := by
      intro t ht
      simp only [refine, refVar]
      split
      · rename_i S hS
        apply refCur_sound hG
        rw [Cur.mem_ofMask, ← kindAt_eq]
        have hv : (evalE P toks pos locals (.var x)).1 = b2n (S.testBit (kindAt P.eofKind toks pos)) := by
          simpa [evalE] using hG.bfacts x S (lookupB_mem hS)
        rw [hv, b2n_ne_zero] at ht
        cases t <;> simp_all
      · exact ⟨a, List.mem_singleton.mpr rfl, hG⟩
    exact ⟨fun h => key true (by simp [h]), fun h => key false (by simp [h])⟩
  | lit n => intro a hG; simpa only [refine] using leaf2 (.lit n) a hG
  | nth k => intro a hG; simpa only [refine] using leaf2 (.nth k) a hG
  | inSet S e _ => intro a hG; simpa only [refine] using leaf2 (.inSet S e) a hG
  | eq e1 e2 _ _ => intro a hG; simpa only [refine] using leaf2 (.eq e1 e2) a hG
  | lt e1 e2 _ _ => intro a hG; simpa only [refine] using leaf2 (.lt e1 e2) a hG
  | tbl t' e _ => intro a hG; simpa only [refine] using leaf2 (.tbl t' e) a hG

end Glas.Check
