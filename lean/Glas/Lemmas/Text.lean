import Glas.Model.Text
/-! Helper lemmas about M-text (character sizes, the `pos_for_line_col` loop). -/
namespace Glas.Text

theorem u8_pos (c : Char) : 1 ≤ u8 c := by
  unfold u8; have := Char.utf8Size_pos c; omega

theorem u16_pos (c : Char) : 1 ≤ u16 c := by unfold u16; split <;> omega

theorem u16_le_u8 (c : Char) : u16 c ≤ u8 c := by
  unfold u16
  split
  · exact u8_pos c
  · rename_i h
    have ht : c.toNat = c.val.toNat := rfl
    have hv : 0x10000 ≤ c.val.toNat := by
      rw [UInt32.lt_iff_toNat_lt] at h
      simp at h; omega
    unfold u8 Char.utf8Size
    simp only [UInt32.le_iff_toNat_le]
    simp
    repeat' split
    all_goals omega

theorem narrow (c : Char) (h : ¬ 2 ≤ u8 c) : u8 c = 1 ∧ u16 c = 1 := by
  have h1 := u8_pos c; have h2 := u16_pos c; have h3 := u16_le_u8 c
  omega

theorem posForCol_small : ∀ (cs : List Char) (b col : Nat), col ≤ b →
    posForCol (diffsOf cs b) col = col := by
  intro cs
  induction cs with
  | nil => intro b col _; simp [diffsOf, posForCol]
  | cons c cs ih =>
    intro b col h
    have hb : col ≤ b + u8 c := by omega
    unfold diffsOf
    split
    · simp only [posForCol, List.foldl_cons]
      have : ¬ b < col := by omega
      simp only [this, if_false]
      exact ih (b + u8 c) col hb
    · exact ih (b + u8 c) col hb

/-- the loop of `pos_for_line_col` turns the UTF-16 length of a prefix of the line into its
UTF-8 length -/
theorem posForCol_correct : ∀ (cs : List Char) (b k : Nat), k ≤ cs.length →
    posForCol (diffsOf cs b) (b + u16sum (cs.take k)) = b + u8sum (cs.take k) := by
  intro cs
  induction cs with
  | nil => intro b k _; simp [diffsOf, posForCol, u16sum, u8sum]
  | cons c cs ih =>
    intro b k hk
    cases k with
    | zero =>
      simp only [List.take_zero, u16sum, u8sum, List.map_nil, List.sum_nil, Nat.add_zero]
      exact posForCol_small (c :: cs) b b (Nat.le_refl _)
    | succ k =>
      have hk' : k ≤ cs.length := by simpa using hk
      have e16 : u16sum ((c :: cs).take (k+1)) = u16 c + u16sum (cs.take k) := by simp [u16sum]
      have e8 : u8sum ((c :: cs).take (k+1)) = u8 c + u8sum (cs.take k) := by simp [u8sum]
      rw [e16, e8]
      have h16 := u16_pos c
      have hle := u16_le_u8 c
      unfold diffsOf
      split
      · simp only [posForCol, List.foldl_cons]
        have : b < b + (u16 c + u16sum (cs.take k)) := by omega
        simp only [this, if_true]
        have e : b + (u16 c + u16sum (List.take k cs)) + (u8 c - u16 c) = (b + u8 c) + u16sum (cs.take k) := by omega
        rw [e]
        have := ih (b + u8 c) k hk'
        simp only [posForCol] at this
        rw [this]; omega
      · rename_i hn
        have ⟨h1, h2⟩ := narrow c hn
        have e : b + (u16 c + u16sum (List.take k cs)) = (b + u8 c) + u16sum (cs.take k) := by omega
        rw [e, ih (b + u8 c) k hk']; omega

end Glas.Text
