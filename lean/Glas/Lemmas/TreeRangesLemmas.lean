import Glas.Model.TreeRanges
/-! Node and token ranges of a tree: inside the extent, on character boundaries (for C20). -/
namespace Glas.Lemmas.TreeRanges
open Glas.Dsl Glas.Tree

/-- the text of a list of leaves -/
abbrev textOf (l : List RawTok) : List Char := (l.map (fun x => x.2)).flatten

theorem u8len_nil : u8len [] = 0 := rfl

theorem u8len_cons (c : Char) (cs : List Char) : u8len (c :: cs) = c.utf8Size + u8len cs := by
  simp [u8len]

theorem u8len_append (a b : List Char) : u8len (a ++ b) = u8len a + u8len b := by
  simp [u8len]

theorem textOf_append (a b : List RawTok) : textOf (a ++ b) = textOf a ++ textOf b := by
  simp [textOf]

/-! ## bounds -/

mutual
  theorem ranges_bounds : ∀ (t : Tree) (off : Nat),
      ∀ r ∈ t.ranges off, off ≤ r.1 ∧ r.1 ≤ r.2 ∧ r.2 ≤ off + t.len
    | .tok _ s, off => by
      intro r hr
      simp only [Tree.ranges, List.mem_singleton] at hr
      subst hr
      simp [Tree.len]
    | .node _ cs, off => by
      intro r hr
      simp only [Tree.ranges, List.mem_cons] at hr
      rcases hr with rfl | hr
      · simp [Tree.len]
      · simpa [Tree.len] using rangesList_bounds cs off r hr
  theorem rangesList_bounds : ∀ (cs : List Tree) (off : Nat),
      ∀ r ∈ rangesList cs off, off ≤ r.1 ∧ r.1 ≤ r.2 ∧ r.2 ≤ off + lenList cs
    | [], off => by
      intro r hr
      simp [rangesList] at hr
    | c :: cs, off => by
      intro r hr
      simp only [rangesList, List.mem_append] at hr
      simp only [lenList]
      rcases hr with hr | hr
      · have := ranges_bounds c off r hr
        omega
      · have := rangesList_bounds cs (off + c.len) r hr
        omega
end

/-! ## the extent of a tree is the length of its text -/

mutual
  theorem len_eq : ∀ (t : Tree), t.len = u8len (textOf t.leaves)
    | .tok _ s => by simp [Tree.len, Tree.leaves, textOf]
    | .node _ cs => by simpa [Tree.len, Tree.leaves] using lenList_eq cs
  theorem lenList_eq : ∀ (cs : List Tree), lenList cs = u8len (textOf (leavesList cs))
    | [] => by simp [lenList, leavesList, textOf, u8len]
    | c :: cs => by
      simp only [lenList, leavesList, textOf_append, u8len_append, len_eq c, lenList_eq cs]
end

/-! ## character boundaries -/

theorem start_mem_cb (s : List Char) (off : Nat) : off ∈ charBoundaries s off := by
  cases s <;> simp [charBoundaries]

theorem stop_mem_cb (s : List Char) (off : Nat) : off + u8len s ∈ charBoundaries s off := by
  induction s generalizing off with
  | nil => simp [charBoundaries, u8len]
  | cons c cs ih =>
    simp only [charBoundaries, u8len_cons, List.mem_cons]
    right
    rw [← Nat.add_assoc]
    exact ih _

theorem cb_append_left (a b : List Char) (off x : Nat) (h : x ∈ charBoundaries a off) :
    x ∈ charBoundaries (a ++ b) off := by
  induction a generalizing off with
  | nil =>
    simp only [charBoundaries, List.mem_singleton] at h
    subst h
    exact start_mem_cb _ _
  | cons c cs ih =>
    simp only [charBoundaries, List.mem_cons, List.cons_append] at h ⊢
    rcases h with h | h
    · exact Or.inl h
    · exact Or.inr (ih _ h)

theorem cb_append_right (a b : List Char) (off x : Nat)
    (h : x ∈ charBoundaries b (off + u8len a)) : x ∈ charBoundaries (a ++ b) off := by
  induction a generalizing off with
  | nil => simpa [u8len] using h
  | cons c cs ih =>
    simp only [charBoundaries, List.mem_cons, List.cons_append]
    right
    apply ih
    rw [u8len_cons, ← Nat.add_assoc] at h
    exact h

mutual
  theorem ranges_cb : ∀ (t : Tree) (off : Nat),
      ∀ r ∈ t.ranges off, r.1 ∈ charBoundaries (textOf t.leaves) off ∧
        r.2 ∈ charBoundaries (textOf t.leaves) off
    | .tok k s, off => by
      intro r hr
      simp only [Tree.ranges, List.mem_singleton] at hr
      subst hr
      have : textOf (Tree.tok k s).leaves = s := by simp [Tree.leaves, textOf]
      rw [this]
      exact ⟨start_mem_cb _ _, stop_mem_cb _ _⟩
    | .node _ cs, off => by
      intro r hr
      simp only [Tree.ranges, List.mem_cons] at hr
      simp only [Tree.leaves]
      rcases hr with rfl | hr
      · refine ⟨start_mem_cb _ _, ?_⟩
        simp only [lenList_eq cs]
        exact stop_mem_cb _ _
      · exact rangesList_cb cs off r hr
  theorem rangesList_cb : ∀ (cs : List Tree) (off : Nat),
      ∀ r ∈ rangesList cs off, r.1 ∈ charBoundaries (textOf (leavesList cs)) off ∧
        r.2 ∈ charBoundaries (textOf (leavesList cs)) off
    | [], off => by
      intro r hr
      simp [rangesList] at hr
    | c :: cs, off => by
      intro r hr
      simp only [rangesList, List.mem_append] at hr
      simp only [leavesList, textOf_append]
      rcases hr with hr | hr
      · have := ranges_cb c off r hr
        exact ⟨cb_append_left _ _ _ _ this.1, cb_append_left _ _ _ _ this.2⟩
      · have := rangesList_cb cs (off + c.len) r hr
        rw [len_eq c] at this
        exact ⟨cb_append_right _ _ _ _ this.1, cb_append_right _ _ _ _ this.2⟩
end

end Glas.Lemmas.TreeRanges
