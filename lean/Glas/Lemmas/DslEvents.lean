import Glas.Model.Dsl
import Glas.Model.SyntaxSpec
/-! Event-list lemmas: counting under `setNth` / `insertAt` / append, and the balance predicate. -/
namespace Glas.Lemmas.Dsl
open Glas.Dsl Glas.SyntaxSpec

/-- number of finished `Open`s -/
def doneCount : List Ev → Nat
  | [] => 0
  | .open _ _ true :: es => doneCount es + 1
  | _ :: es => doneCount es

/-- Balance of closes against *finished* opens, with `d` closes of credit: every `close` is
preceded by a finished `open` that it can be matched with. -/
def Ok : Nat → List Ev → Prop
  | _, [] => True
  | d, .open _ _ true :: es => Ok (d + 1) es
  | d, .open _ _ false :: es => Ok d es
  | d, .adv :: es => Ok d es
  | d, .close :: es => 1 ≤ d ∧ Ok (d - 1) es

/-! ### counts and append -/

theorem advCount_append (a b : List Ev) : advCount (a ++ b) = advCount a + advCount b := by
  induction a with
  | nil => simp [advCount]
  | cons e es ih => cases e <;> simp [advCount, ih] <;> omega

theorem closeCount_append (a b : List Ev) : closeCount (a ++ b) = closeCount a + closeCount b := by
  induction a with
  | nil => simp [closeCount]
  | cons e es ih => cases e <;> simp [closeCount, ih] <;> omega

theorem doneCount_append (a b : List Ev) : doneCount (a ++ b) = doneCount a + doneCount b := by
  induction a with
  | nil => simp [doneCount]
  | cons e es ih =>
    cases e with
    | «open» k i d => cases d <;> simp [doneCount, ih] <;> omega
    | close => simp [doneCount, ih]
    | adv => simp [doneCount, ih]

/-! ### `setNth` of an unfinished open by a finished one -/

theorem advCount_setNth (es : List Ev) (i : Nat) (k id k' id' : Nat) (d d' : Bool)
    (h : es[i]? = some (.open k id d)) : advCount (setNth es i (.open k' id' d')) = advCount es := by
  induction es generalizing i with
  | nil => simp at h
  | cons e es ih =>
    cases i with
    | zero => simp at h; subst h; simp [setNth, advCount]
    | succ i => simp at h; cases e <;> simp [setNth, advCount, ih i h]

theorem closeCount_setNth (es : List Ev) (i : Nat) (k id k' id' : Nat) (d d' : Bool)
    (h : es[i]? = some (.open k id d)) : closeCount (setNth es i (.open k' id' d')) = closeCount es := by
  induction es generalizing i with
  | nil => simp at h
  | cons e es ih =>
    cases i with
    | zero => simp at h; subst h; simp [setNth, closeCount]
    | succ i => simp at h; cases e <;> simp [setNth, closeCount, ih i h]

theorem doneCount_setNth (es : List Ev) (i : Nat) (k id k' id' : Nat)
    (h : es[i]? = some (.open k id false)) :
    doneCount (setNth es i (.open k' id' true)) = doneCount es + 1 := by
  induction es generalizing i with
  | nil => simp at h
  | cons e es ih =>
    cases i with
    | zero => simp at h; subst h; simp [setNth, doneCount]
    | succ i =>
      simp at h
      cases e with
      | «open» k i d => cases d <;> simp [setNth, doneCount, ih _ h]
      | close => simp [setNth, doneCount, ih _ h]
      | adv => simp [setNth, doneCount, ih _ h]

theorem length_setNth {α} (l : List α) (i : Nat) (a : α) : (setNth l i a).length = l.length := by
  induction l generalizing i with
  | nil => simp [setNth]
  | cons x xs ih => cases i <;> simp [setNth, ih]

theorem mem_setNth {α} {l : List α} {i : Nat} {a b : α} (h : b ∈ setNth l i a) : b ∈ l ∨ b = a := by
  induction l generalizing i with
  | nil => simp [setNth] at h
  | cons x xs ih =>
    cases i with
    | zero => simp [setNth] at h; rcases h with h | h <;> simp [h]
    | succ i =>
      simp [setNth] at h
      rcases h with h | h
      · simp [h]
      · rcases ih h with h | h <;> simp [h]

/-! ### `insertAt` of an unfinished open -/

theorem advCount_insertAt (es : List Ev) (i : Nat) (k id : Nat) (d : Bool) :
    advCount (insertAt es i (.open k id d)) = advCount es := by
  induction es generalizing i with
  | nil => cases i <;> simp [insertAt, advCount]
  | cons e es ih => cases i <;> cases e <;> simp [insertAt, advCount, ih]

theorem closeCount_insertAt (es : List Ev) (i : Nat) (k id : Nat) (d : Bool) :
    closeCount (insertAt es i (.open k id d)) = closeCount es := by
  induction es generalizing i with
  | nil => cases i <;> simp [insertAt, closeCount]
  | cons e es ih => cases i <;> cases e <;> simp [insertAt, closeCount, ih]

theorem doneCount_insertAt (es : List Ev) (i : Nat) (k id : Nat) :
    doneCount (insertAt es i (.open k id false)) = doneCount es := by
  induction es generalizing i with
  | nil => cases i <;> simp [insertAt, doneCount]
  | cons e es ih =>
    cases i with
    | zero => simp [insertAt, doneCount]
    | succ i =>
      cases e with
      | «open» k i d => cases d <;> simp [insertAt, doneCount, ih]
      | close => simp [insertAt, doneCount, ih]
      | adv => simp [insertAt, doneCount, ih]

/-! ### the balance predicate -/

theorem Ok.mono {d : Nat} {es : List Ev} (h : Ok d es) : Ok (d + 1) es := by
  induction es generalizing d with
  | nil => trivial
  | cons e es ih =>
    cases e with
    | «open» k i dn => cases dn <;> simp only [Ok] at h ⊢ <;> exact ih h
    | close =>
      simp only [Ok] at h ⊢
      refine ⟨by omega, ?_⟩
      have := ih h.2
      have e : d - 1 + 1 = d + 1 - 1 := by omega
      rw [← e]; exact this
    | adv => simp only [Ok] at h ⊢; exact ih h

theorem Ok.setNth {d : Nat} {es : List Ev} {i k id k' : Nat} (h : Ok d es)
    (hi : es[i]? = some (.open k id false)) : Ok d (setNth es i (.open k' id true)) := by
  induction es generalizing d i with
  | nil => simp at hi
  | cons e es ih =>
    cases i with
    | zero =>
      simp at hi; subst hi
      simp only [Dsl.setNth, Ok] at h ⊢
      exact h.mono
    | succ i =>
      simp at hi
      cases e with
      | «open» k i dn => cases dn <;> simp only [Dsl.setNth, Ok] at h ⊢ <;> exact ih h hi
      | close => simp only [Dsl.setNth, Ok] at h ⊢; exact ⟨h.1, ih h.2 hi⟩
      | adv => simp only [Dsl.setNth, Ok] at h ⊢; exact ih h hi

theorem Ok.insertAt {d : Nat} {es : List Ev} (i k id : Nat) (h : Ok d es) :
    Ok d (insertAt es i (.open k id false)) := by
  induction es generalizing d i with
  | nil => cases i <;> simp [Dsl.insertAt, Ok]
  | cons e es ih =>
    cases i with
    | zero => simp only [Dsl.insertAt, Ok]; exact h
    | succ i =>
      cases e with
      | «open» k i dn => cases dn <;> simp only [Dsl.insertAt, Ok] at h ⊢ <;> exact ih _ h
      | close => simp only [Dsl.insertAt, Ok] at h ⊢; exact ⟨h.1, ih _ h.2⟩
      | adv => simp only [Dsl.insertAt, Ok] at h ⊢; exact ih _ h

/-- appending an event that is not a `close` -/
theorem Ok.append_nonclose {d : Nat} {es : List Ev} {e : Ev} (h : Ok d es) (he : e ≠ .close) :
    Ok d (es ++ [e]) := by
  induction es generalizing d with
  | nil =>
    cases e with
    | «open» k i dn => cases dn <;> simp [Ok]
    | close => exact absurd rfl he
    | adv => simp [Ok]
  | cons x xs ih =>
    cases x with
    | «open» k i dn => cases dn <;> simp only [List.cons_append, Ok] at h ⊢ <;> exact ih h
    | close => simp only [List.cons_append, Ok] at h ⊢; exact ⟨h.1, ih h.2⟩
    | adv => simp only [List.cons_append, Ok] at h ⊢; exact ih h

/-- appending a `close` needs one unit of remaining credit -/
theorem Ok.append_close {d : Nat} {es : List Ev} (h : Ok d es)
    (hc : closeCount es + 1 ≤ d + doneCount es) : Ok d (es ++ [.close]) := by
  induction es generalizing d with
  | nil => simp [closeCount, doneCount] at hc; simp [Ok]; omega
  | cons x xs ih =>
    cases x with
    | «open» k i dn =>
      cases dn <;> simp only [List.cons_append, Ok, closeCount, doneCount] at h hc ⊢ <;>
        exact ih h (by omega)
    | close =>
      simp only [List.cons_append, Ok, closeCount, doneCount] at h hc ⊢
      exact ⟨h.1, ih h.2 (by omega)⟩
    | adv =>
      simp only [List.cons_append, Ok, closeCount, doneCount] at h hc ⊢
      exact ih h (by omega)

end Glas.Lemmas.Dsl
