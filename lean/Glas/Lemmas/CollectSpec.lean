import Glas.Lemmas.CollectAcyclic
/-!
M-collect on acyclic tables, second half: the answer is the plain unfolding of the table.  `specC` unfolds a class
without any cache (fuel = height + 1 suffices); the collector's answer, with the letters of type variables erased,
is that unfolding - whatever was asked before.
-/
namespace Glas.Lemmas.Collect
open Glas.UF Glas.Collect

/-- forget which letter a type variable got -/
def eraseL : T → T
  | .unknown => .unknown
  | .generic _ => .generic 0
  | .base k => .base k
  | .result a b => .result (eraseL a) (eraseL b)
  | .list a => .list (eraseL a)
  | .tuple fs => .tuple (eraseL fs)
  | .fn ps r => .fn (eraseL ps) (eraseL r)
  | .adt id ps => .adt id (eraseL ps)
  | .anil => .anil
  | .acons h t => .acons (eraseL h) (eraseL t)

def specList (rec : Nat → T) : List Nat → T
  | [] => .anil
  | v :: vs => .acons (rec v) (specList rec vs)

def specNode (rec : Nat → T) : N → T
  | .unk _ => .generic 0
  | .base k => .base k
  | .result a b => .result (rec a) (rec b)
  | .list a => .list (rec a)
  | .tuple fs => .tuple (specList rec fs)
  | .fn ps r => .fn (specList rec ps) (rec r)
  | .adt id ps => .adt id (specList rec ps)

/-- the unfolding of class `i` (a root) to depth `fuel`, no cache, no letters -/
def specC (tbl : Table N) : Nat → Nat → T
  | 0, _ => .unknown
  | fuel + 1, i =>
    match valOf tbl i with
    | none => .unknown
    | some node => specNode (fun c => specC tbl fuel (rootOf tbl c)) node

theorem specList_congr {r1 r2 : Nat → T} (vs : List Nat) (h : ∀ v ∈ vs, r1 v = r2 v) :
    specList r1 vs = specList r2 vs := by
  induction vs with
  | nil => rfl
  | cons v vs ih =>
    simp only [specList]
    rw [h v (by simp), ih (fun w hw => h w (by simp [hw]))]

theorem specNode_congr {r1 r2 : Nat → T} (node : N) (h : ∀ c ∈ node.children, r1 c = r2 c) :
    specNode r1 node = specNode r2 node := by
  cases node with
  | unk _ => rfl
  | base _ => rfl
  | result a b => simp only [specNode]; rw [h a (by simp [N.children]), h b (by simp [N.children])]
  | list a => simp only [specNode]; rw [h a (by simp [N.children])]
  | tuple fs => simp only [specNode]; rw [specList_congr fs (fun v hv => h v (by simpa [N.children] using hv))]
  | fn ps r =>
    simp only [specNode]
    rw [specList_congr ps (fun v hv => h v (by simp [N.children, hv])), h r (by simp [N.children])]
  | adt id ps => simp only [specNode]; rw [specList_congr ps (fun v hv => h v (by simpa [N.children] using hv))]

/-- enough fuel is enough: from `height + 1` on the unfolding does not change -/
theorem specC_stable (tbl : Table N) (hwf : WF tbl) (hcl : Closed tbl) (h : Nat → Nat) (hac : Acyclic tbl h) :
    ∀ (k i f : Nat), h i ≤ k → i < tbl.length → parentOf tbl i = i → h i + 1 ≤ f →
      specC tbl f i = specC tbl (h i + 1) i := by
  intro k
  induction k with
  | zero =>
    intro i f hk hi hroot hf
    obtain ⟨f', rfl⟩ : ∃ f', f = f' + 1 := ⟨f - 1, by omega⟩
    simp only [specC]
    cases hv : valOf tbl i with
    | none => rfl
    | some node =>
      apply specNode_congr
      intro c hc
      have := hac i node hi hroot hv c hc
      omega
  | succ k ih =>
    intro i f hk hi hroot hf
    obtain ⟨f', rfl⟩ : ∃ f', f = f' + 1 := ⟨f - 1, by omega⟩
    simp only [specC]
    cases hv : valOf tbl i with
    | none => rfl
    | some node =>
      apply specNode_congr
      intro c hc
      have hlt := hac i node hi hroot hv c hc
      have hcl' := hcl i node hv c hc
      have hr := rootOf_lt hwf hcl'
      have hrr : parentOf tbl (rootOf tbl c) = rootOf tbl c := root_fuelOf_isRoot hwf c
      rw [ih (rootOf tbl c) f' (by omega) hr hrr (by omega), ih (rootOf tbl c) (h i) (by omega) hr hrr (by omega)]

/-- a finished entry: placeholder-free, and (letters erased) the unfolding of its class -/
def GoodT (tbl : Table N) (h : Nat → Nat) (j : Nat) (t : T) : Prop :=
  noUnk t = true ∧ eraseL t = specC tbl (h j + 1) j

def InvS (tbl : Table N) (h : Nat → Nat) (st : St) (hb : Nat) : Prop :=
  ∀ (j : Nat) (t : T), st.cache[j]? = some (some t) → GoodT tbl h j t ∨ hb ≤ h j

def FrameS (tbl : Table N) (h : Nat → Nat) (st st' : St) : Prop :=
  ∀ (j : Nat) (t : T), st'.cache[j]? = some (some t) → GoodT tbl h j t ∨ st.cache[j]? = some (some t)

theorem FrameS.refl {tbl : Table N} {h : Nat → Nat} (st : St) : FrameS tbl h st st := fun _ _ e => Or.inr e

theorem FrameS.trans {tbl : Table N} {h : Nat → Nat} {a b c : St} (h1 : FrameS tbl h a b) (h2 : FrameS tbl h b c) :
    FrameS tbl h a c := by
  intro j t e
  rcases h2 j t e with g | g
  · exact Or.inl g
  · exact h1 j t g

theorem InvS.frame {tbl : Table N} {h : Nat → Nat} {st st' : St} {hb : Nat} (hi : InvS tbl h st hb)
    (hf : FrameS tbl h st st') : InvS tbl h st' hb := by
  intro j t e
  rcases hf j t e with g | g
  · exact Or.inl g
  · exact hi j t g

theorem InvS.mono {tbl : Table N} {h : Nat → Nat} {st : St} {a b : Nat} (hi : InvS tbl h st a) (hab : b ≤ a) :
    InvS tbl h st b := by
  intro j t e
  rcases hi j t e with g | g
  · exact Or.inl g
  · exact Or.inr (by omega)

theorem letterOf_frameS {tbl : Table N} {h : Nat → Nat} (st : St) (idx : Nat) : FrameS tbl h st (letterOf st idx).2 := by
  intro j t e
  rw [letterOf_cache] at e
  exact Or.inr e

/-- the collector's contract below height `hb`: the answer for `x` is good for `x`'s class -/
def RecOk3 (tbl : Table N) (h : Nat → Nat) (bound hb : Nat) (rec : Nat → St → Res T) : Prop :=
  ∀ x st, x < tbl.length → st.cache.length = tbl.length → pending st ≤ bound → h (rootOf tbl x) < hb →
    InvS tbl h st hb →
    ∃ t st', rec x st = .ok t st' ∧ Step tbl.length st st' ∧ GoodT tbl h (rootOf tbl x) t ∧ FrameS tbl h st st'

/-- what the children of a node unfold to -/
def childSpec (tbl : Table N) (h : Nat → Nat) (c : Nat) : T := specC tbl (h (rootOf tbl c) + 1) (rootOf tbl c)

theorem collectList_ok3 (tbl : Table N) (h : Nat → Nat) (bound hb : Nat) (rec : Nat → St → Res T)
    (hrec : RecOk3 tbl h bound hb rec) :
    ∀ (vs : List Nat) (st : St), (∀ v ∈ vs, v < tbl.length ∧ h (rootOf tbl v) < hb) →
      st.cache.length = tbl.length → pending st ≤ bound → InvS tbl h st hb →
      ∃ ts st', collectList rec vs st = .ok ts st' ∧ Step tbl.length st st' ∧ noUnk ts = true ∧
        eraseL ts = specList (childSpec tbl h) vs ∧ FrameS tbl h st st' := by
  intro vs
  induction vs with
  | nil => intro st _ hl _ _; exact ⟨.anil, st, rfl, ⟨hl, Nat.le_refl _⟩, rfl, rfl, FrameS.refl st⟩
  | cons v vs ih =>
    intro st hv hl hp hi
    obtain ⟨t, st1, h1, s1, g1, f1⟩ := hrec v st (hv v (by simp)).1 hl hp (hv v (by simp)).2 hi
    obtain ⟨ts, st2, h2, s2, n2, e2, f2⟩ := ih st1 (fun w hw => hv w (by simp [hw])) s1.len
      (by have := s1.pend; omega) (hi.frame f1)
    refine ⟨.acons t ts, st2, ?_, ⟨s2.len, by have := s1.pend; have := s2.pend; omega⟩, ?_, ?_, f1.trans f2⟩
    · simp only [collectList, h1, h2]
    · simp [noUnk, g1.1, n2]
    · simp only [eraseL, specList, e2, g1.2, childSpec]

end Glas.Lemmas.Collect

namespace Glas.Lemmas.Collect
open Glas.UF Glas.Collect

theorem collectNode_ok3 (tbl : Table N) (h : Nat → Nat) (bound hb : Nat) (rec : Nat → St → Res T)
    (hrec : RecOk3 tbl h bound hb rec) (node : N) (st : St)
    (hc : ∀ c ∈ node.children, c < tbl.length ∧ h (rootOf tbl c) < hb)
    (hl : st.cache.length = tbl.length) (hp : pending st ≤ bound) (hi : InvS tbl h st hb) :
    ∃ t st', collectNode rec node st = .ok t st' ∧ Step tbl.length st st' ∧ noUnk t = true ∧
      eraseL t = specNode (childSpec tbl h) node ∧ FrameS tbl h st st' := by
  cases node with
  | unk idx =>
    refine ⟨.generic (letterOf st idx).1, (letterOf st idx).2, rfl, ⟨?_, ?_⟩, rfl, rfl, letterOf_frameS st idx⟩
    · rw [letterOf_cache]; exact hl
    · simp only [pending_eq, letterOf_cache]; exact Nat.le_refl _
  | base k => exact ⟨.base k, st, rfl, ⟨hl, Nat.le_refl _⟩, rfl, rfl, FrameS.refl st⟩
  | result a b =>
    have ha := hc a (by simp [N.children])
    have hb' := hc b (by simp [N.children])
    obtain ⟨ta, st2, h1, s1, g1, f1⟩ := hrec a st ha.1 hl hp ha.2 hi
    obtain ⟨tb, st3, h2, s2, g2, f2⟩ := hrec b st2 hb'.1 s1.len (by have := s1.pend; omega) hb'.2 (hi.frame f1)
    refine ⟨.result ta tb, st3, ?_, ⟨s2.len, by have := s1.pend; have := s2.pend; omega⟩, ?_, ?_, f1.trans f2⟩
    · simp only [collectNode, h1, h2]
    · simp [noUnk, g1.1, g2.1]
    · simp only [eraseL, specNode, g1.2, g2.2, childSpec]
  | list a =>
    have ha := hc a (by simp [N.children])
    obtain ⟨ta, st2, h1, s1, g1, f1⟩ := hrec a st ha.1 hl hp ha.2 hi
    refine ⟨.list ta, st2, ?_, s1, ?_, ?_, f1⟩
    · simp only [collectNode, h1]
    · simp [noUnk, g1.1]
    · simp only [eraseL, specNode, g1.2, childSpec]
  | tuple fs =>
    obtain ⟨ts, st2, h1, s1, n1, e1, f1⟩ := collectList_ok3 tbl h bound hb rec hrec fs st
      (fun v hv => hc v (by simpa [N.children] using hv)) hl hp hi
    refine ⟨.tuple ts, st2, ?_, s1, ?_, ?_, f1⟩
    · simp only [collectNode, h1]
    · simp [noUnk, n1]
    · simp only [eraseL, specNode, e1]
  | fn ps ret =>
    obtain ⟨ts, st2, h1, s1, n1, e1, f1⟩ := collectList_ok3 tbl h bound hb rec hrec ps st
      (fun v hv => hc v (by simp [N.children, hv])) hl hp hi
    have hr := hc ret (by simp [N.children])
    obtain ⟨tr, st3, h2, s2, g2, f2⟩ := hrec ret st2 hr.1 s1.len (by have := s1.pend; omega) hr.2 (hi.frame f1)
    refine ⟨.fn ts tr, st3, ?_, ⟨s2.len, by have := s1.pend; have := s2.pend; omega⟩, ?_, ?_, f1.trans f2⟩
    · simp only [collectNode, h1, h2]
    · simp [noUnk, n1, g2.1]
    · simp only [eraseL, specNode, e1, g2.2, childSpec]
  | adt id ps =>
    obtain ⟨ts, st2, h1, s1, n1, e1, f1⟩ := collectList_ok3 tbl h bound hb rec hrec ps st
      (fun v hv => hc v (by simpa [N.children] using hv)) hl hp hi
    refine ⟨.adt id ts, st2, ?_, s1, ?_, ?_, f1⟩
    · simp only [collectNode, h1]
    · simp [noUnk, n1]
    · simp only [eraseL, specNode, e1]

end Glas.Lemmas.Collect
