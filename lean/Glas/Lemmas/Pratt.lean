import Glas.Model.Pratt
namespace Glas.Pratt

theorem exprBp_zero (T : Table) (min toks) : exprBp T 0 min toks = none := by
  simp [exprBp]
theorem infixLoop_zero (T : Table) (min lhs toks) : infixLoop T 0 min lhs toks = none := by
  simp [infixLoop]
theorem exprBp_nil (T : Table) (f min) : exprBp T f min [] = none := by
  cases f <;> simp [exprBp]
theorem exprBp_atom (T : Table) (f min i rest) :
    exprBp T (f + 1) min (.atom i :: rest) = infixLoop T f min (.atom i) rest := by
  rw [exprBp]
theorem exprBp_op (T : Table) (f min k rest) :
    exprBp T (f + 1) min (.op k :: rest) =
      match T.pref k with
      | none => none
      | some r =>
        match exprBp T f r rest with
        | none => none
        | some (e, rest') => infixLoop T f min (.pre k e) rest' := by
  rw [exprBp]; rfl
theorem infixLoop_nil (T : Table) (f min lhs) :
    infixLoop T (f + 1) min lhs [] = some (lhs, []) := by
  simp [infixLoop]
theorem infixLoop_atom (T : Table) (f min lhs i rest) :
    infixLoop T (f + 1) min lhs (.atom i :: rest) = some (lhs, .atom i :: rest) := by
  simp [infixLoop]
theorem infixLoop_op (T : Table) (f min lhs k rest) :
    infixLoop T (f + 1) min lhs (.op k :: rest) =
      match T.inf k with
      | none => some (lhs, .op k :: rest)
      | some (l, r) =>
        if l = min then none
        else if l < min then some (lhs, .op k :: rest)
        else
          match exprBp T f r rest with
          | none => none
          | some (rhs, rest') => infixLoop T f min (.bin k lhs rhs) rest' := by
  rw [infixLoop]; rfl

theorem fuel_mono (T : Table) : ∀ f,
    (∀ min toks res, exprBp T f min toks = some res → exprBp T (f+1) min toks = some res) ∧
    (∀ min lhs toks res, infixLoop T f min lhs toks = some res →
      infixLoop T (f+1) min lhs toks = some res) := by
  intro f
  induction f with
  | zero => constructor <;> intros <;> simp [exprBp_zero, infixLoop_zero] at *
  | succ f ih =>
    obtain ⟨ih1, ih2⟩ := ih
    constructor
    · intro min toks res h
      match toks with
      | [] => simp [exprBp_nil] at h
      | .atom i :: rest =>
        rw [exprBp_atom] at h ⊢
        exact ih2 _ _ _ _ h
      | .op k :: rest =>
        rw [exprBp_op] at h ⊢
        cases hp : T.pref k with
        | none => simp [hp] at h
        | some r =>
          simp only [hp] at h ⊢
          cases he : exprBp T f r rest with
          | none => simp [he] at h
          | some p =>
            obtain ⟨e, rest'⟩ := p
            simp only [he] at h
            simp only [ih1 _ _ _ he]
            exact ih2 _ _ _ _ h
    · intro min lhs toks res h
      match toks with
      | [] => simpa [infixLoop_nil] using h
      | .atom i :: rest => simpa [infixLoop_atom] using h
      | .op k :: rest =>
        rw [infixLoop_op] at h ⊢
        cases hi : T.inf k with
        | none => simpa [hi] using h
        | some p =>
          obtain ⟨l, r⟩ := p
          simp only [hi] at h ⊢
          split
          · simp_all
          · split
            · simp_all
            · rename_i h1 h2
              simp only [h1, h2, if_false] at h
              cases he : exprBp T f r rest with
              | none => simp [he] at h
              | some p =>
                obtain ⟨e, rest'⟩ := p
                simp only [he] at h
                simp only [ih1 _ _ _ he]
                exact ih2 _ _ _ _ h

theorem exprBp_mono (T : Table) {f f' : Nat} (hf : f ≤ f') {min toks res}
    (h : exprBp T f min toks = some res) : exprBp T f' min toks = some res := by
  induction hf with
  | refl => exact h
  | step _ ih => exact (fuel_mono T _).1 _ _ _ ih

theorem infixLoop_mono (T : Table) {f f' : Nat} (hf : f ≤ f') {min lhs toks res}
    (h : infixLoop T f min lhs toks = some res) : infixLoop T f' min lhs toks = some res := by
  induction hf with
  | refl => exact h
  | step _ ih => exact (fuel_mono T _).2 _ _ _ _ ih

/-- the loop stops in front of anything that is not an infix operator of left power `≥ min` -/
theorem infixLoop_stop (T : Table) (f min lhs rest)
    (h : ∀ k r' l r, rest = .op k :: r' → T.inf k = some (l, r) → l < min) :
    infixLoop T (f + 1) min lhs rest = some (lhs, rest) := by
  match rest with
  | [] => exact infixLoop_nil ..
  | .atom i :: rest => exact infixLoop_atom ..
  | .op k :: rest =>
    rw [infixLoop_op]
    cases hi : T.inf k with
    | none => rfl
    | some p =>
      obtain ⟨l, r⟩ := p
      have := h k rest l r rfl hi
      have h1 : ¬ l = min := by omega
      simp only [h1, this, if_false, if_true]

/-- what the round-trip proof needs of a level assignment: levels are defined exactly on the infix
operators, bounded, ordered as the left powers are; left powers are positive and below the right
ones; a right power stays below the next larger left power; prefix powers exceed all right powers -/
structure LevelOK (T : Table) (level : Nat → Option Nat) (B : Nat) : Prop where
  some_inf : ∀ k m, level k = some m → ∃ l r, T.inf k = some (l, r)
  inf_some : ∀ k l r, T.inf k = some (l, r) → ∃ m, level k = some m
  bound : ∀ k m, level k = some m → m < B
  mono : ∀ k l r m k' l' r' m', T.inf k = some (l, r) → level k = some m →
    T.inf k' = some (l', r') → level k' = some m' → (m < m' ↔ l < l')
  lpos : ∀ k l r, T.inf k = some (l, r) → 0 < l ∧ l < r
  tight : ∀ k l r k' l' r', T.inf k = some (l, r) → T.inf k' = some (l', r') → l < l' → r < l'
  prefHigh : ∀ p rp k l r, T.pref p = some rp → T.inf k = some (l, r) → r < rp

/-- continuation form of the round trip: parsing `print e ++ rest` with `min` below all left powers
of levels `≥ n` amounts to entering the loop with `e` already parsed, provided the next token is
not an infix operator of a level above `n` -/
theorem parse_cont (T : Table) (level : Nat → Option Nat) (B : Nat) (hL : LevelOK T level B)
    (n : Nat) (e : Ast) (he : Lvl level (fun k => (T.pref k).isSome) n e) :
    ∀ min rest, (∀ k m l r, level k = some m → n ≤ m → T.inf k = some (l, r) → min < l) →
      (∀ k r' m, rest = .op k :: r' → level k = some m → m ≤ n) →
      ∀ f res, infixLoop T f min e rest = some res →
        ∃ f', exprBp T f' min (print e ++ rest) = some res := by
  induction he with
  | atom n i =>
    intro min rest _ _ f res h
    exact ⟨f + 1, by simpa [print, exprBp_atom] using h⟩
  | pre n k e hk he ih =>
    intro min rest hmin hrest f res h
    obtain ⟨rp, hp⟩ : ∃ rp, T.pref k = some rp := Option.isSome_iff_exists.1 hk
    have hE : ∃ f2, exprBp T f2 rp (print e ++ rest) = some (e, rest) := by
      apply ih B rp rest ?_ ?_ 1 (e, rest) ?_
      · intro k' m' l' r' hk' hm' _
        have := hL.bound k' m' hk'
        omega
      · intro k' r' m' _ hk'
        have := hL.bound k' m' hk'
        omega
      · apply infixLoop_stop
        intro k' r' l' rr' _ hi'
        have := hL.lpos k' l' rr' hi'
        have := hL.prefHigh k rp k' l' rr' hp hi'
        omega
    obtain ⟨f2, hf2⟩ := hE
    refine ⟨max f f2 + 1, ?_⟩
    have h1 := exprBp_mono T (Nat.le_max_right f f2) hf2
    have h2 := infixLoop_mono T (Nat.le_max_left f f2) h
    simp only [print, List.cons_append]
    rw [exprBp_op, hp]
    simp only [h1]
    exact h2
  | bin n k m l r hk hm hl hr ihl ihr =>
    intro min rest hmin hrest f res h
    obtain ⟨lk, rk, hik⟩ := hL.some_inf k m hk
    have hlr := hL.lpos k lk rk hik
    have hminlk : min < lk := hmin k m lk rk hk hm hik
    have hR : ∃ f2, exprBp T f2 rk (print r ++ rest) = some (r, rest) := by
      apply ihr rk rest ?_ ?_ 1 (r, rest) ?_
      · intro k' m' l' r' hk' hm' hik'
        have := (hL.mono k lk rk m k' l' r' m' hik hk hik' hk').1 (by omega)
        exact hL.tight _ _ _ _ _ _ hik hik' this
      · intro k' r' m' hrest' hk'
        have := hrest k' r' m' hrest' hk'
        omega
      · apply infixLoop_stop
        intro k' r' l' rr' hrest' hi'
        obtain ⟨m', hk'⟩ := hL.inf_some k' l' rr' hi'
        have := hrest k' r' m' hrest' hk'
        have hiff := hL.mono k lk rk m k' l' rr' m' hik hk hi' hk'
        have : ¬ lk < l' := fun hc => by have := hiff.2 hc; omega
        omega
    obtain ⟨f2, hf2⟩ := hR
    have h1 := exprBp_mono T (Nat.le_max_right f f2) hf2
    have h2 := infixLoop_mono T (Nat.le_max_left f f2) h
    have := ihl min (.op k :: (print r ++ rest)) ?_ ?_ (max f f2 + 1) res ?_
    · simpa [print] using this
    · intro k' m' l' r' hk' hm' hik'
      exact hmin k' m' l' r' hk' (by omega) hik'
    · intro k' r' m' hc hk'
      injection hc with hc _
      injection hc with hc
      subst hc
      rw [hk] at hk'
      injection hk' with hk'
      omega
    · rw [infixLoop_op, hik]
      have h3 : ¬ lk = min := by omega
      have h4 : ¬ lk < min := by omega
      simp only [h3, h4, if_false, h1]
      exact h2

/-! ### counting smaller elements -/

theorem cnt_mono (D : List Nat) {a b : Nat} (h : a ≤ b) :
    (D.filter (fun x => x < a)).length ≤ (D.filter (fun x => x < b)).length := by
  induction D with
  | nil => simp
  | cons x D ih =>
    simp only [List.filter_cons]
    by_cases h1 : x < a
    · have h2 : x < b := by omega
      simp [h1, h2]; omega
    · by_cases h2 : x < b
      · simp [h1, h2]; omega
      · simp [h1, h2]; omega

theorem cnt_strict (D : List Nat) {a b : Nat} (h : a < b) (ha : a ∈ D) :
    (D.filter (fun x => x < a)).length < (D.filter (fun x => x < b)).length := by
  induction D with
  | nil => simp at ha
  | cons x D ih =>
    simp only [List.filter_cons]
    rcases List.mem_cons.1 ha with rfl | ha'
    · have := cnt_mono D (Nat.le_of_lt h)
      simp [h]; omega
    · have := ih ha'
      by_cases h1 : x < a
      · have h2 : x < b := by omega
        simp [h1, h2]; omega
      · by_cases h2 : x < b
        · simp [h1, h2]; omega
        · simp [h1, h2]; omega

/-- bits of a mask lie below its width -/
theorem testBit_lt_of_lt_two_pow {S N k : Nat} (hS : S < 2 ^ N) (hk : S.testBit k = true) : k < N := by
  rcases Nat.lt_or_ge k N with h | h
  · exact h
  · have : S < 2 ^ k := Nat.lt_of_lt_of_le hS (Nat.pow_le_pow_right (by omega) h)
    rw [Nat.testBit_lt_two_pow this] at hk
    cases hk

end Glas.Pratt
