import Glas.Lemmas.ItemsSeg
import Glas.Lemmas.DslFuel
/-!
History independence of the interpreter (for C03): what a statement does from a state that already holds
events `E0`, errors `R0`, `i0` allocated identities  is what it does from the fresh
state, with `E0` / `R0` in front, identities moved by `i0`, mark indices moved by `E0.length`.  The look-ahead counter is the one thing that is *not* independent of the past (it is
reset by `bump` and `close` only), so the statement is a simulation: the run with a history may stop
in the parser's own `parser is stuck` guard where the fresh run goes on; in every other case the two
runs end alike.
-/
namespace Glas.Lemmas.ItemsHist
open Glas.Dsl Glas.Items Glas.Lemmas.ItemsLocal

def shEv (i0 : Nat) : Ev → Ev
  | .open k id d => .open k (id + i0) d
  | .close => .close
  | .adv => .adv

def shMark (d i0 : Nat) (m : Mark) : Mark := { idx := m.idx + d, id := m.id + i0 }

def shFrame (d i0 : Nat) (fr : Frame) : Frame :=
  { fr with marks := fr.marks.map (Option.map (shMark d i0)) }

def shRet (d i0 : Nat) : RetV → RetV
  | .mark m => .mark (shMark d i0 m)
  | .unit => .unit
  | .nat n => .nat n
  | .noMark => .noMark

/-- `σm` is `σi` with a history in front -/
structure Sim (E0 : List Ev) (R0 : List (Nat × Nat × Nat)) (i0 : Nat) (σm σi : St) : Prop where
  toks : σm.toks = σi.toks
  pos : σm.pos = σi.pos
  la : σi.la ≤ σm.la
  events : σm.events = E0 ++ σi.events.map (shEv i0)
  errs : σm.errs = R0 ++ σi.errs
  nextId : σm.nextId = σi.nextId + i0

def Stuck : Out → Prop
  | .panic .stuck _ => True
  | _ => False

def OutSim' (E0 : List Ev) (R0 : List (Nat × Nat × Nat)) (i0 : Nat) : Out → Out → Prop
  | .norm σm frm, .norm σi fri => Sim E0 R0 i0 σm σi ∧ frm = shFrame E0.length i0 fri
  | .brk σm frm, .brk σi fri => Sim E0 R0 i0 σm σi ∧ frm = shFrame E0.length i0 fri
  | .ret σm vm, .ret σi vi => Sim E0 R0 i0 σm σi ∧ vm = shRet E0.length i0 vi
  | .panic w _, .panic w' _ => w = w'
  | .oof, .oof => True
  | _, _ => False

/-- the run with a history is stuck in the look-ahead guard, or the two outcomes correspond -/
def OutSim (E0 : List Ev) (R0 : List (Nat × Nat × Nat)) (i0 : Nat) (om oi : Out) : Prop :=
  Stuck om ∨ OutSim' E0 R0 i0 om oi

variable {E0 : List Ev} {R0 : List (Nat × Nat × Nat)} {i0 : Nat}

/-! ### lists -/

theorem setNth_map {α β} (g : α → β) (l : List α) (i : Nat) (a : α) :
    setNth (l.map g) i (g a) = (setNth l i a).map g := by
  induction l generalizing i with
  | nil => rfl
  | cons x xs ih => cases i with
    | zero => rfl
    | succ i => simp only [List.map_cons, setNth, ih]

theorem setNth_append_right {α} (p l : List α) (i : Nat) (a : α) :
    setNth (p ++ l) (i + p.length) a = p ++ setNth l i a := by
  induction p with
  | nil => rfl
  | cons x xs ih => simp only [List.cons_append, List.length_cons, ← Nat.add_assoc, setNth, ih]

theorem insertAt_map {α β} (g : α → β) (l : List α) (i : Nat) (a : α) :
    insertAt (l.map g) i (g a) = (insertAt l i a).map g := by
  induction l generalizing i with
  | nil => cases i <;> rfl
  | cons x xs ih => cases i with
    | zero => rfl
    | succ i => simp only [List.map_cons, insertAt, ih]

theorem insertAt_append_right {α} (p l : List α) (i : Nat) (a : α) :
    insertAt (p ++ l) (i + p.length) a = p ++ insertAt l i a := by
  induction p with
  | nil => rfl
  | cons x xs ih => simp only [List.cons_append, List.length_cons, ← Nat.add_assoc, insertAt, ih]

theorem getElem?_hist (E0 : List Ev) (evs : List Ev) (i0 i : Nat) :
    (E0 ++ evs.map (shEv i0))[i + E0.length]? = (evs[i]?).map (shEv i0) := by
  rw [List.getElem?_append_right (Nat.le_add_left _ _), Nat.add_sub_cancel, List.getElem?_map]

/-! ### frames -/

@[simp] theorem shFrame_locals (d i0 : Nat) (fr : Frame) : (shFrame d i0 fr).locals = fr.locals := rfl

theorem getMark_sh (d i0 : Nat) (fr : Frame) (m : Nat) :
    getMark (shFrame d i0 fr) m = (getMark fr m).map (shMark d i0) := by
  simp only [getMark, shFrame, List.getElem?_map]
  cases fr.marks[m]? <;> rfl

theorem setMark_sh (d i0 : Nat) (fr : Frame) (m : Nat) (v : Option Mark) :
    setMark (shFrame d i0 fr) m (v.map (shMark d i0)) = shFrame d i0 (setMark fr m v) := by
  simp only [setMark, shFrame, setNth_map]

theorem setMark_sh_none (d i0 : Nat) (fr : Frame) (m : Nat) :
    setMark (shFrame d i0 fr) m none = shFrame d i0 (setMark fr m none) :=
  setMark_sh d i0 fr m none

theorem setMark_sh_some (d i0 : Nat) (fr : Frame) (m : Nat) (mk : Mark) :
    setMark (shFrame d i0 fr) m (some (shMark d i0 mk)) = shFrame d i0 (setMark fr m (some mk)) :=
  setMark_sh d i0 fr m (some mk)

theorem setLocal_sh (d i0 : Nat) (fr : Frame) (x v : Nat) :
    setLocal (shFrame d i0 fr) x v = shFrame d i0 (setLocal fr x v) := rfl

theorem takeMarks_sh (d i0 : Nat) (ms : List Nat) (fr : Frame) :
    takeMarks (shFrame d i0 fr) ms =
      ((takeMarks fr ms).1.map (Option.map (shMark d i0)), shFrame d i0 (takeMarks fr ms).2) := by
  induction ms generalizing fr with
  | nil => rfl
  | cons m ms ih =>
    simp only [takeMarks, getMark_sh, setMark_sh_none, ih, List.map_cons]

theorem calleeFrame_sh (d i0 : Nat) (p : Proc) (vs : List Nat) (mvs : List (Option Mark)) :
    calleeFrame p vs (mvs.map (Option.map (shMark d i0))) = shFrame d i0 (calleeFrame p vs mvs) := by
  simp [calleeFrame, shFrame]

theorem assignDst_sh (d i0 : Nat) (fr : Frame) (dst : Dst) (v : RetV) :
    assignDst (shFrame d i0 fr) dst (shRet d i0 v) = (assignDst fr dst v).map (shFrame d i0) := by
  cases dst <;> cases v <;>
    simp only [assignDst, shRet, Option.map_some, Option.map_none, setLocal_sh, setMark_sh_some,
      setMark_sh_none]

/-! ### expressions -/

theorem evalIn_hist {P : Prog} {σm σi : St} (h : Sim E0 R0 i0 σm σi) (d j : Nat) (fri : Frame)
    (e : Expr) :
    evalIn P σm (shFrame d j fri) e = none ∨
    ∃ v σm' σi', evalIn P σm (shFrame d j fri) e = some (v, σm') ∧
      evalIn P σi fri e = some (v, σi') ∧ Sim E0 R0 i0 σm' σi' := by
  unfold evalIn
  rw [shFrame_locals, h.toks, h.pos]
  generalize evalE P σi.toks σi.pos fri.locals e = vc
  obtain ⟨v, c⟩ := vc
  simp only []
  by_cases hm : σm.la + c > P.fuel
  · left; rw [if_pos hm]
  · right
    have hi : ¬ (σi.la + c > P.fuel) := by have := h.la; omega
    rw [if_neg hm, if_neg hi]
    exact ⟨v, _, _, rfl, rfl, ⟨rfl, rfl, Nat.add_le_add_right h.la c, h.events, h.errs, h.nextId⟩⟩

theorem evalArgs_hist {P : Prog} (d j : Nat) (fri : Frame) (es : List Expr) :
    ∀ {σm σi : St}, Sim E0 R0 i0 σm σi →
    evalArgs P σm (shFrame d j fri) es = none ∨
    ∃ vs σm' σi', evalArgs P σm (shFrame d j fri) es = some (vs, σm') ∧
      evalArgs P σi fri es = some (vs, σi') ∧ Sim E0 R0 i0 σm' σi' := by
  induction es with
  | nil => intro σm σi h; exact Or.inr ⟨[], σm, σi, rfl, rfl, h⟩
  | cons e es ih =>
    intro σm σi h
    rcases evalIn_hist (P := P) h d j fri e with h1 | ⟨v, σm1, σi1, hm1, hi1, hs1⟩
    · left; simp only [evalArgs, h1]
    · rcases ih hs1 with h2 | ⟨vs, σm2, σi2, hm2, hi2, hs2⟩
      · left; simp only [evalArgs, hm1, h2]
      · right
        have e1 : evalArgs P σm (shFrame d j fri) (e :: es) = some (v :: vs, σm2) := by
          simp only [evalArgs, hm1, hm2]
        have e2 : evalArgs P σi fri (e :: es) = some (v :: vs, σi2) := by
          simp only [evalArgs, hi1, hi2]
        exact ⟨v :: vs, σm2, σi2, e1, e2, hs2⟩

/-! ### the simulation -/

theorem OutSim.stuck {σ : St} {oi : Out} : OutSim E0 R0 i0 (.panic .stuck σ) oi := Or.inl trivial

theorem Sim.enter {σm σi : St} (h : Sim E0 R0 i0 σm σi) : Sim E0 R0 i0 (enter σm) (enter σi) :=
  ⟨h.toks, h.pos, h.la, h.events, h.errs, h.nextId⟩

theorem callOut_hist {fr1 : Frame} {dst : Dst} {om oi : Out} (h : OutSim E0 R0 i0 om oi) :
    OutSim E0 R0 i0 (callOut (shFrame E0.length i0 fr1) dst om) (callOut fr1 dst oi) := by
  rcases h with h | h
  · cases om with
    | panic w σ => cases w <;> first | exact h.elim | exact Or.inl trivial
    | _ => exact h.elim
  · cases om <;> cases oi <;> simp only [OutSim'] at h
    case norm.norm σm frm σi fri =>
      right
      simp only [callOut, callFin]
      have := assignDst_sh E0.length i0 fr1 dst .unit
      simp only [shRet] at this
      rw [this]
      cases assignDst fr1 dst .unit with
      | none => exact rfl
      | some fr2 =>
        exact ⟨⟨h.1.toks, h.1.pos, h.1.la, h.1.events, h.1.errs, h.1.nextId⟩, rfl⟩
    case ret.ret σm vm σi vi =>
      right
      simp only [callOut, callFin]
      rw [h.2, assignDst_sh]
      cases assignDst fr1 dst vi with
      | none => exact rfl
      | some fr2 =>
        exact ⟨⟨h.1.toks, h.1.pos, h.1.la, h.1.events, h.1.errs, h.1.nextId⟩, rfl⟩
    case brk.brk σm frm σi fri => exact Or.inr rfl
    case panic.panic w σm w' σi => exact Or.inr h
    case oof.oof => exact Or.inr trivial
    all_goals exact h.elim

theorem exec_hist (P : Prog) (n : Nat) : ∀ (s : Stmt) (σm σi : St) (fri : Frame),
    Sim E0 R0 i0 σm σi →
    OutSim E0 R0 i0 (exec P n s σm (shFrame E0.length i0 fri)) (exec P n s σi fri) := by
  induction n with
  | zero => intro s σm σi fri _; exact Or.inr trivial
  | succ n ih =>
    intro s σm σi fri h
    cases s with
    | skip => exact Or.inr ⟨h, rfl⟩
    | bump =>
      simp only [exec]
      rw [h.toks, h.pos]
      by_cases hp : σi.pos < σi.toks.length
      · rw [if_pos hp, if_pos hp]
        exact Or.inr ⟨⟨rfl, rfl, Nat.le_refl _, by simp [h.events, shEv], h.errs, h.nextId⟩, rfl⟩
      · rw [if_neg hp, if_neg hp]; exact Or.inr rfl
    | err code arg =>
      simp only [exec]
      exact Or.inr ⟨⟨h.toks, h.pos, h.la, h.events, by simp [h.errs, h.pos], h.nextId⟩, rfl⟩
    | «open» m =>
      simp only [exec]
      right
      refine ⟨⟨h.toks, h.pos, h.la, by simp [h.events, shEv, h.nextId], h.errs, by simp only [h.nextId]; omega⟩, ?_⟩
      rw [← setMark_sh_some]
      simp only [shMark, h.events, h.nextId, List.length_append, List.length_map]
      rw [Nat.add_comm E0.length]
    | openBefore m' m =>
      simp only [exec, getMark_sh]
      cases hg : getMark fri m with
      | none => exact Or.inr rfl
      | some mk =>
        simp only [Option.map_some, shMark]
        rw [h.events, getElem?_hist]
        cases he : σi.events[mk.idx]? with
        | none => exact Or.inr rfl
        | some ev =>
          cases ev with
          | «open» k id d =>
            cases d
            · exact Or.inr rfl
            · simp only [Option.map_some, shEv]
              by_cases hid : id = mk.id
              · have hid' : id + i0 = mk.id + i0 := by rw [hid]
                rw [if_pos hid', if_pos hid]
                right
                refine ⟨⟨h.toks, h.pos, h.la, ?_, h.errs, by simp only [h.nextId]; omega⟩, ?_⟩
                · simp only []
                  rw [insertAt_append_right, h.nextId]
                  have : (Ev.open P.errorKind (σi.nextId + i0) false) = shEv i0 (Ev.open P.errorKind σi.nextId false) := rfl
                  rw [this, insertAt_map]
                · rw [setMark_sh_none]
                  have : ({ idx := mk.idx + E0.length, id := σm.nextId } : Mark) =
                      shMark E0.length i0 { idx := mk.idx, id := σi.nextId } := by
                    simp only [shMark, h.nextId]
                  rw [this, setMark_sh_some]
              · have hid' : ¬ (id + i0 = mk.id + i0) := by omega
                rw [if_neg hid', if_neg hid]; exact Or.inr rfl
          | close => exact Or.inr rfl
          | adv => exact Or.inr rfl
    | close m k dst =>
      simp only [exec, getMark_sh]
      cases hg : getMark fri m with
      | none => exact Or.inr rfl
      | some mk =>
        simp only [Option.map_some, shMark]
        rw [h.events, getElem?_hist]
        cases he : σi.events[mk.idx]? with
        | none => exact Or.inr rfl
        | some ev =>
          cases ev with
          | «open» k' id d =>
            cases d
            · simp only [Option.map_some, shEv]
              by_cases hid : id = mk.id
              · have hid' : id + i0 = mk.id + i0 := by rw [hid]
                rw [if_pos hid', if_pos hid]
                have hev : setNth (E0 ++ σi.events.map (shEv i0)) (mk.idx + E0.length) (Ev.open k (id + i0) true)
                      ++ [Ev.close] =
                    E0 ++ (setNth σi.events mk.idx (Ev.open k id true) ++ [Ev.close]).map (shEv i0) := by
                  rw [setNth_append_right]
                  have : (Ev.open k (id + i0) true) = shEv i0 (Ev.open k id true) := rfl
                  rw [this, setNth_map]
                  simp [shEv]
                cases dst with
                | none =>
                  exact Or.inr ⟨⟨h.toks, h.pos, Nat.le_refl _, hev, h.errs, h.nextId⟩, setMark_sh_none _ _ _ _⟩
                | some d' =>
                  right
                  refine ⟨⟨h.toks, h.pos, Nat.le_refl _, hev, h.errs, h.nextId⟩, ?_⟩
                  show setMark (setMark (shFrame E0.length i0 fri) m none) d'
                      (some { idx := mk.idx + E0.length, id := mk.id + i0 }) = _
                  rw [setMark_sh_none]
                  have : ({ idx := mk.idx + E0.length, id := mk.id + i0 } : Mark) = shMark E0.length i0 mk := rfl
                  rw [this, setMark_sh_some]
              · have hid' : ¬ (id + i0 = mk.id + i0) := by omega
                rw [if_neg hid', if_neg hid]; exact Or.inr rfl
            · exact Or.inr rfl
          | close => exact Or.inr rfl
          | adv => exact Or.inr rfl
    | assert c =>
      simp only [exec]
      rcases evalIn_hist (P := P) h E0.length i0 fri c with h1 | ⟨v, σm1, σi1, hm1, hi1, hs1⟩
      · rw [h1]; exact OutSim.stuck
      · rw [hm1, hi1]
        simp only []
        split
        · exact Or.inr ⟨hs1, rfl⟩
        · exact Or.inr rfl
    | set x e =>
      simp only [exec]
      rcases evalIn_hist (P := P) h E0.length i0 fri e with h1 | ⟨v, σm1, σi1, hm1, hi1, hs1⟩
      · rw [h1]; exact OutSim.stuck
      · rw [hm1, hi1]
        exact Or.inr ⟨hs1, setLocal_sh _ _ _ _ _⟩
    | seq a b =>
      simp only [exec]
      have ha := ih a σm σi fri h
      generalize exec P n a σm (shFrame E0.length i0 fri) = om at ha
      generalize exec P n a σi fri = oi at ha
      rcases ha with ha | ha
      · cases om with
        | panic w σ => cases w <;> first | exact ha.elim | exact OutSim.stuck
        | _ => exact ha.elim
      · cases om <;> cases oi <;> simp only [OutSim'] at ha
        case norm.norm σm' frm σi' fri' =>
          obtain ⟨hs, rfl⟩ := ha
          exact ih b _ _ _ hs
        case brk.brk => exact Or.inr ha
        case ret.ret => exact Or.inr ha
        case panic.panic => exact Or.inr ha
        case oof.oof => exact Or.inr trivial
        all_goals exact ha.elim
    | ite c t e =>
      simp only [exec]
      rcases evalIn_hist (P := P) h E0.length i0 fri c with h1 | ⟨v, σm1, σi1, hm1, hi1, hs1⟩
      · rw [h1]; exact OutSim.stuck
      · rw [hm1, hi1]
        simp only []
        split
        · exact ih t _ _ _ hs1
        · exact ih e _ _ _ hs1
    | loop b =>
      simp only [exec]
      have ha := ih b σm σi fri h
      generalize exec P n b σm (shFrame E0.length i0 fri) = om at ha
      generalize exec P n b σi fri = oi at ha
      rcases ha with ha | ha
      · cases om with
        | panic w σ => cases w <;> first | exact ha.elim | exact OutSim.stuck
        | _ => exact ha.elim
      · cases om <;> cases oi <;> simp only [OutSim'] at ha
        case norm.norm σm' frm σi' fri' =>
          obtain ⟨hs, rfl⟩ := ha
          exact ih (.loop b) _ _ _ hs
        case brk.brk => exact Or.inr ha
        case ret.ret => exact Or.inr ha
        case panic.panic => exact Or.inr ha
        case oof.oof => exact Or.inr trivial
        all_goals exact ha.elim
    | brk => exact Or.inr ⟨h, rfl⟩
    | ret r =>
      cases r with
      | unit => exact Or.inr ⟨h, rfl⟩
      | nat e =>
        simp only [exec]
        rcases evalIn_hist (P := P) h E0.length i0 fri e with h1 | ⟨v, σm1, σi1, hm1, hi1, hs1⟩
        · rw [h1]; exact OutSim.stuck
        · rw [hm1, hi1]; exact Or.inr ⟨hs1, rfl⟩
      | mark m =>
        simp only [exec, getMark_sh]
        cases getMark fri m with
        | none => exact Or.inr rfl
        | some mk => exact Or.inr ⟨h, rfl⟩
      | noMark => exact Or.inr ⟨h, rfl⟩
    | call f args margs dst =>
      rw [ItemsLocal.exec_call, ItemsLocal.exec_call]
      cases P.procs[f]? with
      | none => exact Or.inr rfl
      | some p =>
        simp only []
        rcases evalArgs_hist (P := P) E0.length i0 fri args h with h1 | ⟨vs, σm1, σi1, hm1, hi1, hs1⟩
        · rw [h1]; exact OutSim.stuck
        · rw [hm1, hi1]
          simp only [takeMarks_sh, calleeFrame_sh]
          exact callOut_hist (ih p.body _ _ _ hs1.enter)

end Glas.Lemmas.ItemsHist
