import Glas.Model.TySpec
/-!
# Lemmas for C09 (part 2): soundness of the assignment checker of `Glas.Model.TySpec`
-/
namespace Glas.TySpec

/-! ## types -/

mutual
theorem substTy_nil : ∀ t : Ty, substTy [] t = t
  | .int => by simp [substTy]
  | .float => by simp [substTy]
  | .string => by simp [substTy]
  | .bool => by simp [substTy]
  | .nil => by simp [substTy]
  | .bitArray => by simp [substTy]
  | .gen n => by simp [substTy, List.lookup]
  | .list t => by rw [substTy, substTy_nil t]
  | .result a b => by rw [substTy, substTy_nil a, substTy_nil b]
  | .tuple ts => by rw [substTy, substTys_nil ts]
  | .fn ps r => by rw [substTy, substTys_nil ps, substTy_nil r]
  | .adt n as => by rw [substTy, substTys_nil as]
theorem substTys_nil : ∀ ts : List Ty, ts.map (substTy []) = ts
  | [] => rfl
  | t :: ts => by rw [List.map_cons, substTy_nil t, substTys_nil ts]
end

mutual
theorem Ty.beq_iff : ∀ a b : Ty, Ty.beq a b = true ↔ a = b
  | .int, b => by cases b <;> simp [Ty.beq]
  | .float, b => by cases b <;> simp [Ty.beq]
  | .string, b => by cases b <;> simp [Ty.beq]
  | .bool, b => by cases b <;> simp [Ty.beq]
  | .nil, b => by cases b <;> simp [Ty.beq]
  | .bitArray, b => by cases b <;> simp [Ty.beq]
  | .gen n, b => by cases b <;> simp [Ty.beq]
  | .list a, b => by cases b <;> simp [Ty.beq, Ty.beq_iff a]
  | .result a c, b => by cases b <;> simp [Ty.beq, Ty.beq_iff a, Ty.beq_iff c]
  | .tuple as, b => by cases b <;> simp [Ty.beq, Ty.beqs_iff as]
  | .fn ps r, b => by cases b <;> simp [Ty.beq, Ty.beqs_iff ps, Ty.beq_iff r]
  | .adt n as, b => by cases b <;> simp [Ty.beq, Ty.beqs_iff as]
theorem Ty.beqs_iff : ∀ as bs : List Ty, Ty.beqs as bs = true ↔ as = bs
  | [], bs => by cases bs <;> simp [Ty.beqs]
  | a :: as, bs => by cases bs <;> simp [Ty.beqs, Ty.beq_iff a, Ty.beqs_iff as]
end

/-! ## lists and patterns -/

theorem all_zip_get {α β} (f : α × β → Bool) : ∀ (l : List α) (r : List β), (l.zip r).all f = true →
    ∀ (i : Nat) a b, l[i]? = some a → r[i]? = some b → f (a, b) = true := by
  intro l
  induction l with
  | nil => intro r _ i a b h; simp at h
  | cons x xs ih =>
    intro r h i a b ha hb
    cases r with
    | nil => simp at hb
    | cons y ys =>
      simp only [List.zip_cons_cons, List.all_cons, Bool.and_eq_true] at h
      cases i with
      | zero => simp at ha hb; subst ha; subst hb; exact h.1
      | succ j => simp at ha hb; exact ih ys h.2 j a b ha hb

theorem mapM_option {α β} (f : α → Option β) : ∀ (l : List α) (r : List β), l.mapM f = some r →
    r.length = l.length ∧ ∀ (i : Nat) a b, l[i]? = some a → r[i]? = some b → f a = some b := by
  intro l
  induction l with
  | nil => intro r h; simp at h; subst h; simp
  | cons x xs ih =>
    intro r h
    simp only [List.mapM_cons] at h
    cases hx : f x with
    | none => simp [hx] at h
    | some y =>
      cases hxs : xs.mapM f with
      | none => simp [hx, hxs] at h
      | some ys =>
        simp [hx, hxs] at h
        subst h
        have := ih ys hxs
        refine ⟨by simp [this.1], ?_⟩
        intro i a b ha hb
        cases i with
        | zero => simp at ha hb; subst ha; subst hb; exact hx
        | succ j => simp at ha hb; exact this.2 j a b ha hb

theorem checkPat_sound' (D : Decls) : ∀ (fuel : Nat) (p : Pat) (t : Ty), checkPat D fuel p t = true → PatOk D p t := by
  intro fuel
  induction fuel with
  | zero => intro p t h; simp [checkPat] at h
  | succ n ih =>
    intro p t h
    unfold checkPat at h
    split at h
    · split at h
      · rename_i u hu
        rw [(Ty.beq_iff _ _).1 h] at hu
        exact .var _ _ hu
      · cases h
    · exact .discard _
    · exact .int
    · exact .float
    · exact .string
    · simp only [Bool.and_eq_true, beq_iff_eq] at h
      exact .tuple _ _ h.1 (fun i p t hp ht => ih _ _ (all_zip_get _ _ _ h.2 i p t hp ht))
    · simp only [Bool.and_eq_true, List.all_eq_true] at h
      refine .list _ _ _ (fun p hp => ih _ _ (h.1 p hp)) ?_
      intro i hi
      subst hi
      have h2 := h.2
      simp only at h2
      split at h2
      · rename_i v hv
        rw [(Ty.beq_iff _ _).1 h2] at hv
        exact hv
      · cases h2
    · split at h
      · cases h
      · rename_i labels fts r hs
        split at h
        · rename_i σ ps hm ho
          simp only [Bool.and_eq_true, beq_iff_eq] at h
          have ht := (Ty.beq_iff _ _).1 h.1.1
          rw [← ht]
          exact .ctor _ _ labels fts r σ ps hs ho
            (fun i p t hp hf => ih _ _ (all_zip_get _ _ _ h.2 i p t hp hf))
        · cases h
    · simp only [Bool.and_eq_true] at h
      have h2 := h.2
      split at h2
      · rename_i u hu
        rw [(Ty.beq_iff _ _).1 h2] at hu
        exact .as_ _ _ _ (ih _ _ h.1) hu
      · cases h2
    · cases h

/-! ## the mutually recursive checker, by induction on the fuel -/

structure SoundAt (D : Decls) (n : Nat) : Prop where
  synth : ∀ e t, synth D n e = some t → HasType D e t
  check : ∀ e t, check D n e t = true → HasType D e t
  callee : ∀ f ps r inst, calleeScheme D n f = some (ps, r, inst) → ∀ σ : Subst, (inst = false → σ = []) →
    HasType D f (.fn (ps.map (substTy σ)) (substTy σ r))
  clauses : ∀ cl ts t, clausesOk D n cl ts t = true → ∀ c, c ∈ cl → c.1.length = ts.length ∧
    (∀ (i : Nat) p u, c.1[i]? = some p → ts[i]? = some u → PatOk D p u) ∧ HasType D c.2 t
  sblock : ∀ ss t, synthBlock D n ss = some t → HasType D (.block ss) t
  cblock : ∀ ss t, checkBlock D n ss t = true → HasType D (.block ss) t

theorem call_rule (D : Decls) (f : Expr) (args : List (Option String × Expr)) (ps : List Ty) (r : Ty)
    (es : List Expr) (σ : Subst)
    (hf : HasType D f (.fn (ps.map (substTy σ)) (substTy σ r)))
    (ho : orderArgs (labelsOf D f) ps.length args = some es)
    (hall : ∀ (i : Nat) e p, es[i]? = some e → ps[i]? = some p → HasType D e (substTy σ p)) :
    HasType D (.call f args) (substTy σ r) := by
  refine HasType.call f args _ _ es hf (by simpa using ho) ?_
  intro i e t he ht
  rw [List.getElem?_map] at ht
  cases hp : ps[i]? with
  | none => simp [hp] at ht
  | some p =>
    simp [hp] at ht
    subst ht
    exact hall i e p he hp

theorem call_aux (D : Decls) (n : Nat) (ih : SoundAt D n) (f : Expr) (args : List (Option String × Expr))
    (ps : List Ty) (r : Ty) (inst : Bool) (es : List Expr) (σ : Subst) (hσ : inst = false → σ = [])
    (hc : calleeScheme D n f = some (ps, r, inst))
    (ho : orderArgs (labelsOf D f) ps.length args = some es)
    (hall : (es.zip ps).all (fun x => match x with | (a, p) => check D n a (substTy σ p)) = true) :
    HasType D (.call f args) (substTy σ r) :=
  call_rule D f args ps r es σ (ih.callee f ps r inst hc σ hσ) ho
    (fun i e p he hp => ih.check _ _ (all_zip_get _ _ _ hall i e p he hp))

theorem ite_none_some {α} (c : Bool) (x r : α) (h : (if c = true then none else some x) = some r) :
    c = false ∧ x = r := by
  cases c with
  | false => exact ⟨rfl, Option.some.inj h⟩
  | true => cases h

theorem synth_succ (D : Decls) (n : Nat) (ih : SoundAt D n) (e : Expr) (t : Ty)
    (h : synth D (n + 1) e = some t) : HasType D e t := by
  unfold synth at h
  split at h
  · cases h; exact .int
  · cases h; exact .float
  · cases h; exact .str
  · exact .var _ _ h
  · -- fnref
    rename_i name
    cases hs : D.fn? name with
    | none => simp [hs] at h
    | some sig =>
      simp only [hs, Option.bind_some] at h
      split at h
      · cases h
      · cases h
        have := HasType.fnref name sig [] hs
        rwa [substTy_nil] at this
  · -- ctor
    rename_i name
    cases hs : ctorScheme D name with
    | none => simp [hs] at h
    | some x =>
      obtain ⟨labels, fts, r⟩ := x
      simp only [hs, Option.bind_some] at h
      obtain ⟨_, h3⟩ := ite_none_some _ _ _ h
      cases h3
      split
      · rename_i he
        have he : fts = [] := by simpa using he
        subst he
        have := HasType.ctorConst name labels r [] hs
        rwa [substTy_nil] at this
      · rename_i he
        have he : fts ≠ [] := by simpa using he
        have := HasType.ctorFn name labels fts r [] hs he
        rwa [substTy_nil] at this
  · -- call
    split at h
    · rename_i ps r inst hc
      split at h
      · rename_i es ho
        cases inst with
        | false =>
          simp only [Bool.false_eq_true, if_false] at h
          split at h
          · rename_i hcond
            simp only [Bool.and_eq_true] at hcond
            cases h
            exact call_aux D n ih _ _ ps r false es [] (fun _ => rfl) hc ho hcond.2
          · cases h
        | true =>
          simp only [if_true] at h
          split at h
          · rename_i hcond
            simp only [Bool.and_eq_true] at hcond
            cases h
            exact call_aux D n ih _ _ ps r true es _ (fun h => by cases h) hc ho hcond.2
          · cases h
      · cases h
    · cases h
  · -- binop eq
    rename_i l r
    split at h
    · rename_i u hl
      split at h
      · rename_i hr
        cases h
        exact .eq l r u (ih.synth _ _ hl) (ih.check _ _ hr)
      · cases h
    · split at h
      · rename_i u hr
        split at h
        · rename_i hl
          cases h
          exact .eq l r u (ih.check _ _ hl) (ih.synth _ _ hr)
        · cases h
      · cases h
  · -- binop
    rename_i op l r _
    split at h
    · rename_i a b ho
      split at h
      · rename_i hc
        simp only [Bool.and_eq_true] at hc
        cases h
        exact .binop op l r a _ ho (ih.check _ _ hc.1) (ih.check _ _ hc.2)
      · cases h
    · cases h
  · -- tuple
    rename_i es
    cases hm : List.mapM (synth D n) es with
    | none => simp [hm] at h
    | some ts =>
      simp [hm] at h
      subst h
      have := mapM_option _ _ _ hm
      exact .tuple es ts this.1.symm (fun i e t he ht => ih.synth _ _ (this.2 i e t he ht))
  · -- index
    rename_i e i
    split at h
    · rename_i ts he
      exact .index e i ts t (ih.synth _ _ he) h
    · cases h
  · -- list
    rename_i es
    split at h
    · rename_i u _
      split at h
      · rename_i hall
        cases h
        rw [Bool.and_eq_true, List.all_eq_true] at hall
        exact .list es u (fun e he => ih.check _ _ (hall.2 e he))
      · cases h
    · cases h
  · -- listTail
    rename_i es tail
    split at h
    · rename_i u ht
      split at h
      · rename_i hall
        cases h
        rw [List.all_eq_true] at hall
        exact .listTail es tail u (fun e he => ih.check _ _ (hall e he)) (ih.synth _ _ ht)
      · cases h
    · split at h
      · rename_i u _
        split at h
        · rename_i hall
          cases h
          rw [Bool.and_eq_true, List.all_eq_true] at hall
          exact .listTail es tail u (fun e he => ih.check _ _ (hall.1 e he)) (ih.check _ _ hall.2)
        · cases h
      · cases h
  · -- case
    rename_i subjects clauses
    split at h
    · rename_i ts hm
      split at h
      · rename_i u _
        split at h
        · rename_i hc
          cases h
          rw [Bool.and_eq_true] at hc
          have hm' := mapM_option _ _ _ hm
          have hc' := ih.clauses _ _ _ hc.2
          exact .case subjects clauses ts _ hm'.1.symm
            (fun i e u he hu => ih.synth _ _ (hm'.2 i e u he hu))
            (fun ps body hmem => (hc' _ hmem).1)
            (fun ps body hmem => (hc' _ hmem).2.1)
            (fun ps body hmem => (hc' _ hmem).2.2)
        · cases h
      · cases h
    · cases h
  · -- lambda
    rename_i params body
    split at h
    · rename_i ts r hm hb
      cases h
      have hm' := mapM_option _ _ _ hm
      exact .lambda params body ts r hm'.1.symm (fun i p t hp ht => hm'.2 i p t hp ht) (ih.synth _ _ hb)
    · cases h
  · -- block
    exact ih.sblock _ _ h
  · -- field
    rename_i e label
    split at h
    · rename_i adt args he
      cases hf : fieldTy D adt label with
      | none => simp [hf] at h
      | some x =>
        obtain ⟨params, ft⟩ := x
        simp [hf] at h
        subst h
        exact .field e label adt args params ft (ih.synth _ _ he) hf
    · cases h
  · -- pipe call
    exact .pipeCall _ _ _ _ (ih.synth _ _ h)
  · -- pipe
    rename_i l r _
    split at h
    · rename_i a u a' hr hl
      split at h
      · rename_i hb
        cases h
        have := (Ty.beq_iff _ _).1 hb
        subst this
        exact .pipeFn l r a _ (ih.synth _ _ hr) (ih.synth _ _ hl)
      · cases h
    · cases h

theorem stmt_te (D : Decls) (n : Nat) (ih : SoundAt D n) (p : Option Pat) (e : Expr) (u : Ty)
    (h : (match synth D n e with
      | some t => some t
      | none => match p with
        | some (Pat.var i) => (D.local? i).bind fun t => if check D n e t = true then some t else none
        | _ => none) = some u) : HasType D e u := by
  split at h
  · rename_i t hs
    cases h
    exact ih.synth _ _ hs
  · split at h
    · rename_i i
      cases hl : D.local? i with
      | none => simp [hl] at h
      | some v =>
        simp only [hl, Option.bind_some] at h
        split at h
        · rename_i hc
          cases h
          exact ih.check _ _ hc
        · cases h
    · cases h

theorem stmt_pat (D : Decls) (p : Option Pat) (u : Ty)
    (h : (match p with | some q => checkPat D 64 q u | none => true) = true) :
    ∀ q, p = some q → PatOk D q u := by
  intro q hq
  subst hq
  exact checkPat_sound' D 64 q u h

theorem check_succ (D : Decls) (n : Nat) (ih : SoundAt D n) (e : Expr) (t : Ty)
    (h : check D (n + 1) e t = true) : HasType D e t := by
  unfold check at h
  split at h
  · -- fnref
    rename_i name
    split at h
    · rename_i sig hs
      split at h
      · rename_i σ _
        rw [← (Ty.beq_iff _ _).1 h]
        exact .fnref name sig σ hs
      · cases h
    · cases h
  · -- ctor
    rename_i name
    split at h
    · rename_i labels fts r hs
      simp only at h
      split at h
      · rename_i σ _
        rw [← (Ty.beq_iff _ _).1 h]
        split
        · rename_i he
          have he : fts = [] := by simpa using he
          subst he
          exact .ctorConst name labels r σ hs
        · rename_i he
          have he : fts ≠ [] := by simpa using he
          exact .ctorFn name labels fts r σ hs he
      · cases h
    · cases h
  · -- call
    split at h
    · rename_i ps r inst hc
      split at h
      · rename_i es ho
        cases inst with
        | false =>
          simp only [Bool.false_eq_true, if_false, Bool.and_eq_true] at h
          rw [← (Ty.beq_iff _ _).1 h.1.2]
          exact call_aux D n ih _ _ ps r false es [] (fun _ => rfl) hc ho h.2
        | true =>
          simp only [if_true, Bool.and_eq_true] at h
          rw [← (Ty.beq_iff _ _).1 h.1.2]
          exact call_aux D n ih _ _ ps r true es _ (fun h => by cases h) hc ho h.2
      · cases h
    · cases h
  · -- tuple
    rename_i es ts
    simp only [Bool.and_eq_true, beq_iff_eq] at h
    exact .tuple es ts h.1 (fun i e u he hu => ih.check _ _ (all_zip_get _ _ _ h.2 i e u he hu))
  · -- list
    rename_i es u
    rw [List.all_eq_true] at h
    exact .list es u (fun e he => ih.check _ _ (h e he))
  · -- listTail
    rename_i es tail u
    rw [Bool.and_eq_true, List.all_eq_true] at h
    exact .listTail es tail u (fun e he => ih.check _ _ (h.1 e he)) (ih.check _ _ h.2)
  · -- case
    rename_i subjects clauses
    split at h
    · rename_i ts hm
      have hm' := mapM_option _ _ _ hm
      have hc' := ih.clauses _ _ _ h
      exact .case subjects clauses ts _ hm'.1.symm
        (fun i e u he hu => ih.synth _ _ (hm'.2 i e u he hu))
        (fun ps body hmem => (hc' _ hmem).1)
        (fun ps body hmem => (hc' _ hmem).2.1)
        (fun ps body hmem => (hc' _ hmem).2.2)
    · cases h
  · -- lambda
    rename_i params body ts r
    split at h
    · rename_i us hm
      rw [Bool.and_eq_true] at h
      have hm' := mapM_option _ _ _ hm
      have := (Ty.beqs_iff _ _).1 h.1
      subst this
      exact .lambda params body us r hm'.1.symm (fun i p t hp ht => hm'.2 i p t hp ht) (ih.check _ _ h.2)
    · cases h
  · exact ih.cblock _ _ h
  · exact .pipeCall _ _ _ _ (ih.check _ _ h)
  · split at h
    · rename_i u hs
      rw [← (Ty.beq_iff _ _).1 h]
      exact ih.synth _ _ hs
    · cases h

theorem callee_succ (D : Decls) (n : Nat) (ih : SoundAt D n) (f : Expr) (ps : List Ty) (r : Ty) (inst : Bool)
    (h : calleeScheme D (n + 1) f = some (ps, r, inst)) (σ : Subst) (hσ : inst = false → σ = []) :
    HasType D f (.fn (ps.map (substTy σ)) (substTy σ r)) := by
  unfold calleeScheme at h
  split at h
  · rename_i name
    split at h
    · rename_i sig hs
      split at h
      · rename_i ps' r' hty
        cases h
        have := HasType.fnref name sig σ hs
        rw [hty, substTy] at this
        exact this
      · cases h
    · cases h
  · rename_i name
    split at h
    · rename_i labels fts r' hs
      split at h
      · cases h
      · rename_i he
        have he : fts ≠ [] := by simpa using he
        cases h
        have := HasType.ctorFn name labels _ _ σ hs he
        rw [substTy] at this
        exact this
    · cases h
  · split at h
    · rename_i ps' r' hs
      cases h
      rw [hσ rfl, substTys_nil, substTy_nil]
      exact ih.synth _ _ hs
    · cases h

theorem clauses_succ (D : Decls) (n : Nat) (ih : SoundAt D n) (cl : List (List Pat × Expr)) (ts : List Ty) (t : Ty)
    (h : clausesOk D (n + 1) cl ts t = true) : ∀ c, c ∈ cl → c.1.length = ts.length ∧
    (∀ (i : Nat) p u, c.1[i]? = some p → ts[i]? = some u → PatOk D p u) ∧ HasType D c.2 t := by
  unfold clausesOk at h
  rw [List.all_eq_true] at h
  intro c hc
  have := h c hc
  simp only [Bool.and_eq_true, beq_iff_eq] at this
  exact ⟨this.1.1, fun i p u hp hu => checkPat_sound' D 64 p u (all_zip_get _ _ _ this.1.2 i p u hp hu),
    ih.check _ _ this.2⟩

theorem opt_match_some {α} (te : Option Ty) (k : Ty → Option α) (r : α)
    (h : (match te with | none => none | some u => k u) = some r) : ∃ u, te = some u ∧ k u = some r := by
  cases te with
  | none => cases h
  | some u => exact ⟨u, rfl, h⟩

theorem ite_some {α} (c : Bool) (x : Option α) (r : α) (h : (if c = true then x else none) = some r) :
    c = true ∧ x = some r := by
  cases c with
  | false => cases h
  | true => exact ⟨rfl, h⟩

theorem opt_match_true (te : Option Ty) (k : Ty → Bool)
    (h : (match te with | none => false | some u => k u) = true) : ∃ u, te = some u ∧ k u = true := by
  cases te with
  | none => cases h
  | some u => exact ⟨u, rfl, h⟩

theorem sblock_succ (D : Decls) (n : Nat) (ih : SoundAt D n) (ss : List (Option Pat × Expr)) (t : Ty)
    (h : synthBlock D (n + 1) ss = some t) : HasType D (.block ss) t := by
  cases ss with
  | nil => simp [synthBlock] at h
  | cons s rest =>
    obtain ⟨p, e⟩ := s
    unfold synthBlock at h
    obtain ⟨u, hte, h2⟩ := opt_match_some _ _ _ h
    have he := stmt_te D n ih p e u hte
    obtain ⟨hp, h3⟩ := ite_some _ _ _ h2
    clear h h2
    have hp' := stmt_pat D p u hp
    split at h3
    · rename_i hr
      have hr : rest = [] := by simpa using hr
      subst hr
      cases h3
      exact .blockLast p e _ he hp'
    · rename_i hr
      have hr : rest ≠ [] := by simpa using hr
      exact .blockCons p e u rest t he hp' hr (ih.sblock _ _ h3)

theorem cblock_succ (D : Decls) (n : Nat) (ih : SoundAt D n) (ss : List (Option Pat × Expr)) (t : Ty)
    (h : checkBlock D (n + 1) ss t = true) : HasType D (.block ss) t := by
  cases ss with
  | nil => simp [checkBlock] at h
  | cons s rest =>
    obtain ⟨p, e⟩ := s
    cases rest with
    | nil =>
      unfold checkBlock at h
      rw [Bool.and_eq_true] at h
      exact .blockLast p e _ (ih.check _ _ h.1) (stmt_pat D p _ h.2)
    | cons s2 rest =>
      unfold checkBlock at h
      obtain ⟨u, hte, h2⟩ := opt_match_true _ _ h
      have he := stmt_te D n ih p e u hte
      rw [Bool.and_eq_true] at h2
      exact .blockCons p e u _ _ he (stmt_pat D p u h2.1) (by simp) (ih.cblock _ _ h2.2)

theorem soundAt (D : Decls) : ∀ n, SoundAt D n := by
  intro n
  induction n with
  | zero =>
    exact ⟨fun e t h => by simp [synth] at h, fun e t h => by simp [check] at h,
      fun f ps r inst h => by simp [calleeScheme] at h, fun cl ts t h => by simp [clausesOk] at h,
      fun ss t h => by simp [synthBlock] at h, fun ss t h => by simp [checkBlock] at h⟩
  | succ n ih =>
    exact ⟨synth_succ D n ih, check_succ D n ih, fun f ps r inst h σ hσ => callee_succ D n ih f ps r inst h σ hσ,
      clauses_succ D n ih, sblock_succ D n ih, cblock_succ D n ih⟩

/-! ## annotations -/

theorem annOk_sound : ∀ (ps : List Ty) (anns : List (Option Ty)), annOk ps anns = true →
    ∀ (i : Nat) t a, ps[i]? = some t → anns[i]? = some (some a) → t = a := by
  intro ps
  induction ps with
  | nil => intro anns _ i t a ht; simp at ht
  | cons p ps ih =>
    intro anns h i t a ht ha
    cases anns with
    | nil => simp at ha
    | cons x xs =>
      unfold annOk at h
      rw [Bool.and_eq_true] at h
      cases i with
      | zero =>
        simp at ht ha
        subst ht; subst ha
        exact (Ty.beq_iff _ _).1 h.1
      | succ j =>
        simp at ht ha
        exact ih xs h.2 j t a ht ha

end Glas.TySpec
