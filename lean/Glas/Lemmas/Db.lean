import Glas.Model.Db
/-!
# Lemmas about M-db (`Glas.Model.Db`): association lists with "last write wins", `setFileRoots`,
and the invariant relating the inputs after a history to the workspace the history leaves behind.
-/
namespace Glas.Db
open Glas.Project

/-! ## `getKey` / `setKey` -/

theorem getKey_filter_ne {α} (m : List (Nat × α)) (k x : Nat) :
    getKey (m.filter (fun p => p.1 != k)) x = if k = x then none else getKey m x := by
  induction m with
  | nil => simp [getKey]
  | cons a r ih =>
    obtain ⟨a, b⟩ := a
    by_cases hak : a = k
    · subst hak
      simp only [List.filter_cons, bne_self_eq_false, Bool.false_eq_true, if_false, ih, getKey]
      by_cases hax : a = x <;> simp [hax]
    · have : (a != k) = true := by simp [hak]
      simp only [List.filter_cons, this, if_true, getKey, ih]
      by_cases hax : a = x
      · subst hax
        have : ¬ k = a := fun h => hak h.symm
        simp [this]
      · simp [hax]

theorem getKey_setKey {α} (m : List (Nat × α)) (k : Nat) (v : α) (x : Nat) :
    getKey (setKey m k v) x = if k = x then some v else getKey m x := by
  simp only [setKey, getKey, getKey_filter_ne]
  by_cases h : k = x <;> simp [h]

/-- the fold of `setKey` used for `content` (both in `applyChange` and in the document store) -/
theorem getKey_foldl_congr {α} (fs : List (Nat × α)) (a b : List (Nat × α))
    (h : ∀ x, getKey a x = getKey b x) :
    ∀ x, getKey (fs.foldl (fun acc f => setKey acc f.1 f.2) a) x
        = getKey (fs.foldl (fun acc f => setKey acc f.1 f.2) b) x := by
  induction fs generalizing a b with
  | nil => simpa using h
  | cons f fs ih =>
    simp only [List.foldl_cons]
    apply ih
    intro x
    simp [getKey_setKey, h]

/-- a key that is not written keeps its value -/
theorem getKey_foldl_not_mem {α} (fs : List (Nat × α)) (a : List (Nat × α)) (x : Nat)
    (h : ∀ v, (x, v) ∉ fs) :
    getKey (fs.foldl (fun acc f => setKey acc f.1 f.2) a) x = getKey a x := by
  induction fs generalizing a with
  | nil => rfl
  | cons f fs ih =>
    simp only [List.foldl_cons]
    rw [ih]
    · rw [getKey_setKey]
      have : ¬ f.1 = x := by
        intro hf
        apply h f.2
        rw [← hf]
        exact List.mem_cons_self
      simp [this]
    · intro v hv
      exact h v (List.mem_cons_of_mem _ hv)

/-- last write wins: if every write to `x` in `fs` writes `t` and there is one, the result is `t` -/
theorem getKey_foldl_last {α} (fs : List (Nat × α)) (a : List (Nat × α)) (x : Nat) (t : α)
    (hmem : (x, t) ∈ fs) (hall : ∀ t', (x, t') ∈ fs → t' = t) :
    getKey (fs.foldl (fun acc f => setKey acc f.1 f.2) a) x = some t := by
  induction fs generalizing a with
  | nil => cases hmem
  | cons f fs ih =>
    simp only [List.foldl_cons]
    by_cases hlater : ∃ t', (x, t') ∈ fs
    · obtain ⟨t', ht'⟩ := hlater
      have : t' = t := hall t' (List.mem_cons_of_mem _ ht')
      subst this
      exact ih _ ht' (fun t'' h => hall t'' (List.mem_cons_of_mem _ h))
    · have hno : ∀ v, (x, v) ∉ fs := fun v hv => hlater ⟨v, hv⟩
      rw [getKey_foldl_not_mem _ _ _ hno, getKey_setKey]
      have hf : f = (x, t) := by
        rcases List.mem_cons.1 hmem with h | h
        · exact h.symm
        · exact absurd h (hno t)
      subst hf
      simp

/-- keys are distinct (what `setKey` maintains) -/
def Uniq {α} : List (Nat × α) → Prop
  | [] => True
  | (k, _) :: r => getKey r k = none ∧ Uniq r

theorem uniq_filter_ne {α} (m : List (Nat × α)) (k : Nat) (h : Uniq m) :
    Uniq (m.filter (fun p => p.1 != k)) := by
  induction m with
  | nil => simp [Uniq]
  | cons a r ih =>
    obtain ⟨a, b⟩ := a
    obtain ⟨h1, h2⟩ := h
    by_cases hak : a = k
    · subst hak
      simpa [List.filter_cons] using ih h2
    · have : (a != k) = true := by simp [hak]
      simp only [List.filter_cons, this, if_true]
      refine ⟨?_, ih h2⟩
      rw [getKey_filter_ne, h1]
      simp

theorem uniq_setKey {α} (m : List (Nat × α)) (k : Nat) (v : α) (h : Uniq m) : Uniq (setKey m k v) := by
  refine ⟨?_, uniq_filter_ne m k h⟩
  rw [getKey_filter_ne]
  simp

theorem uniq_foldl {α} (fs : List (Nat × α)) (a : List (Nat × α)) (h : Uniq a) :
    Uniq (fs.foldl (fun acc f => setKey acc f.1 f.2) a) := by
  induction fs generalizing a with
  | nil => exact h
  | cons f fs ih => exact ih _ (uniq_setKey _ _ _ h)

/-- replaying an association list with distinct keys into another one -/
theorem getKey_foldl_uniq {α} (m : List (Nat × α)) (a : List (Nat × α)) (hm : Uniq m) (x : Nat) :
    getKey (m.foldl (fun acc f => setKey acc f.1 f.2) a) x
      = match getKey m x with
        | some v => some v
        | none => getKey a x := by
  induction m generalizing a with
  | nil => rfl
  | cons p r ih =>
    obtain ⟨k, v⟩ := p
    obtain ⟨h1, h2⟩ := hm
    simp only [List.foldl_cons]
    rw [ih _ h2, getKey_setKey]
    by_cases hkx : k = x
    · subst hkx
      simp [getKey, h1]
    · simp [getKey, hkx]

theorem getKey_foldl_nil_uniq {α} (m : List (Nat × α)) (hm : Uniq m) (x : Nat) :
    getKey (m.foldl (fun acc f => setKey acc f.1 f.2) []) x = getKey m x := by
  rw [getKey_foldl_uniq m [] hm]
  cases getKey m x <;> simp [getKey]

/-! ## `setFileRoots` -/

theorem liveFiles_cons (r : Root) (rs : List Root) :
    liveFiles (r :: rs) = r.files.map (fun f => f.1) ++ liveFiles rs := by
  simp [liveFiles]

theorem getKey_foldl_sid_not_mem (fs : List (Nat × Path)) (fr : List (Nat × Nat)) (sid x : Nat)
    (h : x ∉ fs.map (fun f => f.1)) :
    getKey (fs.foldl (fun acc f => setKey acc f.1 sid) fr) x = getKey fr x := by
  induction fs generalizing fr with
  | nil => rfl
  | cons f fs ih =>
    simp only [List.map_cons, List.mem_cons, not_or] at h
    simp only [List.foldl_cons]
    rw [ih _ h.2, getKey_setKey]
    have : ¬ f.1 = x := fun e => h.1 e.symm
    simp [this]

theorem getKey_foldl_sid_mem (fs : List (Nat × Path)) (fr : List (Nat × Nat)) (sid x : Nat)
    (h : x ∈ fs.map (fun f => f.1)) :
    getKey (fs.foldl (fun acc f => setKey acc f.1 sid) fr) x = some sid := by
  induction fs generalizing fr with
  | nil => cases h
  | cons f fs ih =>
    simp only [List.foldl_cons]
    by_cases hl : x ∈ fs.map (fun f => f.1)
    · exact ih _ hl
    · rw [getKey_foldl_sid_not_mem _ _ _ _ hl, getKey_setKey]
      simp only [List.map_cons, List.mem_cons] at h
      rcases h with h | h
      · simp [h]
      · exact absurd h hl

/-- files of no root in the list keep their `file_source_root` -/
theorem getKey_setFileRoots_not_live (roots : List Root) (fr : List (Nat × Nat)) (sid x : Nat)
    (h : x ∉ liveFiles roots) :
    getKey (setFileRoots fr roots sid) x = getKey fr x := by
  induction roots generalizing fr sid with
  | nil => rfl
  | cons r rs ih =>
    rw [liveFiles_cons, List.mem_append, not_or] at h
    simp only [setFileRoots]
    rw [ih _ _ h.2, getKey_foldl_sid_not_mem _ _ _ _ h.1]

/-- for a file of some root in the list, `file_source_root` after the loop does not depend on what it was before -/
theorem getKey_setFileRoots_live (roots : List Root) (fr fr' : List (Nat × Nat)) (sid x : Nat)
    (h : x ∈ liveFiles roots) :
    getKey (setFileRoots fr roots sid) x = getKey (setFileRoots fr' roots sid) x := by
  induction roots generalizing fr fr' sid with
  | nil => cases h
  | cons r rs ih =>
    simp only [setFileRoots]
    by_cases hl : x ∈ liveFiles rs
    · exact ih _ _ _ hl
    · rw [liveFiles_cons, List.mem_append] at h
      have hx : x ∈ r.files.map (fun f => f.1) := by
        rcases h with h | h
        · exact h
        · exact absurd h hl
      rw [getKey_setFileRoots_not_live _ _ _ _ hl, getKey_setFileRoots_not_live _ _ _ _ hl,
        getKey_foldl_sid_mem _ _ _ _ hx, getKey_foldl_sid_mem _ _ _ _ hx]

/-! ## the invariant between the inputs and the workspace -/

/-- one step of the document store (the body of `finalWorkspace`) -/
def stepWorkspace (w : Workspace) (c : Change) : Workspace :=
  { roots := c.roots.getD w.roots, graph := c.graph.getD w.graph,
    content := c.files.foldl (fun acc f => setKey acc f.1 f.2) w.content }

/-- what the inputs `i` and the workspace `w` agree on -/
structure Agrees (i : Inputs) (w : Workspace) : Prop where
  graph : i.graph = w.graph
  roots : i.roots.take w.roots.length = w.roots
  moduleMaps : i.moduleMaps.take w.roots.length = w.roots.map moduleMapOf
  content : ∀ f, getKey i.content f = getKey w.content f
  fileRoot : ∀ f ∈ liveFiles w.roots, getKey i.fileRoot f = getKey (setFileRoots [] w.roots 0) f

theorem agrees_empty : Agrees empty { roots := [], graph := [], content := [] } := by
  constructor <;> simp [empty, liveFiles]

theorem agrees_step (i : Inputs) (w : Workspace) (c : Change) (h : Agrees i w) :
    Agrees (applyChange i c) (stepWorkspace w c) := by
  obtain ⟨og, or, fs⟩ := c
  obtain ⟨hg, hr, hm, hc, hf⟩ := h
  constructor
  · cases og <;> cases or <;> simp [applyChange, stepWorkspace, hg]
  · cases og <;> cases or <;> simp [applyChange, stepWorkspace, hr]
  · cases og <;> cases or <;> simp [applyChange, stepWorkspace, hm] <;>
      exact List.take_left' (by simp)
  · intro f
    have : (applyChange i ⟨og, or, fs⟩).content
        = fs.foldl (fun acc f => setKey acc f.1 f.2) i.content := by
      cases og <;> cases or <;> rfl
    rw [this]
    exact getKey_foldl_congr fs _ _ hc f
  · intro f hfl
    cases or with
    | none =>
      have : (applyChange i ⟨og, none, fs⟩).fileRoot = i.fileRoot := by cases og <;> rfl
      rw [this]
      exact hf f hfl
    | some rs =>
      have : (applyChange i ⟨og, some rs, fs⟩).fileRoot = setFileRoots i.fileRoot rs 0 := by
        cases og <;> rfl
      rw [this]
      exact getKey_setFileRoots_live rs _ _ 0 f hfl

/-- a fresh analysis of a workspace whose content has distinct keys agrees with it -/
theorem agrees_snapshot (w : Workspace) (hu : Uniq w.content) :
    Agrees (applyChange empty (snapshotChange w)) w := by
  constructor
  · simp [applyChange, snapshotChange]
  · simp [applyChange, snapshotChange, empty]
  · simp only [applyChange, snapshotChange, empty, List.drop_nil, List.append_nil]
    exact List.take_of_length_le (by simp)
  · intro f
    exact getKey_foldl_nil_uniq w.content hu f
  · intro f _
    rfl

/-- the view is determined by the workspace the inputs agree with -/
theorem view_of_agrees (i : Inputs) (w : Workspace) (h : Agrees i w) :
    view i w.roots.length
      = { roots := w.roots, moduleMaps := w.roots.map moduleMapOf, graph := w.graph,
          files := (liveFiles w.roots).map
            (fun f => (f, getKey w.content f, getKey (setFileRoots [] w.roots 0) f)) } := by
  obtain ⟨hg, hr, hm, hc, hf⟩ := h
  simp only [view, hr, hm, hg]
  congr 1
  apply List.map_congr_left
  intro f hfl
  rw [hc f, hf f hfl]

end Glas.Db
