import Glas.Model.Tree
import Glas.Model.SyntaxSpec
/-! A well-shaped program and a `PolicyOK` policy on which the tree builder fails: `PolicyOK` does
not say that the *root* kind starts its node before eating trivia. -/
namespace Glas.Lemmas.Tree.Counter
open Glas.Dsl Glas.Tree Glas.SyntaxSpec

def pMain : Proc := ⟨"main", 0, 1,
  (.seq (.open 0) (.seq (.loop (.ite (.not .eof) (.call 1 [] [] .none) .brk)) (.close 0 7 none)))⟩
def pStmt : Proc := ⟨"stmt", 0, 0, .bump⟩
def prog : Prog := ⟨[pMain, pStmt], [], 10, 0, 1, 0⟩

def triv (k : Kind) : Bool := k == 3

/-- every kind (also the root's) eats leading trivia *before* `start_node` -/
def policy : Policy where
  onOpen := fun _ => [.eat triv, .start]
  advPred := triv
  advExtra := 1
  popLast := true
  finalFlush := some triv
  finalClose := true

def raw : List RawTok := [(3, [' ']), (5, ['a'])]

def events : List Ev := [.open 7 0 true, .adv, .close]

theorem prog_mainShape : MainShape prog := ⟨_, _, rfl⟩

theorem policy_ok : PolicyOK policy triv where
  pop := rfl
  fin := rfl
  flush := ⟨_, rfl, fun _ => rfl⟩
  extra := rfl
  adv := fun _ => rfl
  opens := by
    intro k p k' hm hp
    simp [policy] at hm
    subst hm
    exact hp
  oneStart := fun _ => rfl

theorem run_ok :
    (match runMain prog 10 ((raw.filter (fun t => !triv t.1)).map (fun t => t.1)) with
     | .ok σ => σ.events == events
     | _ => false) = true := by decide

theorem build_fails : (match buildTree policy events raw with
    | .error .finishNotOne => true
    | _ => false) = true := by decide

/-- the statement of `buildTree_lossless` for arbitrary well-shaped `P` and `PolicyOK` `π` is false -/
theorem refutation :
    ¬ ∀ (P : Prog) (π : Policy) (triv : Kind → Bool), MainShape P → PolicyOK π triv →
      ∀ (n : Nat) (raw : List RawTok) (σ : St),
        runMain P n ((raw.filter (fun t => !triv t.1)).map (fun t => t.1)) = .ok σ →
        ∃ t, buildTree π σ.events raw = .ok t ∧ t.leaves = raw := by
  intro H
  have hrun := run_ok
  cases hr : runMain prog 10 ((raw.filter (fun t => !triv t.1)).map (fun t => t.1)) with
  | ok σ =>
    rw [hr] at hrun
    have hev : σ.events = events := by simpa using hrun
    obtain ⟨t, ht, _⟩ := H prog policy triv prog_mainShape policy_ok 10 raw σ hr
    have hb := build_fails
    rw [hev] at ht
    rw [ht] at hb
    exact absurd hb (by simp)
  | panic w σ => rw [hr] at hrun; exact absurd hrun (by simp)
  | oof => rw [hr] at hrun; exact absurd hrun (by simp)

end Glas.Lemmas.Tree.Counter
