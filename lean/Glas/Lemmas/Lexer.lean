import Glas.Model.Lexer
/-! Lemmas about the lexer model: the tokens tile the input. -/
namespace Glas.Lemmas.Lexer
open Glas.Dsl Glas.Lexer

theorem lexFuel_cons (rules : List Rule) (ek : Kind) (f : Nat) (c : Char) (cs : List Char) :
    ∃ k n, 1 ≤ n ∧ lexFuel rules ek (f + 1) (c :: cs) =
      (k, (c :: cs).take n) :: lexFuel rules ek f ((c :: cs).drop n) := by
  refine ⟨(nextToken (f + 1) rules ek (c :: cs)).1,
    (if (nextToken (f + 1) rules ek (c :: cs)).2 = 0 then 1 else (nextToken (f + 1) rules ek (c :: cs)).2), ?_, ?_⟩
  · split <;> omega
  · simp only [lexFuel]

theorem lexFuel_tiles (rules : List Rule) (ek : Kind) :
    ∀ (f : Nat) (s : List Char), s.length ≤ f →
      ((lexFuel rules ek f s).map (fun t => t.2)).flatten = s ∧
      ∀ t ∈ lexFuel rules ek f s, t.2 ≠ [] := by
  intro f
  induction f with
  | zero =>
    intro s hs
    have : s = [] := List.length_eq_zero_iff.mp (by omega)
    subst this
    simp [lexFuel]
  | succ f ih =>
    intro s hs
    cases s with
    | nil => simp [lexFuel]
    | cons c cs =>
      obtain ⟨k, n, hn, heq⟩ := lexFuel_cons rules ek f c cs
      rw [heq]
      have hlen : ((c :: cs).drop n).length ≤ f := by
        simp only [List.length_drop, List.length_cons] at hs ⊢; omega
      obtain ⟨ih1, ih2⟩ := ih _ hlen
      refine ⟨?_, ?_⟩
      · simp only [List.map_cons, List.flatten_cons, ih1, List.take_append_drop]
      · intro t ht
        rcases List.mem_cons.mp ht with rfl | ht
        · obtain ⟨m, rfl⟩ : ∃ m, n = m + 1 := ⟨n - 1, by omega⟩
          simp
        · exact ih2 t ht

end Glas.Lemmas.Lexer
