import Glas.Lemmas.CheckSound
/-!
# The recursion depth of a checked program is at most linear in the number of tokens

`St.depth` counts the open procedure activations, `St.maxDepth` its maximum over the run.  For a program
that passes `Check.checkWith`, a callee entered before its caller has consumed anything has a smaller rank
(`callOk`), so along any chain of nested activations the potential `R * entry position + (R - rank)`
(`R = rankBound Γ`, strictly above every rank) strictly increases, and it never exceeds `R * (len + 1)`:

  `maxDepth ≤ rankBound Γ * (toks.length + 1)`.

The induction reuses `Check.sound` as a black box for the abstract states that match the intermediate
concrete states.  (No constant bound exists on the current tree: the recorded finding
`C02/abort/unbounded-recursion`; this theorem says how fast the depth can grow at most.)
-/
namespace Glas.Check
open Glas.Dsl

variable {Γ : List Summ} {P : Prog}

/-- every outcome that carries on leaves the depth where it was and never lowers the recorded maximum -/
def DepthKeep (σ : St) : Out → Prop
  | .norm σ' _ | .brk σ' _ | .ret σ' _ => σ'.depth = σ.depth
  | _ => True

theorem evalIn_depth {P : Prog} {σ σ' : St} {fr : Frame} {e : Expr} {v : Nat}
    (h : evalIn P σ fr e = some (v, σ')) : σ'.depth = σ.depth ∧ σ'.maxDepth = σ.maxDepth := by
  unfold evalIn at h
  simp only [] at h
  split at h
  · cases h
  · cases h; exact ⟨rfl, rfl⟩

theorem evalArgs_depth {P : Prog} {fr : Frame} {es : List Expr} :
    ∀ {σ σ' : St} {vs : List Nat}, evalArgs P σ fr es = some (vs, σ') →
      σ'.depth = σ.depth ∧ σ'.maxDepth = σ.maxDepth := by
  induction es with
  | nil => intro σ σ' vs h; simp only [evalArgs] at h; cases h; exact ⟨rfl, rfl⟩
  | cons e es ih =>
    intro σ σ' vs h
    simp only [evalArgs] at h
    split at h
    · cases h
    · rename_i v σ1 h1
      split at h
      · cases h
      · rename_i vs' σ2 h2
        cases h
        have a := evalIn_depth h1
        have b := ih h2
        exact ⟨b.1.trans a.1, b.2.trans a.2⟩

theorem exec_depthKeep (P : Prog) (n : Nat) : ∀ (s : Stmt) (σ : St) (fr : Frame), DepthKeep σ (exec P n s σ fr) := by
  induction n with
  | zero => intro s σ fr; trivial
  | succ n ih =>
    intro s σ fr
    cases s with
    | skip => exact rfl
    | bump => simp only [exec]; split <;> first | exact rfl | trivial
    | err c a => exact rfl
    | «open» m => exact rfl
    | openBefore m' m =>
      simp only [exec]
      split
      · trivial
      · split
        · split
          · exact rfl
          · trivial
        · trivial
    | close m k dst =>
      simp only [exec]
      split
      · trivial
      · split
        · split
          · cases dst <;> exact rfl
          · trivial
        · trivial
    | assert c =>
      simp only [exec]
      split
      · trivial
      · rename_i v σ' h1
        split
        · exact (evalIn_depth h1).1
        · trivial
    | set x e =>
      simp only [exec]
      split
      · trivial
      · rename_i v σ' h1; exact (evalIn_depth h1).1
    | seq a b =>
      rw [exec_seq]
      have ha := ih a σ fr
      generalize exec P n a σ fr = o at ha
      cases o with
      | norm σ' fr' =>
        have hb := ih b σ' fr'
        simp only []
        generalize exec P n b σ' fr' = o2 at hb
        cases o2 <;> simp only [DepthKeep] at ha hb ⊢ <;> first | exact hb.trans ha | trivial
      | _ => exact ha
    | ite c t e =>
      rw [exec_ite]
      split
      · trivial
      · rename_i v σ' h1
        have hd := (evalIn_depth h1).1
        split
        · have hb := ih t σ' fr
          generalize exec P n t σ' fr = o2 at hb
          cases o2 <;> simp only [DepthKeep] at hb ⊢ <;> first | exact hb.trans hd | trivial
        · have hb := ih e σ' fr
          generalize exec P n e σ' fr = o2 at hb
          cases o2 <;> simp only [DepthKeep] at hb ⊢ <;> first | exact hb.trans hd | trivial
    | loop b =>
      rw [exec_loop]
      have ha := ih b σ fr
      generalize exec P n b σ fr = o at ha
      cases o with
      | norm σ' fr' =>
        have hb := ih (.loop b) σ' fr'
        simp only []
        generalize exec P n (.loop b) σ' fr' = o2 at hb
        cases o2 <;> simp only [DepthKeep] at ha hb ⊢ <;> first | exact hb.trans ha | trivial
      | brk σ' fr' => exact ha
      | _ => exact ha
    | brk => exact rfl
    | ret r =>
      cases r with
      | unit => exact rfl
      | nat e =>
        simp only [exec]
        split
        · trivial
        · rename_i v σ' h1; exact (evalIn_depth h1).1
      | mark m => simp only [exec]; split <;> first | exact rfl | trivial
      | noMark => exact rfl
    | call f args margs dst =>
      rw [exec_call]
      split
      · trivial
      · rename_i p hp
        split
        · trivial
        · rename_i vs σ1 hargs
          have hd := (evalArgs_depth hargs).1
          have hb := ih p.body (calleeSt σ1) (calleeFr p vs (takeMarks fr margs).1)
          generalize exec P n p.body (calleeSt σ1) (calleeFr p vs (takeMarks fr margs).1) = o at hb
          cases o with
          | norm σ' fr' =>
            simp only [finCall]
            split
            · simp only [DepthKeep] at hb ⊢
              rw [hb]; simp only [calleeSt]; omega
            · trivial
          | ret σ' v =>
            simp only [finCall]
            split
            · simp only [DepthKeep] at hb ⊢
              rw [hb]; simp only [calleeSt]; omega
            · trivial
          | brk σ' fr' => trivial
          | panic w σ' => trivial
          | oof => trivial

/-- the potential of an activation of rank `r` entered at position `p` -/
def pot (R r p : Nat) : Nat := R * p + (R - r)

/-- the maximum stays below `B` in every outcome that carries on -/
def MaxLe (B : Nat) : Out → Prop
  | .norm σ' _ | .brk σ' _ | .ret σ' _ => σ'.maxDepth ≤ B
  | _ => True

def DepthAt (Γ : List Summ) (P : Prog) (m : Nat) : Prop :=
  ∀ (nl self : Nat) (st : Stmt) (as : List AState) (r : Res) (a : AState) (refs : List Nat)
    (σ : St) (fr : Frame),
    self ≤ rankBound Γ → refs ≠ [] →
    aexecL Γ P.eofKind nl self st as = some r → a ∈ as →
    G P.eofKind a refs σ.toks σ.pos fr.locals → nl ≤ fr.locals.length →
    σ.depth ≤ pot (rankBound Γ) self (lastRef refs) →
    σ.maxDepth ≤ rankBound Γ * (σ.toks.length + 1) →
    MaxLe (rankBound Γ * (σ.toks.length + 1)) (exec P m st σ fr)

theorem depth_succ (hck : checkWith Γ P = true) (n : Nat) (ih : ∀ k, k < n + 1 → DepthAt Γ P k) :
    DepthAt Γ P (n + 1) := by
  intro nl self st as r a refs σ fr hself hrefs hae ha hG hnl hd hmx
  have IH := ih n (Nat.lt_succ_self n)
  cases st with
  | skip => exact hmx
  | brk => exact hmx
  | ret rv =>
    cases rv with
    | unit => exact hmx
    | noMark => exact hmx
    | nat e =>
      simp only [exec]
      split
      · trivial
      · rename_i v σ' he
        show σ'.maxDepth ≤ _
        rw [(evalIn_depth he).2]; exact hmx
    | mark k => simp only [exec]; split <;> first | exact hmx | trivial
  | err c x => exact hmx
  | «open» k => exact hmx
  | openBefore k k' =>
    simp only [exec]
    split
    · trivial
    · split
      · split
        · exact hmx
        · trivial
      · trivial
  | close k kd d =>
    simp only [exec]
    split
    · trivial
    · split
      · split
        · cases d <;> exact hmx
        · trivial
      · trivial
  | bump => simp only [exec]; split <;> first | exact hmx | trivial
  | assert c =>
    simp only [exec]
    split
    · trivial
    · rename_i v σ' he
      split
      · show σ'.maxDepth ≤ _
        rw [(evalIn_depth he).2]; exact hmx
      · trivial
  | set x e =>
    simp only [exec]
    split
    · trivial
    · rename_i v σ' he
      show σ'.maxDepth ≤ _
      rw [(evalIn_depth he).2]; exact hmx
  | seq s1 s2 =>
    simp only [aexecL] at hae
    split at hae
    · cases hae
    · rename_i r1 h1
      split at hae
      · cases hae
      · rename_i r2 h2
        cases hae
        have hS := sound hck n nl self s1 as r1 a refs σ fr hself hrefs h1 ha hG hnl
        have hX := IH nl self s1 as r1 a refs σ fr hself hrefs h1 ha hG hnl hd hmx
        have hK := exec_depthKeep P n s1 σ fr
        rw [exec_seq]
        generalize exec P n s1 σ fr = o1 at hS hX hK
        cases o1 with
        | norm σ' fr' =>
          obtain ⟨ht, hp, hl, a', ha', hG'⟩ := hS
          simp only []
          have := IH nl self s2 r1.norm r2 a' refs σ' fr' hself hrefs h2 ha' hG' (by omega)
            (by rw [show σ'.depth = σ.depth from hK]; exact hd) (by rw [ht]; exact hX)
          rw [ht] at this; exact this
        | brk σ' fr' => exact hX
        | ret σ' v => exact hX
        | panic w σ' => trivial
        | oof => trivial
  | ite c t e =>
    simp only [aexecL] at hae
    split at hae
    · cases hae
    · rename_i r1 h1
      split at hae
      · cases hae
      · rename_i r2 h2
        cases hae
        rw [exec_ite]
        split
        · trivial
        · rename_i v σ' he
          obtain ⟨hv, h2', h3⟩ := evalIn_some he
          obtain ⟨hd', hm'⟩ := evalIn_depth he
          have hrs := refine_sound (P := P) c a hG
          by_cases hv0 : v = 0
          · rw [if_neg (by simp [hv0])]
            obtain ⟨a', ha', hG'⟩ := hrs.2 (by rw [← hv]; exact hv0)
            have hG'' : G P.eofKind a' refs σ'.toks σ'.pos fr.locals := by rw [h2', h3]; exact hG'
            have := IH nl self e _ r2 a' refs σ' fr hself hrefs h2
              (mem_dedup.mpr (List.mem_flatMap.mpr ⟨a, ha, ha'⟩)) hG'' hnl (by rw [hd']; exact hd)
              (by rw [hm', h2']; exact hmx)
            rw [h2'] at this; exact this
          · rw [if_pos (by simpa using hv0)]
            obtain ⟨a', ha', hG'⟩ := hrs.1 (by rw [← hv]; exact hv0)
            have hG'' : G P.eofKind a' refs σ'.toks σ'.pos fr.locals := by rw [h2', h3]; exact hG'
            have := IH nl self t _ r1 a' refs σ' fr hself hrefs h1
              (mem_dedup.mpr (List.mem_flatMap.mpr ⟨a, ha, ha'⟩)) hG'' hnl (by rw [hd']; exact hd)
              (by rw [hm', h2']; exact hmx)
            rw [h2'] at this; exact this
  | loop b =>
    simp only [aexecL] at hae
    split at hae
    · cases hae
    · rename_i rb hb
      split at hae
      · rename_i hall
        cases hae
        have key : ∀ j, j ≤ n + 1 → ∀ (σ1 : St) (fr1 : Frame), σ1.toks = σ.toks → σ.pos ≤ σ1.pos →
            fr1.locals.length = fr.locals.length → σ1.depth = σ.depth →
            σ1.maxDepth ≤ rankBound Γ * (σ.toks.length + 1) →
            (∃ g ∈ unionL (as.map pushF) (dedup (as.map generic)),
              G P.eofKind g (σ1.pos :: refs) σ1.toks σ1.pos fr1.locals) →
            MaxLe (rankBound Γ * (σ.toks.length + 1)) (exec P j (.loop b) σ1 fr1) := by
          intro j
          induction j with
          | zero => intro _ σ1 fr1 _ _ _ _ _ _; rw [exec_zero]; trivial
          | succ j ihj =>
            intro hj σ1 fr1 ht1 hp1 hl1 hd1 hm1 hex
            obtain ⟨g, hg, hGg⟩ := hex
            have hS := sound hck j nl self b _ rb g (σ1.pos :: refs) σ1 fr1 hself (by simp) hb hg hGg (by omega)
            have hB := ih j (by omega) nl self b _ rb g (σ1.pos :: refs) σ1 fr1 hself (by simp) hb hg hGg
              (by omega) (by rw [lastRef_cons hrefs, hd1]; exact hd) (by rw [ht1]; exact hm1)
            have hK := exec_depthKeep P j b σ1 fr1
            rw [exec_loop]
            generalize exec P j b σ1 fr1 = ob at hS hB hK
            cases ob with
            | norm σ2 fr2 =>
              obtain ⟨ht, hp, hl, a', ha', hG'⟩ := hS
              have hh : headFlag a'.adv = true := List.all_eq_true.mp hall a' ha'
              have hlt := head_lt hG'.flags hh
              simp only []
              have hGgen : G P.eofKind (generic a) (σ2.pos :: refs) σ2.toks σ2.pos fr2.locals := by
                refine ⟨Cur.mem_top _, (fun x hx => by cases hx), (fun x S hx => by cases hx), ?_, hG'.le⟩
                show Flags (false :: a.adv.map (fun _ => true)) (σ2.pos :: refs) σ2.pos
                exact (hG.flags.consume (by omega)).push
              rw [ht1] at hB
              exact ihj (by omega) σ2 fr2 (ht.trans ht1) (by omega) (hl.trans hl1)
                ((show σ2.depth = σ1.depth from hK).trans hd1) hB
                ⟨generic a, mem_unionL.mpr (Or.inr (mem_dedup.mpr (List.mem_map.mpr ⟨a, ha, rfl⟩))), hGgen⟩
            | brk σ2 fr2 => rw [ht1] at hB; exact hB
            | ret σ2 v => rw [ht1] at hB; exact hB
            | panic w σ2 => trivial
            | oof => trivial
        exact key (n + 1) (Nat.le_refl _) σ fr rfl (Nat.le_refl _) rfl rfl hmx
          ⟨pushF a, mem_unionL.mpr (Or.inl (List.mem_map.mpr ⟨a, ha, rfl⟩)),
            ⟨hG.cur, hG.facts, hG.bfacts, hG.flags.push, hG.le⟩⟩
      · cases hae
  | call f args margs dst =>
    simp only [aexecL] at hae
    split at hae
    · cases hae
    · rename_i s hs
      split at hae
      · rename_i hall
        generalize (if (as.any fun a => !lastFlag a.adv) = true then [f] else []) = cs0 at hae
        cases hae
        have hok := List.all_eq_true.mp hall a ha
        simp only [callOk, Bool.and_eq_true, Bool.or_eq_true, decide_eq_true_eq] at hok
        obtain ⟨hpre, hrank⟩ := hok
        have hcall : lastRef refs < σ.pos ∨ s.rank < self := by
          rcases hrank with h | h
          · exact Or.inl (hG.flags.last h)
          · exact Or.inr h
        have hlr : lastRef refs ≤ σ.pos := hG.flags.lastRef_le hrefs
        rw [exec_call]
        split
        · trivial
        · rename_i p hp
          split
          · trivial
          · rename_i vs σ1 hargs
            obtain ⟨ht1, hp1⟩ := evalArgs_some hargs
            obtain ⟨hd1, hm1⟩ := evalArgs_depth hargs
            have hck' := hck
            simp only [checkWith, Bool.and_eq_true] at hck'
            have hcp := checkProcs_get hck'.1 hp hs
            unfold checkProc at hcp
            split at hcp
            · cases hcp
            · rename_i rp hrp
              have hsr := rank_lt_bound hs
              have hGinit : G P.eofKind (initState s) [σ.pos] (calleeSt σ1).toks (calleeSt σ1).pos
                  (calleeFr p vs (takeMarks fr margs).1).locals := by
                refine ⟨?_, (fun x hx => by cases hx), (fun x S hx => by cases hx), ?_, ?_⟩
                · show s.pre.mem σ1.toks[σ1.pos]? = true
                  rw [ht1, hp1]; exact Cur.mem_of_sub hpre hG.cur
                · show Flags [false] [σ.pos] σ1.pos
                  rw [hp1]; simp [Flags]
                · show σ1.pos ≤ σ1.toks.length
                  rw [ht1, hp1]; exact hG.le
              -- the callee's depth is below its potential, and that below the bound
              have hpotc : σ1.depth + 1 ≤ pot (rankBound Γ) s.rank σ.pos := by
                unfold pot at hd ⊢
                rw [hd1]
                rcases hcall with hlt | hrk
                · have h1 : rankBound Γ * (lastRef refs + 1) ≤ rankBound Γ * σ.pos := Nat.mul_le_mul_left _ hlt
                  rw [Nat.mul_succ] at h1
                  omega
                · have h1 : rankBound Γ * lastRef refs ≤ rankBound Γ * σ.pos := Nat.mul_le_mul_left _ hlr
                  omega
              have hpotB : pot (rankBound Γ) s.rank σ.pos ≤ rankBound Γ * (σ.toks.length + 1) := by
                unfold pot
                have h1 : rankBound Γ * σ.pos ≤ rankBound Γ * σ.toks.length := Nat.mul_le_mul_left _ hG.le
                rw [Nat.mul_succ]
                omega
              have hB := IH p.nLocals s.rank p.body [initState s] rp (initState s) [σ.pos] (calleeSt σ1)
                (calleeFr p vs (takeMarks fr margs).1) (Nat.le_of_lt hsr) (by simp) hrp
                (List.mem_singleton.mpr rfl) hGinit (by simp [calleeFr]; omega)
                (by show σ1.depth + 1 ≤ pot _ _ (lastRef [σ.pos]); simpa [lastRef] using hpotc)
                (by
                  show max σ1.maxDepth (σ1.depth + 1) ≤ rankBound Γ * (σ1.toks.length + 1)
                  rw [ht1, hm1]
                  exact Nat.max_le.mpr ⟨hmx, Nat.le_trans hpotc hpotB⟩)
              have ht1' : (calleeSt σ1).toks = σ.toks := ht1
              rw [ht1'] at hB
              generalize exec P n p.body (calleeSt σ1) (calleeFr p vs (takeMarks fr margs).1) = ob at hB
              cases ob with
              | norm σ' fr' =>
                simp only [finCall]
                split
                · exact hB
                · trivial
              | ret σ' v =>
                simp only [finCall]
                split
                · exact hB
                · trivial
              | brk σ' fr' => trivial
              | panic w σ' => trivial
              | oof => trivial
      · cases hae

theorem depthAt (hck : checkWith Γ P = true) : ∀ m, DepthAt Γ P m := by
  intro m
  induction m using Nat.strongRecOn with
  | _ m ih =>
    cases m with
    | zero =>
      intro nl self st as r a refs σ fr _ _ _ _ _ _ _ _
      rw [exec_zero]; trivial
    | succ n => exact depth_succ hck n ih

/-- **the recursion depth of a checked program grows at most linearly with the input** -/
theorem maxDepth_linear (hck : checkWith Γ P = true) (n : Nat) (toks : List Kind) (σ : St)
    (hr : runMain P n toks = .ok σ) : σ.maxDepth ≤ rankBound Γ * (toks.length + 1) := by
  obtain ⟨r, hr0⟩ := main_aexec hck
  have hG : G P.eofKind ⟨Cur.top, [], [], [false]⟩ [0] (initSt toks).toks (initSt toks).pos
      (⟨[], []⟩ : Frame).locals :=
    ⟨Cur.mem_top _, (fun x hx => by cases hx), (fun x S hx => by cases hx), by simp [Flags, initSt],
      Nat.zero_le _⟩
  have h := depthAt hck n 0 (rankBound Γ) _ _ r _ [0] (initSt toks) ⟨[], []⟩ (Nat.le_refl _) (by simp) hr0
    (List.mem_singleton.mpr rfl) hG (Nat.le_refl _) (by simp [initSt, pot]) (by simp [initSt])
  unfold runMain at hr
  generalize exec P n (.call P.main [] [] .none) (initSt toks) ⟨[], []⟩ = o at h hr
  cases o with
  | norm σ' fr' =>
    simp only [] at hr
    split at hr
    · cases hr
    · cases hr; exact h
  | brk σ' fr' => simp at hr
  | ret σ' v => simp at hr
  | panic w σ' => simp at hr
  | oof => simp at hr

end Glas.Check
