import Glas.Lemmas.TextSem
import Glas.Lemmas.TextCR
/-! `fromPos` / `fromRange` / `changeFileContent` / `applyChange`: exact values at client positions
(for C13) and totality (never `.panic`, for C15). -/
namespace Glas.Text

/-! ## `fromPos` at a character boundary -/

theorem le_lastLine_of_split (t : List Char) (la : List (List Char)) (l : List Char)
    (lb : List (List Char)) (h : splitLines t = la ++ l :: lb) :
    ¬ la.length > (lineMap t).lastLine := by
  have := lastLine_of_split t la l lb h
  omega

theorem fromPos_of_split (t : List Char) (la : List (List Char)) (x y : List Char)
    (lb : List (List Char)) (h : splitLines t = la ++ (x ++ y) :: lb)
    (hlt : lsum la + u8sum x < U32) :
    (lineMap t).fromPos la.length (u16sum x) = .ok (lsum la + u8sum x) := by
  have h1 := le_lastLine_of_split t la _ lb h
  have h2 := endColForLine_of_split t la _ lb h
  have h3 := posForLineCol_of_split t la x y lb h hlt
  have hmin : min (u16sum x) (u16sum (x ++ y)) = u16sum x := by
    rw [u16sum_append]; omega
  unfold LineMap.fromPos
  rw [if_neg h1]
  simp only [h2, hmin, h3]

/-- for a position the client computes, the clamp of `from_pos` is the identity -/
theorem fromPos_client (t : List Char) (k : Nat) (hlen : u8sum t < U32) :
    (lineMap t).fromPos (clientLineCol t k).1 (clientLineCol t k).2 = .ok (u8sum (t.take k)) := by
  obtain ⟨la, x, y, lb, ha, _, ht, hsum⟩ := split_take t k
  rw [clientLineCol_of_split t k la x ha, ← hsum]
  have := u8sum_take_le t k
  exact fromPos_of_split t la x y lb ht (by omega)

theorem fromPos_tracks (c : List Char) (k : Nat) (hwf : wfCRLF c = true) (hv : validIdx c k)
    (hlen : u8sum (stripCR c) < U32) :
    (lineMap (stripCR c)).fromPos (clientLineCol c k).1 (clientLineCol c k).2
      = .ok (u8sum (stripCR (c.take k))) := by
  rw [clientLineCol_strip c k hwf hv, fromPos_client _ _ hlen, (stripCR_take_drop c k).1]

theorem isBoundary_take (s : List Char) (n : Nat) : isBoundary s (u8sum (s.take n)) = true := by
  unfold isBoundary; rw [splitAtByte_take]; rfl

/-! ## totality -/

theorem posForCol_mono : ∀ (ds : List (Nat × Nat)) (c c' : Nat), c ≤ c' →
    posForCol ds c ≤ posForCol ds c' := by
  intro ds
  induction ds with
  | nil => intro c c' h; simpa [posForCol] using h
  | cons pd ds ih =>
    intro c c' h
    simp only [posForCol, List.foldl_cons]
    apply ih
    split <;> split <;> omega

/-- upper bound of the `pos_for_line_col` loop for every column up to the UTF-16 length of the
line — also for a column in the middle of a surrogate pair -/
theorem posForCol_le (cs : List Char) (c : Nat) (h : c ≤ u16sum cs) :
    posForCol (diffsOf cs 0) c ≤ u8sum cs := by
  have h1 := posForCol_mono (diffsOf cs 0) c (u16sum cs) h
  have h2 := posForCol_correct cs 0 cs.length (Nat.le_refl _)
  simp only [List.take_length, Nat.zero_add] at h2
  omega

theorem list_split_at {α : Type} (ls : List α) (n : Nat) (h : n < ls.length) :
    ∃ la l lb, ls = la ++ l :: lb ∧ la.length = n := by
  refine ⟨ls.take n, ls[n], ls.drop (n + 1), ?_, ?_⟩
  · rw [← List.drop_eq_getElem_cons h, List.take_append_drop]
  · rw [List.length_take]; omega

theorem lastLine_eq (t : List Char) : (lineMap t).lastLine = (splitLines t).length - 1 := by
  unfold LineMap.lastLine; rw [lineMap_lineStarts_length]

theorem fromPos_split_of_le (t : List Char) (line : Nat) (h : ¬ line > (lineMap t).lastLine) :
    ∃ la l lb, splitLines t = la ++ l :: lb ∧ la.length = line := by
  rw [lastLine_eq] at h
  have := splitLines_ne_nil t
  have hpos : 0 < (splitLines t).length := List.length_pos_iff.mpr this
  exact list_split_at _ line (by omega)

/-- `end_col_for_line` is defined for every line of the document -/
theorem endColForLine_some (t : List Char) (line : Nat) (h : ¬ line > (lineMap t).lastLine) :
    ∃ l, (splitLines t)[line]? = some l ∧ (lineMap t).endColForLine line = some (u16sum l) := by
  obtain ⟨la, l, lb, hs, hl⟩ := fromPos_split_of_le t line h
  refine ⟨l, ?_, ?_⟩
  · rw [hs, ← hl]; simp
  · rw [← hl]; exact endColForLine_of_split t la l lb hs

/-- `from_pos` either fails with an error or returns an offset; below the `u32` limit it never
panics -/
theorem fromPos_total (t : List Char) (line col : Nat) (hlen : u8sum t < U32) :
    (lineMap t).fromPos line col = .err ∨ ∃ p, (lineMap t).fromPos line col = .ok p := by
  unfold LineMap.fromPos
  by_cases h : line > (lineMap t).lastLine
  · left; rw [if_pos h]
  · right
    rw [if_neg h]
    obtain ⟨la, l, lb, hs, hl⟩ := fromPos_split_of_le t line h
    subst hl
    have h1 := lineStarts_split t la l lb hs
    have h2 := charDiffs_split t la l lb hs
    have h3 := endColForLine_of_split t la l lb hs
    have hb := posForCol_le l (min col (u16sum l)) (Nat.min_le_right _ _)
    have htot := lsum_splitLines t
    rw [hs, lsum_append, lsum_cons] at htot
    have hlt : lsum la + posForCol (diffsOf l 0) (min col (u16sum l)) < U32 := by omega
    simp only [h3, LineMap.posForLineCol, h1, h2, Option.getD_some, if_pos hlt]
    exact ⟨_, rfl⟩

theorem fromPos_ne_panic (t : List Char) (line col : Nat) (hlen : u8sum t < U32) :
    (lineMap t).fromPos line col ≠ .panic := by
  rcases fromPos_total t line col hlen with h | ⟨p, h⟩ <;> rw [h] <;> intro h' <;> cases h'

theorem fromRange_ne_panic (t : List Char) (sl sc el ec : Nat) (hlen : u8sum t < U32) :
    (lineMap t).fromRange sl sc el ec ≠ .panic := by
  unfold LineMap.fromRange
  rcases fromPos_total t sl sc hlen with h | ⟨p, h⟩ <;> rw [h]
  · intro h'; cases h'
  · rcases fromPos_total t el ec hlen with h2 | ⟨q, h2⟩ <;> rw [h2]
    · intro h'; cases h'
    · simp only; split <;> (intro h'; cases h')

theorem fromRange_ok_le (m : LineMap) (sl sc el ec a b : Nat)
    (h : m.fromRange sl sc el ec = .ok (a, b)) : a ≤ b := by
  unfold LineMap.fromRange at h
  split at h
  · cases h
  · cases h
  · split at h
    · cases h
    · cases h
    · split at h
      · cases h; assumption
      · cases h

theorem splitAtByte_some : ∀ (s : List Char) (n : Nat) (p q : List Char),
    splitAtByte s n = some (p, q) → s = p ++ q ∧ u8sum p = n := by
  intro s
  induction s with
  | nil =>
    intro n p q h
    cases n with
    | zero => simp [splitAtByte] at h; obtain ⟨h1, h2⟩ := h; subst h1; subst h2; simp [u8sum_nil]
    | succ n => simp [splitAtByte] at h
  | cons c cs ih =>
    intro n p q h
    cases n with
    | zero => simp [splitAtByte] at h; obtain ⟨h1, h2⟩ := h; subst h1; subst h2; simp [u8sum_nil]
    | succ n =>
      simp only [splitAtByte] at h
      split at h
      · rename_i hle
        split at h
        · rename_i a b hab
          cases h
          obtain ⟨e1, e2⟩ := ih _ a q hab
          rw [u8sum_cons, e2, e1]
          exact ⟨rfl, by omega⟩
        · cases h
      · cases h

theorem changeFileContent_ne_panic (s : List Char) (a b : Nat) (ins : List Char) :
    changeFileContent s a b ins ≠ .panic := by
  unfold changeFileContent
  split
  · intro h; cases h
  · split
    · intro h; cases h
    · rename_i hb
      simp only [isBoundary, Bool.not_eq_true', Bool.and_eq_false_iff, not_or,
        Bool.not_eq_false, Option.isSome_iff_exists] at hb
      obtain ⟨⟨⟨p1, q1⟩, h1⟩, ⟨⟨p2, q2⟩, h2⟩⟩ := hb
      rw [h1, h2]
      intro h; cases h

theorem u8sum_stripCR_idem_le (a ins b : List Char) :
    u8sum (stripCR (a ++ ins ++ b)) ≤ u8sum a + u8sum ins + u8sum b := by
  have := u8sum_stripCR_le (a ++ ins ++ b)
  rw [u8sum_append, u8sum_append] at this
  exact this

theorem changeFileContent_ok (s : List Char) (a b : Nat) (ins t' : List Char) (hab : a ≤ b)
    (h : changeFileContent s a b ins = .ok t') :
    stripCR t' = t' ∧ u8sum t' ≤ u8sum s + u8sum ins := by
  unfold changeFileContent at h
  split at h
  · cases h
  · split at h
    · cases h
    · split at h
      · rename_i pre q1 p2 post h1 h2
        cases h
        obtain ⟨e1, e2⟩ := splitAtByte_some s a pre q1 h1
        obtain ⟨e3, e4⟩ := splitAtByte_some s b p2 post h2
        refine ⟨stripCR_idem _, ?_⟩
        have hb := u8sum_stripCR_idem_le pre ins post
        have hs : u8sum s = u8sum p2 + u8sum post := by rw [← u8sum_append, ← e3]
        omega
      · cases h

theorem applyChange_ne_panic (t : List Char) (range : Option (Nat × Nat × Nat × Nat))
    (ins : List Char) (hlen : u8sum t < U32) : applyChange t range ins ≠ .panic := by
  unfold applyChange
  split
  · intro h; cases h
  · rename_i sl sc el ec
    have := fromRange_ne_panic t sl sc el ec hlen
    split
    · exact changeFileContent_ne_panic _ _ _ _
    · intro h; cases h
    · rename_i h; exact absurd h this

theorem applyChange_ok (t : List Char) (range : Option (Nat × Nat × Nat × Nat)) (ins t' : List Char)
    (h : applyChange t range ins = .ok t') :
    stripCR t' = t' ∧ u8sum t' ≤ u8sum t + u8sum ins := by
  unfold applyChange at h
  split at h
  · cases h
    refine ⟨stripCR_idem _, ?_⟩
    have := u8sum_stripCR_le ins; omega
  · split at h
    · rename_i a b hr
      exact changeFileContent_ok t a b ins t' (fromRange_ok_le _ _ _ _ _ _ _ hr) h
    · cases h
    · cases h

end Glas.Text
