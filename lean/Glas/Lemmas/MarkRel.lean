import Glas.Lemmas.MarkBase
/-! Soundness of the mark-discipline checker, part 2: the concretisation `Rel` and the transfer
lemmas of `open`, `close`, `openBefore`. -/
namespace Glas.Lemmas.Mark
open Glas.Dsl Glas.MarkCheck

def slotIdx (fr : Frame) (m : Nat) : Nat :=
  match getMark fr m with
  | some mk => mk.idx
  | none => 0

/-- entry `(m, opened?)`: slot `m` holds a mark that points at its own event, unfinished iff opened -/
def Valid (evs : List Ev) (fr : Frame) (e : Nat × Bool) : Prop :=
  ∃ mk k, getMark fr e.1 = some mk ∧ evs[mk.idx]? = some (.open k mk.id (!e.2))

/-- the abstract state `a` describes events `evs` and frame `fr`; everything below `base` belongs to
the callers -/
structure Rel (base nm nl : Nat) (evs : List Ev) (fr : Frame) (a : MA) : Prop where
  len : base ≤ evs.length
  nmk : nm ≤ fr.marks.length
  nlc : nl ≤ fr.locals.length
  valid : ∀ e ∈ a.ms, Valid evs fr e ∧ base ≤ slotIdx fr e.1
  sorted : a.ms.Pairwise (fun x y => slotIdx fr x.1 < slotIdx fr y.1)
  owned : ∀ i k id, base ≤ i → evs[i]? = some (.open k id false) →
    ∃ e ∈ a.ms, e.2 = true ∧ slotIdx fr e.1 = i
  flags : ∀ x b, lookupM x a.flags = some b → (fr.locals[x]?).getD 0 = b2n b

/-- the callers' part of the events is untouched -/
def Keep (base : Nat) (evs evs' : List Ev) : Prop :=
  evs.length ≤ evs'.length ∧ ∀ i, i < base → evs'[i]? = evs[i]?

theorem Keep.refl (base : Nat) (evs : List Ev) : Keep base evs evs := ⟨Nat.le_refl _, fun _ _ => rfl⟩

theorem Keep.trans {base : Nat} {a b c : List Ev} (h1 : Keep base a b) (h2 : Keep base b c) : Keep base a c :=
  ⟨Nat.le_trans h1.1 h2.1, fun i hi => (h2.2 i hi).trans (h1.2 i hi)⟩

theorem Keep.mono {b b' : Nat} {x y : List Ev} (h : Keep b' x y) (hb : b ≤ b') : Keep b x y :=
  ⟨h.1, fun i hi => h.2 i (by omega)⟩

def NoUndoneFrom (base : Nat) (evs : List Ev) : Prop :=
  ∀ i k id, base ≤ i → evs[i]? ≠ some (.open k id false)

theorem Rel.distinct {base nm nl evs fr a} (h : Rel base nm nl evs fr a) : Distinct a.ms := by
  refine h.sorted.imp ?_
  intro x y hxy heq
  rw [heq] at hxy
  exact Nat.lt_irrefl _ hxy

theorem Valid.idx_lt {evs fr e} (h : Valid evs fr e) : slotIdx fr e.1 < evs.length := by
  obtain ⟨mk, k, hg, he⟩ := h
  unfold slotIdx
  rw [hg]
  have := (List.getElem?_eq_some_iff.mp he).1
  exact this

theorem slotIdx_of {fr : Frame} {m : Nat} {mk : Mark} (h : getMark fr m = some mk) : slotIdx fr m = mk.idx := by
  unfold slotIdx; rw [h]

/-- two entries with the same event position are the same entry -/
theorem Rel.same_idx {base nm nl evs fr a} (h : Rel base nm nl evs fr a) {e1 e2 : Nat × Bool}
    (h1 : e1 ∈ a.ms) (h2 : e2 ∈ a.ms) (hi : slotIdx fr e1.1 = slotIdx fr e2.1) : e1 = e2 := by
  have := h.sorted
  generalize a.ms = l at h1 h2 this
  induction l with
  | nil => cases h1
  | cons x xs ih =>
    have hp := List.pairwise_cons.mp this
    rcases List.mem_cons.mp h1 with rfl | h1'
    · rcases List.mem_cons.mp h2 with rfl | h2'
      · rfl
      · have := hp.1 _ h2'; omega
    · rcases List.mem_cons.mp h2 with rfl | h2'
      · have := hp.1 _ h1'; omega
      · exact ih h1' h2' hp.2

theorem Rel.noUndone {base nm nl evs fr a} (h : Rel base nm nl evs fr a) (hn : noOpened a.ms = true) :
    NoUndoneFrom base evs := by
  intro i k id hi he
  obtain ⟨e, hm, ht, _⟩ := h.owned i k id hi he
  have := List.all_eq_true.mp hn e hm
  simp [ht] at this

/-! ## appending a finished event -/

theorem Rel.append {base nm nl evs fr a} (h : Rel base nm nl evs fr a) (e : Ev)
    (he : ∀ k id, e ≠ .open k id false) : Rel base nm nl (evs ++ [e]) fr a where
  len := by simp; have := h.len; omega
  nmk := h.nmk
  nlc := h.nlc
  valid := by
    intro x hx
    obtain ⟨⟨mk, k, hg, hev⟩, hb⟩ := h.valid x hx
    refine ⟨⟨mk, k, hg, ?_⟩, hb⟩
    have hl := (List.getElem?_eq_some_iff.mp hev).1
    rw [List.getElem?_append_left hl]; exact hev
  sorted := h.sorted
  owned := by
    intro i k id hi hev
    by_cases hl : i < evs.length
    · rw [List.getElem?_append_left hl] at hev
      exact h.owned i k id hi hev
    · exfalso
      by_cases hl' : i = evs.length
      · subst hl'
        rw [List.getElem?_append_right (Nat.le_refl _)] at hev
        simp at hev
        exact he k id hev
      · have : (evs ++ [e])[i]? = none := List.getElem?_eq_none (by simp; omega)
        rw [this] at hev; cases hev
  flags := h.flags

theorem Keep.append (base : Nat) (evs : List Ev) (hb : base ≤ evs.length) (e : Ev) : Keep base evs (evs ++ [e]) :=
  ⟨by simp, fun i hi => List.getElem?_append_left (by omega)⟩

/-- `Rel` does not look at the locals beyond the flags -/
theorem Rel.setLocal_drop {base nm nl evs fr a} (h : Rel base nm nl evs fr a) (x v : Nat) :
    Rel base nm nl evs (setLocal fr x v) { a with flags := dropFlag x a.flags } where
  len := h.len
  nmk := by simpa using h.nmk
  nlc := by simpa using h.nlc
  valid := h.valid
  sorted := h.sorted
  owned := h.owned
  flags := by
    intro y b hy
    obtain ⟨hne, hl⟩ := lookupM_dropFlag hy
    rw [getLocal_setLocal, if_neg (fun hh => hne hh.1.symm)]
    exact h.flags y b hl

theorem Rel.setLocal_flag {base nm nl evs fr a} (h : Rel base nm nl evs fr a) (x : Nat) (b : Bool)
    (hx : x < nl) :
    Rel base nm nl evs (setLocal fr x (b2n b)) { a with flags := (x, b) :: dropFlag x a.flags } where
  len := h.len
  nmk := by simpa using h.nmk
  nlc := by simpa using h.nlc
  valid := h.valid
  sorted := h.sorted
  owned := h.owned
  flags := by
    intro y c hy
    simp only [lookupM] at hy
    split at hy
    · rename_i hxy
      simp only [Option.some.injEq] at hy
      subst hy
      have := h.nlc
      rw [getLocal_setLocal, if_pos ⟨hxy, by omega⟩]
    · rename_i hxy
      obtain ⟨_, hl⟩ := lookupM_dropFlag hy
      rw [getLocal_setLocal, if_neg (fun hh => hxy hh.1)]
      exact h.flags y c hl

/-- forgetting flags is always sound -/
theorem Rel.flags_only {base nm nl evs fr a} (h : Rel base nm nl evs fr a) (ms' : List (Nat × Bool))
    (hms : ms' = a.ms) (fl : List (Nat × Bool)) (hf : ∀ x b, lookupM x fl = some b → (fr.locals[x]?).getD 0 = b2n b) :
    Rel base nm nl evs fr ⟨ms', fl⟩ := by
  subst hms
  exact ⟨h.len, h.nmk, h.nlc, h.valid, h.sorted, h.owned, hf⟩

/-! ## `open` -/

theorem Rel.open {base nm nl evs fr a a'} (h : Rel base nm nl evs fr a) {m : Nat} (k id : Nat)
    (ha : aOpen nm m a = some a') :
    Rel base nm nl (evs ++ [.open k id false]) (setMark fr m (some ⟨evs.length, id⟩)) a' := by
  unfold aOpen at ha
  split at ha
  · rename_i hc
    simp only [Bool.and_eq_true, decide_eq_true_eq] at hc
    obtain ⟨hm, hfree⟩ := hc
    simp only [Option.some.injEq] at ha
    subst ha
    have hmlen : m < fr.marks.length := Nat.lt_of_lt_of_le hm h.nmk
    have hkeep : ∀ e ∈ removeM m a.ms, slotIdx (setMark fr m (some ⟨evs.length, id⟩)) e.1 = slotIdx fr e.1 := by
      intro e he
      have hne := (mem_removeM.mp he).2
      unfold slotIdx
      rw [getMark_setMark_ne _ _ (Ne.symm hne)]
    have hnew : slotIdx (setMark fr m (some ⟨evs.length, id⟩)) m = evs.length := by
      unfold slotIdx; rw [getMark_setMark_same _ _ hmlen]
    refine ⟨by simp; have := h.len; omega, by simpa using h.nmk, by simpa using h.nlc, ?_, ?_, ?_, h.flags⟩
    · intro e he
      simp only [List.mem_append, List.mem_singleton] at he
      rcases he with he | rfl
      · have hmem := (mem_removeM.mp he).1
        have hne := (mem_removeM.mp he).2
        obtain ⟨⟨mk, k', hg, hev⟩, hb⟩ := h.valid e hmem
        refine ⟨⟨mk, k', ?_, ?_⟩, ?_⟩
        · rw [getMark_setMark_ne _ _ (Ne.symm hne)]; exact hg
        · have hl := (List.getElem?_eq_some_iff.mp hev).1
          rw [List.getElem?_append_left hl]; exact hev
        · rw [hkeep e he]; exact hb
      · refine ⟨⟨⟨evs.length, id⟩, k, getMark_setMark_same _ _ hmlen, ?_⟩, ?_⟩
        · simp
        · rw [hnew]; exact h.len
    · rw [List.pairwise_append]
      refine ⟨?_, List.pairwise_singleton _ _, ?_⟩
      · refine ((h.sorted.sublist (removeM_sublist m a.ms)).imp_of_mem ?_)
        intro x y hx hy hxy
        rw [hkeep x hx, hkeep y hy]; exact hxy
      · intro x hx y hy
        simp only [List.mem_singleton] at hy
        subst hy
        rw [hkeep x hx, hnew]
        exact (h.valid x (mem_removeM.mp hx).1).1.idx_lt
    · intro i k' id' hi hev
      by_cases hl : i < evs.length
      · rw [List.getElem?_append_left hl] at hev
        obtain ⟨e, hm', ht, hidx⟩ := h.owned i k' id' hi hev
        have hne : e.1 ≠ m := by
          intro heq
          have : lookupM m a.ms = some true := by
            apply lookupM_of_mem h.distinct
            rw [← heq, ← ht]; exact hm'
          simp [freeSlot, this] at hfree
        have hin : e ∈ removeM m a.ms := mem_removeM.mpr ⟨hm', hne⟩
        exact ⟨e, by simp [hin], ht, by rw [hkeep e hin]; exact hidx⟩
      · by_cases hl' : i = evs.length
        · subst hl'
          exact ⟨(m, true), by simp, rfl, hnew⟩
        · have : (evs ++ [Ev.open k id false])[i]? = none := List.getElem?_eq_none (by simp; omega)
          rw [this] at hev; cases hev
  · exact absurd ha (by simp)

/-! ## `close` -/

/-- what the checked `close m` knows about slot `m` -/
theorem Rel.opened_slot {base nm nl evs fr a} (h : Rel base nm nl evs fr a) {m : Nat} {s : Bool}
    (hl : lookupM m a.ms = some s) :
    ∃ mk k0, getMark fr m = some mk ∧ evs[mk.idx]? = some (.open k0 mk.id (!s)) ∧ base ≤ mk.idx ∧
      mk.idx < evs.length ∧ slotIdx fr m = mk.idx := by
  have hmem := lookupM_mem hl
  obtain ⟨⟨mk, k0, hg, hev⟩, hb⟩ := h.valid _ hmem
  have hs := slotIdx_of hg
  simp only at hs hb
  rw [hs] at hb
  exact ⟨mk, k0, hg, hev, hb, (List.getElem?_eq_some_iff.mp hev).1, hs⟩

theorem Rel.other_entry {base nm nl evs fr a} (h : Rel base nm nl evs fr a) {m : Nat} {s : Bool}
    (hl : lookupM m a.ms = some s) {e : Nat × Bool} (he : e ∈ a.ms) (hne : e ≠ (m, s)) :
    e.1 ≠ m ∧ slotIdx fr e.1 ≠ slotIdx fr m := by
  have hmem := lookupM_mem hl
  have h2 : slotIdx fr e.1 ≠ slotIdx fr m := fun heq => hne (h.same_idx he hmem heq)
  exact ⟨fun heq => h2 (by rw [heq]), h2⟩

theorem Rel.close_none {base nm nl evs fr a} (h : Rel base nm nl evs fr a) {m : Nat} (k : Nat)
    (hl : lookupM m a.ms = some true) {mk : Mark} (hg : getMark fr m = some mk) :
    Rel base nm nl (setNth evs mk.idx (.open k mk.id true)) (setMark fr m none) { a with ms := removeM m a.ms } := by
  obtain ⟨mk', k0, hg', hev, hb, hlt, hs⟩ := h.opened_slot hl
  rw [hg] at hg'
  simp only [Option.some.injEq] at hg'
  subst hg'
  have hkeep : ∀ e ∈ removeM m a.ms, slotIdx (setMark fr m none) e.1 = slotIdx fr e.1 := by
    intro e he
    have hne := (mem_removeM.mp he).2
    unfold slotIdx
    rw [getMark_setMark_ne _ _ (Ne.symm hne)]
  refine ⟨by rw [Glas.Lemmas.Dsl.length_setNth]; exact h.len, by simpa using h.nmk, by simpa using h.nlc,
    ?_, ?_, ?_, h.flags⟩
  · intro e he
    have hmem := (mem_removeM.mp he).1
    have hne := (mem_removeM.mp he).2
    obtain ⟨⟨mke, k', hge, heve⟩, hbe⟩ := h.valid e hmem
    have hd : slotIdx fr e.1 ≠ slotIdx fr m :=
      (h.other_entry hl hmem (fun heq => hne (by rw [heq]))).2
    rw [slotIdx_of hge, hs] at hd
    refine ⟨⟨mke, k', ?_, ?_⟩, ?_⟩
    · rw [getMark_setMark_ne _ _ (Ne.symm hne)]; exact hge
    · rw [getElem?_setNth, if_neg (fun hh => hd hh.1.symm)]; exact heve
    · rw [hkeep e he]; exact hbe
  · refine ((h.sorted.sublist (removeM_sublist m a.ms)).imp_of_mem ?_)
    intro x y hx hy hxy
    rw [hkeep x hx, hkeep y hy]; exact hxy
  · intro i k' id' hi hev'
    rw [getElem?_setNth] at hev'
    split at hev'
    · simp at hev'
    · rename_i hni
      obtain ⟨e, hm', ht, hidx⟩ := h.owned i k' id' hi hev'
      have hne : e.1 ≠ m := by
        intro heq
        apply hni
        rw [heq, hs] at hidx
        exact ⟨hidx, hlt⟩
      have hin : e ∈ removeM m a.ms := mem_removeM.mpr ⟨hm', hne⟩
      exact ⟨e, hin, ht, by rw [hkeep e hin]; exact hidx⟩

theorem Rel.close_some {base nm nl evs fr a} (h : Rel base nm nl evs fr a) {m d : Nat} (k : Nat)
    (hl : lookupM m a.ms = some true) {mk : Mark} (hg : getMark fr m = some mk)
    (hd : d < nm) (hfree : d = m ∨ freeSlot d a.ms = true) :
    Rel base nm nl (setNth evs mk.idx (.open k mk.id true)) (setMark (setMark fr m none) d (some mk))
      { a with ms := (if d = m then a.ms else removeM d a.ms).map (fun e => if e.1 = m then (d, false) else e) } := by
  obtain ⟨mk', k0, hg', hev, hb, hlt, hs⟩ := h.opened_slot hl
  rw [hg] at hg'
  simp only [Option.some.injEq] at hg'
  subst hg'
  have hdlen : d < (setMark fr m none).marks.length := by
    rw [setMark_marks_length]; exact Nat.lt_of_lt_of_le hd h.nmk
  have hsub : (if d = m then a.ms else removeM d a.ms).Sublist a.ms := by
    split
    · exact List.Sublist.refl _
    · exact removeM_sublist d a.ms
  have hnd : ∀ e ∈ (if d = m then a.ms else removeM d a.ms), e.1 ≠ m → e.1 ≠ d := by
    intro e he hne
    split at he
    · rename_i hdm; rw [hdm]; exact hne
    · exact (mem_removeM.mp he).2
  -- position of the renamed entry in the new frame = position of the entry in the old one
  have hkeep : ∀ e ∈ (if d = m then a.ms else removeM d a.ms),
      slotIdx (setMark (setMark fr m none) d (some mk)) (if e.1 = m then (d, false) else e).1 = slotIdx fr e.1 := by
    intro e he
    by_cases hem : e.1 = m
    · rw [if_pos hem, hem, hs]
      unfold slotIdx
      rw [getMark_setMark_same _ _ hdlen]
    · rw [if_neg hem]
      unfold slotIdx
      rw [getMark_setMark_ne _ _ (Ne.symm (hnd e he hem)), getMark_setMark_ne _ _ (Ne.symm hem)]
  refine ⟨by rw [Glas.Lemmas.Dsl.length_setNth]; exact h.len, by simpa using h.nmk, by simpa using h.nlc,
    ?_, ?_, ?_, h.flags⟩
  · intro e' he'
    simp only [List.mem_map] at he'
    obtain ⟨e, he, rfl⟩ := he'
    have hmem : e ∈ a.ms := hsub.subset he
    refine ⟨?_, by rw [hkeep e he]; exact (h.valid e hmem).2⟩
    by_cases hem : e.1 = m
    · rw [if_pos hem]
      refine ⟨mk, k, getMark_setMark_same _ _ hdlen, ?_⟩
      rw [getElem?_setNth, if_pos ⟨rfl, hlt⟩]; rfl
    · rw [if_neg hem]
      obtain ⟨⟨mke, k', hge, heve⟩, _⟩ := h.valid e hmem
      have hdi : slotIdx fr e.1 ≠ slotIdx fr m :=
        (h.other_entry hl hmem (fun heq => hem (by rw [heq]))).2
      rw [slotIdx_of hge, hs] at hdi
      refine ⟨mke, k', ?_, ?_⟩
      · rw [getMark_setMark_ne _ _ (Ne.symm (hnd e he hem)), getMark_setMark_ne _ _ (Ne.symm hem)]; exact hge
      · rw [getElem?_setNth, if_neg (fun hh => hdi hh.1.symm)]; exact heve
  · rw [List.pairwise_map]
    refine ((h.sorted.sublist hsub).imp_of_mem ?_)
    intro x y hx hy hxy
    rw [hkeep x hx, hkeep y hy]; exact hxy
  · intro i k' id' hi hev'
    rw [getElem?_setNth] at hev'
    split at hev'
    · simp at hev'
    · rename_i hni
      obtain ⟨e, hm', ht, hidx⟩ := h.owned i k' id' hi hev'
      have hne : e.1 ≠ m := by
        intro heq
        apply hni
        rw [heq, hs] at hidx
        exact ⟨hidx, hlt⟩
      have hin : e ∈ (if d = m then a.ms else removeM d a.ms) := by
        split
        · exact hm'
        · rename_i hdm
          refine mem_removeM.mpr ⟨hm', ?_⟩
          intro hed
          rcases hfree with hf | hf
          · exact hdm hf
          · have : lookupM d a.ms = some true := by
              apply lookupM_of_mem h.distinct
              rw [← hed, ← ht]; exact hm'
            simp [freeSlot, this] at hf
      refine ⟨e, ?_, ht, ?_⟩
      · simp only [List.mem_map]
        exact ⟨e, hin, by rw [if_neg hne]⟩
      · have := hkeep e hin
        rw [if_neg hne] at this
        rw [this]; exact hidx

theorem Rel.close {base nm nl evs fr a a'} (h : Rel base nm nl evs fr a) {m : Nat} (k : Nat) (dst : Option Nat)
    (ha : aClose nm m dst a = some a') :
    ∃ mk k0, getMark fr m = some mk ∧ evs[mk.idx]? = some (.open k0 mk.id false) ∧ base ≤ mk.idx ∧
      mk.idx < evs.length ∧
      Rel base nm nl (setNth evs mk.idx (.open k mk.id true) ++ [.close])
        (match dst with
         | none => setMark fr m none
         | some d => setMark (setMark fr m none) d (some mk)) a' := by
  unfold aClose at ha
  split at ha
  · rename_i hl
    obtain ⟨mk, k0, hg, hev, hb, hlt, _⟩ := h.opened_slot hl
    refine ⟨mk, k0, hg, hev, hb, hlt, ?_⟩
    cases dst with
    | none =>
      simp only [Option.some.injEq] at ha
      subst ha
      exact (h.close_none k hl hg).append _ (by intro _ _ hh; cases hh)
    | some d =>
      simp only at ha
      split at ha
      · rename_i hc
        simp only [Bool.and_eq_true, decide_eq_true_eq, Bool.or_eq_true, beq_iff_eq] at hc
        simp only [Option.some.injEq] at ha
        subst ha
        exact (h.close_some k hl hg hc.1 hc.2).append _ (by intro _ _ hh; cases hh)
      · exact absurd ha (by simp)
  · exact absurd ha (by simp)

/-! ## `openBefore` -/

/-- split the live marks at slot `m` -/
theorem split_at_slot {m : Nat} {l : List (Nat × Bool)} (h : ∃ s, (m, s) ∈ l) :
    ∃ x, x.1 = m ∧ l = l.takeWhile (fun e => e.1 != m) ++ x :: (l.dropWhile (fun e => e.1 != m)).tail := by
  induction l with
  | nil => obtain ⟨s, hs⟩ := h; cases hs
  | cons y ys ih =>
    by_cases hy : y.1 = m
    · refine ⟨y, hy, ?_⟩
      have hp : (y.1 != m) = false := by simp [hy]
      rw [List.takeWhile_cons, List.dropWhile_cons]
      simp only [hp]
      simp
    · have h' : ∃ s, (m, s) ∈ ys := by
        obtain ⟨s, hs⟩ := h
        rcases List.mem_cons.mp hs with heq | h'
        · exact absurd (by rw [← heq]) hy
        · exact ⟨s, h'⟩
      obtain ⟨x, hx1, hx2⟩ := ih h'
      refine ⟨x, hx1, ?_⟩
      have hp : (y.1 != m) = true := by simp [hy]
      rw [List.takeWhile_cons, List.dropWhile_cons]
      simp only [hp, if_true, List.cons_append]
      rw [← hx2]

theorem Rel.openBefore {base nm nl evs fr a a'} (h : Rel base nm nl evs fr a) {m' m : Nat} (k id : Nat)
    (ha : aOpenBefore nm m' m a = some a') :
    ∃ mk k0, getMark fr m = some mk ∧ evs[mk.idx]? = some (.open k0 mk.id true) ∧ base ≤ mk.idx ∧
      mk.idx < evs.length ∧
      Rel base nm nl (insertAt evs mk.idx (.open k id false))
        (setMark (setMark fr m none) m' (some ⟨mk.idx, id⟩)) a' := by
  unfold aOpenBefore at ha
  split at ha
  · rename_i hl
    obtain ⟨mk, k0, hg, hev, hb, hlt, hs⟩ := h.opened_slot hl
    refine ⟨mk, k0, hg, hev, hb, hlt, ?_⟩
    simp only at ha
    split at ha
    · rename_i hc
      simp only [Bool.and_eq_true, decide_eq_true_eq, Bool.or_eq_true, beq_iff_eq] at hc
      obtain ⟨⟨hpost, hm'⟩, hfree⟩ := hc
      simp only [Option.some.injEq] at ha
      subst ha
      obtain ⟨x, hx1, hsplit⟩ := split_at_slot ⟨false, lookupM_mem hl⟩
      generalize hpre : a.ms.takeWhile (fun e => e.1 != m) = pre at hsplit hfree
      generalize hpo : (a.ms.dropWhile (fun e => e.1 != m)).tail = post at hsplit hpost
      have hxmem : x ∈ a.ms := by rw [hsplit]; simp
      have hxeq : x = (m, false) := h.same_idx hxmem (lookupM_mem hl) (by rw [hx1])
      subst hxeq
      have hsorted := h.sorted
      rw [hsplit, List.pairwise_append] at hsorted
      obtain ⟨hsp, hsx, hcross⟩ := hsorted
      have hpre_lt : ∀ e ∈ pre, slotIdx fr e.1 < mk.idx := by
        intro e he
        have := hcross e he (m, false) List.mem_cons_self
        rw [hs] at this; exact this
      have hpost_gt : ∀ e ∈ post, mk.idx < slotIdx fr e.1 := by
        intro e he
        have := (List.pairwise_cons.mp hsx).1 e he
        rw [hs] at this; exact this
      have hpre_mem : ∀ e ∈ pre, e ∈ a.ms := by
        intro e he; rw [hsplit]; simp [he]
      have hpre_ne : ∀ e ∈ pre, e.1 ≠ m := by
        intro e he heq
        have := hpre_lt e he
        rw [heq, hs] at this
        exact Nat.lt_irrefl _ this
      have hm'len : m' < (setMark fr m none).marks.length := by
        rw [setMark_marks_length]; exact Nat.lt_of_lt_of_le hm' h.nmk
      have hkeep : ∀ e ∈ removeM m' pre,
          slotIdx (setMark (setMark fr m none) m' (some ⟨mk.idx, id⟩)) e.1 = slotIdx fr e.1 := by
        intro e he
        have hne := (mem_removeM.mp he).2
        have hne2 := hpre_ne e (mem_removeM.mp he).1
        unfold slotIdx
        rw [getMark_setMark_ne _ _ (Ne.symm hne), getMark_setMark_ne _ _ (Ne.symm hne2)]
      have hnew : slotIdx (setMark (setMark fr m none) m' (some ⟨mk.idx, id⟩)) m' = mk.idx := by
        unfold slotIdx; rw [getMark_setMark_same _ _ hm'len]
      have hle : mk.idx ≤ evs.length := Nat.le_of_lt hlt
      refine ⟨by rw [length_insertAt]; have := h.len; omega, by simpa using h.nmk, by simpa using h.nlc,
        ?_, ?_, ?_, h.flags⟩
      · intro e he
        simp only [List.mem_append, List.mem_singleton] at he
        rcases he with he | rfl
        · have hmem := hpre_mem e (mem_removeM.mp he).1
          obtain ⟨⟨mke, k', hge, heve⟩, hbe⟩ := h.valid e hmem
          have hlt' := hpre_lt e (mem_removeM.mp he).1
          rw [slotIdx_of hge] at hlt'
          refine ⟨⟨mke, k', ?_, ?_⟩, by rw [hkeep e he]; exact hbe⟩
          · rw [getMark_setMark_ne _ _ (Ne.symm (mem_removeM.mp he).2),
              getMark_setMark_ne _ _ (Ne.symm (hpre_ne e (mem_removeM.mp he).1))]
            exact hge
          · rw [getElem?_insertAt_lt _ _ _ _ hlt' hle]; exact heve
        · refine ⟨⟨⟨mk.idx, id⟩, k, getMark_setMark_same _ _ hm'len, ?_⟩, by rw [hnew]; exact hb⟩
          rw [getElem?_insertAt_eq _ _ _ hle]; rfl
      · rw [List.pairwise_append]
        refine ⟨?_, List.pairwise_singleton _ _, ?_⟩
        · refine ((hsp.sublist (removeM_sublist m' pre)).imp_of_mem ?_)
          intro x y hx hy hxy
          rw [hkeep x hx, hkeep y hy]; exact hxy
        · intro x hx y hy
          simp only [List.mem_singleton] at hy
          subst hy
          rw [hkeep x hx, hnew]
          exact hpre_lt x (mem_removeM.mp hx).1
      · intro i k' id' hi hev'
        rcases Nat.lt_trichotomy i mk.idx with hi' | hi' | hi'
        · rw [getElem?_insertAt_lt _ _ _ _ hi' hle] at hev'
          obtain ⟨e, hmem, ht, hidx⟩ := h.owned i k' id' hi hev'
          have hin : e ∈ pre := by
            rw [hsplit] at hmem
            simp only [List.mem_append, List.mem_cons] at hmem
            rcases hmem with hp | rfl | hp
            · exact hp
            · simp at ht
            · have := hpost_gt e hp; omega
          have hne : e.1 ≠ m' := by
            intro heq
            rcases hfree with hf | hf
            · exact hpre_ne e hin (by rw [heq, hf])
            · have hdp : Distinct pre := by
                have hd := h.distinct
                rw [hsplit] at hd
                exact (List.pairwise_append.mp hd).1
              have : lookupM m' pre = some true := by
                apply lookupM_of_mem hdp
                rw [← heq, ← ht]; exact hin
              simp [freeSlot, this] at hf
          have hin' : e ∈ removeM m' pre := mem_removeM.mpr ⟨hin, hne⟩
          exact ⟨e, by simp [hin'], ht, by rw [hkeep e hin']; exact hidx⟩
        · subst hi'
          exact ⟨(m', true), by simp, rfl, hnew⟩
        · exfalso
          obtain ⟨j, rfl⟩ : ∃ j, i = j + 1 := ⟨i - 1, by omega⟩
          rw [getElem?_insertAt_gt _ _ _ _ (by omega) hle] at hev'
          obtain ⟨e, hmem, ht, hidx⟩ := h.owned j k' id' (by omega) hev'
          rw [hsplit] at hmem
          simp only [List.mem_append, List.mem_cons] at hmem
          rcases hmem with hp | rfl | hp
          · have := hpre_lt e hp; omega
          · simp at ht
          · have := List.all_eq_true.mp hpost e hp
            simp [ht] at this
    · exact absurd ha (by simp)
  · exact absurd ha (by simp)

end Glas.Lemmas.Mark
