import Glas.Lemmas.TextPos
/-! Lemmas about single-line highlights, `endColForLine`, `semLines`, `toSemanticTokens` (C19). -/
namespace Glas.Text

theorem take_split (t : List Char) (j k : Nat) (hjk : j ≤ k) :
    t.take k = t.take j ++ (t.drop j).take (k - j) := by
  have := List.take_add (l := t) (i := j) (j := k - j)
  rw [← this]; congr 1; omega

/-- the lines of `t` around a single-line highlight -/
theorem hl_decomp (t : List Char) (h : Hl) (hok : hlOk t h) :
    ∃ la x y lb, splitLines t = la ++ (x ++ (t.drop h.1).take (h.2.1 - h.1) ++ y) :: lb ∧
      clientLineCol t h.1 = (la.length, u16sum x) ∧
      clientLineCol t h.2.1 = (la.length, u16sum x + u16sum ((t.drop h.1).take (h.2.1 - h.1))) ∧
      0 < u16sum ((t.drop h.1).take (h.2.1 - h.1)) := by
  obtain ⟨hjk, hk, hnl⟩ := hok
  have htk := take_split t h.1 h.2.1 (by omega)
  obtain ⟨la, x, ha⟩ := splitLines_exists_snoc (t.take h.1)
  have hsk : splitLines (t.take h.2.1) = la ++ [x ++ (t.drop h.1).take (h.2.1 - h.1)] := by
    rw [htk]
    exact splitLines_append _ _ la x _ [] ha (splitLines_no_nl _ hnl)
  obtain ⟨y, lb, hb⟩ := splitLines_exists_cons (t.drop h.2.1)
  have ht := splitLines_append (t.take h.2.1) (t.drop h.2.1) la _ y lb hsk hb
  rw [List.take_append_drop] at ht
  refine ⟨la, x, y, lb, ht, clientLineCol_of_split t _ la x ha, ?_, ?_⟩
  · rw [clientLineCol_of_split t _ la _ hsk, u16sum_append]
  · have hl := length_le_u16sum ((t.drop h.1).take (h.2.1 - h.1))
    rw [List.length_take, List.length_drop] at hl
    omega

theorem lineMap_lineStarts_length (t : List Char) :
    (lineMap t).lineStarts.length = (splitLines t).length := by
  simp [lineMap, startsFrom_length]

theorem lineMap_len (t : List Char) : (lineMap t).len = u8sum t := rfl

theorem endColForLine_of_split (t : List Char) (la : List (List Char)) (l : List Char)
    (lb : List (List Char)) (h : splitLines t = la ++ l :: lb) :
    (lineMap t).endColForLine la.length = some (u16sum l) := by
  have h1 := lineStarts_split t la l lb h
  have h2 := charDiffs_split t la l lb h
  have hlen := lineMap_lineStarts_length t
  rw [h] at hlen
  have hsum := diffsOf_sum l 0
  have hs : ((diffsOf l 0).map (fun d => d.2)).sum ≤ u8sum l := by omega
  have e : u8sum l - ((diffsOf l 0).map (fun d => d.2)).sum = u16sum l := by omega
  unfold LineMap.endColForLine
  simp only [h1, h2, Option.getD_some]
  cases lb with
  | nil =>
    have htot := lsum_splitLines t
    rw [h, lsum_append, lsum_cons, lsum_nil] at htot
    have hge : la.length + 1 ≥ (lineMap t).lineStarts.length := by rw [hlen]; simp
    have hle : lsum la ≤ (lineMap t).len := by rw [lineMap_len]; omega
    have e2 : (lineMap t).len - lsum la = u8sum l := by rw [lineMap_len]; omega
    simp only [if_pos hge, if_pos hle, e2, if_pos hs, e]
  | cons l' lb' =>
    have hlt : ¬ la.length + 1 ≥ (lineMap t).lineStarts.length := by rw [hlen]; simp
    have hnx : (lineMap t).lineStarts[la.length + 1]? = some (lsum la + u8sum l + 1) := by
      have := lineStarts_split t (la ++ [l]) l' lb' (by rw [h]; simp)
      rw [lsum_append, lsum_cons, lsum_nil] at this
      simpa [Nat.add_assoc] using this
    have hle : lsum la + 1 ≤ lsum la + u8sum l + 1 := by omega
    have e2 : lsum la + u8sum l + 1 - lsum la - 1 = u8sum l := by omega
    simp only [if_neg hlt, hnx, if_pos hle, e2, if_pos hs, e]

theorem lastLine_of_split (t : List Char) (la : List (List Char)) (l : List Char)
    (lb : List (List Char)) (h : splitLines t = la ++ l :: lb) :
    min la.length (lineMap t).lastLine = la.length := by
  unfold LineMap.lastLine
  rw [lineMap_lineStarts_length, h]
  simp

theorem range_drop_last (n : Nat) : (List.range (n + 1)).drop n = [n] := by
  rw [List.range_succ]
  exact List.drop_left' (by simp)

theorem semLines_single (m : LineMap) (line s e ec ty pl ps : Nat) (acc : List SemTok)
    (hec : m.endColForLine line = some ec) (hse : s < e) (hee : e ≤ ec)
    (hst : pl < line ∨ (pl = line ∧ ps ≤ s)) :
    semLines m ((line, s), (line, e)) ty [line] (pl, ps) acc =
      some ((line, s), acc ++ [{ deltaLine := line - pl,
                                 deltaStart := s - (if line = pl then ps else 0),
                                 length := e - s, type := ty }]) := by
  have hmin : min ec e = e := Nat.min_eq_right hee
  have hne : s ≠ e := by omega
  rcases hst with hlt | ⟨heq, hle⟩
  · have h1 : line ≠ pl := by omega
    simp [semLines, hec, hmin, hne, h1]
    omega
  · subst heq
    simp [semLines, hec, hmin, hne]
    omega

theorem decodeFrom_cons_tok (pl ps line s len ty : Nat) (rest : List SemTok)
    (hst : pl < line ∨ (pl = line ∧ ps ≤ s)) :
    decodeFrom pl ps ({ deltaLine := line - pl, deltaStart := s - (if line = pl then ps else 0),
                        length := len, type := ty } :: rest)
      = (line, s, len, ty) :: decodeFrom line s rest := by
  rcases hst with hlt | ⟨heq, hle⟩
  · have h1 : line ≠ pl := by omega
    have h2 : line - pl ≠ 0 := by omega
    have h3 : pl + (line - pl) = line := by omega
    simp [decodeFrom, h1, h2, h3]
  · subst heq
    have h3 : ps + (s - ps) = s := by omega
    simp [decodeFrom, h3]

/-- "`st` is at or before `p`" in the lexicographic order -/
def posLe (st p : Nat × Nat) : Prop := st.1 < p.1 ∨ (st.1 = p.1 ∧ st.2 ≤ p.2)

/-- one highlight: the encoder emits exactly one token and moves to the highlight's start -/
theorem toSemanticTokens_step (t : List Char) (h : Hl) (rest : List (Nat × Nat × Nat))
    (st : Nat × Nat) (acc : List SemTok) (hok : hlOk t h) (hst : posLe st (clientLineCol t h.1)) :
    ∃ tok, toSemanticTokens (lineMap t) (hlBytes t h :: rest) st acc
        = toSemanticTokens (lineMap t) rest (clientLineCol t h.1) (acc ++ [tok]) ∧
      ∀ more, decodeFrom st.1 st.2 (tok :: more)
        = hlExpected t h :: decodeFrom (clientLineCol t h.1).1 (clientLineCol t h.1).2 more := by
  obtain ⟨la, x, y, lb, ht, hcj, hck, hpos⟩ := hl_decomp t h hok
  obtain ⟨pl, ps⟩ := st
  have hst' : pl < la.length ∨ (pl = la.length ∧ ps ≤ u16sum x) := by
    unfold posLe at hst; rw [hcj] at hst; exact hst
  have hr : (lineMap t).toRange (u8sum (t.take h.1)) (u8sum (t.take h.2.1))
      = some ((la.length, u16sum x),
              (la.length, u16sum x + u16sum ((t.drop h.1).take (h.2.1 - h.1)))) := by
    unfold LineMap.toRange
    rw [lineColForPos_client, lineColForPos_client, hcj, hck]
  have hec := endColForLine_of_split t la _ lb ht
  have hmin := lastLine_of_split t la _ lb ht
  have hsem := semLines_single (lineMap t) la.length (u16sum x)
    (u16sum x + u16sum ((t.drop h.1).take (h.2.1 - h.1))) _ h.2.2 pl ps acc hec (by omega)
    (by rw [u16sum_append, u16sum_append]; omega) hst'
  refine ⟨{ deltaLine := la.length - pl, deltaStart := u16sum x - (if la.length = pl then ps else 0),
            length := u16sum x + u16sum ((t.drop h.1).take (h.2.1 - h.1)) - u16sum x,
            type := h.2.2 }, ?_, ?_⟩
  · rw [hcj]
    simp only [hlBytes, toSemanticTokens, hr, hmin, range_drop_last, hsem]
  · intro more
    rw [decodeFrom_cons_tok pl ps la.length (u16sum x) _ h.2.2 more hst']
    simp only [hlExpected, hcj]
    rw [Nat.add_sub_cancel_left]

theorem hlSorted_tail (a : Hl) (l : List Hl) (h : hlSorted (a :: l)) : hlSorted l := by
  cases l with
  | nil => trivial
  | cons b r => exact h.2

/-- generalisation of C19 `decode_encode` over the encoder state and the accumulator -/
theorem encode_gen (t : List Char) : ∀ (hls : List Hl) (st : Nat × Nat) (acc : List SemTok)
    (D : List (Nat × Nat × Nat × Nat)),
    (∀ h ∈ hls, hlOk t h) → hlSorted hls →
    (∀ h hls', hls = h :: hls' → posLe st (clientLineCol t h.1)) →
    (∀ more, decode (acc ++ more) = D ++ decodeFrom st.1 st.2 more) →
    ∃ ts, toSemanticTokens (lineMap t) (hls.map (hlBytes t)) st acc = some ts ∧
      decode ts = D ++ hls.map (hlExpected t) := by
  intro hls
  induction hls with
  | nil =>
    intro st acc D _ _ _ hdec
    refine ⟨acc, rfl, ?_⟩
    have := hdec []
    simpa [decodeFrom] using this
  | cons h hls ih =>
    intro st acc D hok hs hst hdec
    have hokh : hlOk t h := hok h (by simp)
    obtain ⟨tok, hstep, hdtok⟩ := toSemanticTokens_step t h (hls.map (hlBytes t)) st acc hokh
      (hst h hls rfl)
    have := ih (clientLineCol t h.1) (acc ++ [tok]) (D ++ [hlExpected t h])
      (fun h' hh' => hok h' (by simp [hh'])) (hlSorted_tail h hls hs)
      (by
        intro h' hls' heq
        subst heq
        have hok' : hlOk t h' := hok h' (by simp)
        have hle : h.2.1 ≤ h'.1 := hs.1
        have := clientLineCol_strict_mono t h.1 h'.1 (by have := hokh.1; omega)
          (by have := hok'.1; have := hok'.2.1; omega)
        unfold posLt at this; unfold posLe; omega)
      (by
        intro more
        rw [List.append_assoc, hdec, List.singleton_append, hdtok more]
        simp)
    obtain ⟨ts, h1, h2⟩ := this
    refine ⟨ts, ?_, ?_⟩
    · rw [List.map_cons, hstep, h1]
    · rw [h2]; simp

/-- sortedness gives every later highlight a start at or after `x` -/
theorem hlSorted_all_ge : ∀ (hls : List Hl) (x : Nat), (∀ h ∈ hls, h.1 < h.2.1) → hlSorted hls →
    (∀ h hls', hls = h :: hls' → x ≤ h.1) → ∀ b ∈ hls, x ≤ b.1 := by
  intro hls
  induction hls with
  | nil => intro x _ _ _ b hb; simp at hb
  | cons a l ih =>
    intro x hlt hs hx b hb
    have hxa := hx a l rfl
    simp only [List.mem_cons] at hb
    rcases hb with hb | hb
    · subst hb; exact hxa
    · apply ih x (fun h hh => hlt h (by simp [hh])) (hlSorted_tail a l hs) ?_ b hb
      intro h' l' heq
      subst heq
      have h1 : a.2.1 ≤ h'.1 := hs.1
      have h2 := hlt a (by simp)
      omega

theorem hlSorted_pairwise : ∀ (hls : List Hl), (∀ h ∈ hls, h.1 < h.2.1) → hlSorted hls →
    List.Pairwise (fun a b : Hl => a.2.1 ≤ b.1) hls := by
  intro hls
  induction hls with
  | nil => intro _ _; exact List.Pairwise.nil
  | cons a l ih =>
    intro hlt hs
    refine List.Pairwise.cons ?_ (ih (fun h hh => hlt h (by simp [hh])) (hlSorted_tail a l hs))
    apply hlSorted_all_ge l a.2.1 (fun h hh => hlt h (by simp [hh])) (hlSorted_tail a l hs)
    intro h' l' heq
    subst heq
    exact hs.1

theorem hl_pair_lt (t : List Char) (a b : Hl) (ha : hlOk t a) (hb : hlOk t b) (hab : a.2.1 ≤ b.1) :
    posLt ((hlExpected t a).1, (hlExpected t a).2.1 + (hlExpected t a).2.2.1 - 1)
      ((hlExpected t b).1, (hlExpected t b).2.1) := by
  obtain ⟨la, x, y, lb, _, hcj, hck, hpos⟩ := hl_decomp t a ha
  simp only [hlExpected, hcj]
  rcases Nat.lt_or_ge a.2.1 b.1 with hlt | hge
  · have := clientLineCol_strict_mono t a.2.1 b.1 hlt (by have := hb.1; have := hb.2.1; omega)
    rw [hck] at this
    unfold posLt at *
    simp only at this ⊢
    omega
  · have e : b.1 = a.2.1 := by omega
    rw [e, hck]
    unfold posLt
    simp only
    right
    exact ⟨trivial, by omega⟩

theorem hl_inside (t : List Char) (h : Hl) (hok : hlOk t h) :
    (hlExpected t h).2.1 + (hlExpected t h).2.2.1 ≤ lineLen16 t (hlExpected t h).1 ∧
    0 < (hlExpected t h).2.2.1 := by
  obtain ⟨la, x, y, lb, ht, hcj, _, hpos⟩ := hl_decomp t h hok
  simp only [hlExpected, hcj, lineLen16, ht]
  refine ⟨?_, hpos⟩
  simp [u16sum_append]

end Glas.Text
