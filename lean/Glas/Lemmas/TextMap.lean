import Glas.Lemmas.TextLines
/-! Lemmas about `startsFrom`, `diffsOf` and the `LineMap` lookups. -/
namespace Glas.Text

/-- total byte length of a list of lines, each with its line break -/
def lsum (ls : List (List Char)) : Nat := (ls.map (fun l => u8sum l + 1)).sum

theorem lsum_nil : lsum [] = 0 := rfl
theorem lsum_cons (l : List Char) (ls : List (List Char)) : lsum (l :: ls) = u8sum l + 1 + lsum ls := by
  simp [lsum]
theorem lsum_append (a b : List (List Char)) : lsum (a ++ b) = lsum a + lsum b := by
  simp [lsum]

theorem u8_nl : u8 '\n' = 1 := by decide

theorem lsum_splitLines (t : List Char) : lsum (splitLines t) = u8sum t + 1 := by
  induction t with
  | nil => simp [splitLines, lsum, u8sum]
  | cons c cs ih =>
    obtain ⟨l, ls, h⟩ := splitLines_exists_cons cs
    by_cases hc : c = '\n'
    · subst hc
      rw [splitLines_cons_nl, lsum_cons, ih, u8sum_cons, u8_nl, u8sum_nil]; omega
    · rw [splitLines_cons_ne c cs l ls hc h, lsum_cons, u8sum_cons, u8sum_cons]
      rw [h, lsum_cons] at ih
      omega

theorem startsFrom_length : ∀ (ls : List (List Char)) (b : Nat), (startsFrom ls b).length = ls.length := by
  intro ls
  induction ls with
  | nil => intro b; rfl
  | cons l ls ih => intro b; simp [startsFrom, ih]

theorem startsFrom_getElem? : ∀ (ls : List (List Char)) (b n : Nat), n < ls.length →
    (startsFrom ls b)[n]? = some (b + lsum (ls.take n)) := by
  intro ls
  induction ls with
  | nil => intro b n h; simp at h
  | cons l ls ih =>
    intro b n h
    cases n with
    | zero => simp [startsFrom, lsum_nil]
    | succ n =>
      have h' : n < ls.length := by simpa using h
      simp only [startsFrom, List.getElem?_cons_succ, List.take_succ_cons, lsum_cons]
      rw [ih _ n h']
      congr 1; omega

theorem startsFrom_takeWhile_nil (ls : List (List Char)) (b pos : Nat) (h : pos < b) :
    (startsFrom ls b).takeWhile (fun i => decide (i ≤ pos)) = [] := by
  cases ls with
  | nil => rfl
  | cons l ls =>
    simp only [startsFrom]
    rw [List.takeWhile_cons]
    have : ¬ b ≤ pos := by omega
    simp [this]

theorem startsFrom_takeWhile : ∀ (ls : List (List Char)) (b n : Nat) (l : List Char) (pos : Nat),
    ls[n]? = some l → b + lsum (ls.take n) ≤ pos → pos ≤ b + lsum (ls.take n) + u8sum l →
    ((startsFrom ls b).takeWhile (fun i => decide (i ≤ pos))).length = n + 1 := by
  intro ls
  induction ls with
  | nil => intro b n l pos h; simp at h
  | cons l0 ls ih =>
    intro b n l pos h h1 h2
    cases n with
    | zero =>
      simp at h; subst h
      simp only [List.take_zero, lsum_nil, Nat.add_zero] at h1 h2
      simp only [startsFrom]
      rw [List.takeWhile_cons]
      simp only [h1, decide_true, if_true, List.length_cons]
      rw [startsFrom_takeWhile_nil ls _ pos (by omega)]
      rfl
    | succ n =>
      simp only [List.getElem?_cons_succ] at h
      simp only [List.take_succ_cons, lsum_cons] at h1 h2
      simp only [startsFrom]
      rw [List.takeWhile_cons]
      have hb : b ≤ pos := by omega
      simp only [hb, decide_true, if_true, List.length_cons]
      rw [ih (b + u8sum l0 + 1) n l pos h (by omega) (by omega)]

theorem diffsOf_ge : ∀ (q : List Char) (b : Nat), ∀ d ∈ diffsOf q b, b ≤ d.1 := by
  intro q
  induction q with
  | nil => intro b d h; simp [diffsOf] at h
  | cons c cs ih =>
    intro b d h
    unfold diffsOf at h
    split at h
    · simp only [List.mem_cons] at h
      rcases h with h | h
      · subst h; simp
      · have := ih _ d h; omega
    · have := ih _ d h; omega

theorem diffsOf_takeWhile_nil (q : List Char) (b thr : Nat) (hthr : thr ≤ b) :
    (diffsOf q b).takeWhile (fun d => decide (d.1 < thr)) = [] := by
  cases h : diffsOf q b with
  | nil => rfl
  | cons d ds =>
    have := diffsOf_ge q b d (by simp [h])
    rw [List.takeWhile_cons]
    have : ¬ d.1 < thr := by omega
    simp [this]

/-- the char-diff entries before byte column `u8sum p` sum to `u8sum p − u16sum p` -/
theorem diffsOf_takeWhile : ∀ (p q : List Char) (b : Nat),
    (((diffsOf (p ++ q) b).takeWhile (fun d => decide (d.1 < b + u8sum p))).map (fun d => d.2)).sum
      + u16sum p = u8sum p := by
  intro p
  induction p with
  | nil =>
    intro q b
    rw [List.nil_append, diffsOf_takeWhile_nil q b _ (by simp [u8sum_nil])]; rfl
  | cons c cs ih =>
    intro q b
    have h8 := u8_pos c
    have hle := u16_le_u8 c
    have e : b + u8sum (c :: cs) = (b + u8 c) + u8sum cs := by rw [u8sum_cons]; omega
    rw [e, List.cons_append, u8sum_cons, u16sum_cons]
    have := ih q (b + u8 c)
    unfold diffsOf
    split
    · rw [List.takeWhile_cons]
      have hlt : b < b + u8 c + u8sum cs := by omega
      simp only [hlt, decide_true, if_true, List.map_cons, List.sum_cons]
      omega
    · rename_i hn
      have ⟨h1, h2⟩ := narrow c hn
      omega

/-- all char-diff entries of a line sum to `u8sum − u16sum` -/
theorem diffsOf_sum : ∀ (p : List Char) (b : Nat),
    ((diffsOf p b).map (fun d => d.2)).sum + u16sum p = u8sum p := by
  intro p
  induction p with
  | nil => intro b; rfl
  | cons c cs ih =>
    intro b
    have h8 := u8_pos c
    have hle := u16_le_u8 c
    have := ih (b + u8 c)
    rw [u8sum_cons, u16sum_cons]
    unfold diffsOf
    split
    · simp only [List.map_cons, List.sum_cons]; omega
    · rename_i hn
      have ⟨h1, h2⟩ := narrow c hn
      omega

end Glas.Text
