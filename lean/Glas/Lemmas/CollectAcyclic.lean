import Glas.Lemmas.Collect
/-!
M-collect on ACYCLIC tables: the placeholder never reaches an answer.  The invariant: every cache entry that
contains the placeholder belongs to a class *above* the one being worked on (in the height function that
witnesses acyclicity), so the descent - which only goes down - never meets it.
-/
namespace Glas.Lemmas.Collect
open Glas.UF Glas.Collect

/-- no placeholder anywhere in a frozen type -/
def noUnk : T → Bool
  | .unknown => false
  | .generic _ => true
  | .base _ => true
  | .result a b => noUnk a && noUnk b
  | .list a => noUnk a
  | .tuple fs => noUnk fs
  | .fn ps r => noUnk ps && noUnk r
  | .adt _ ps => noUnk ps
  | .anil => true
  | .acons h t => noUnk h && noUnk t

/-- `h` strictly decreases from every class to the classes of its children: the table has no cyclic type -/
def Acyclic (tbl : Table N) (h : Nat → Nat) : Prop :=
  ∀ i node, i < tbl.length → parentOf tbl i = i → valOf tbl i = some node →
    ∀ c ∈ node.children, h (rootOf tbl c) < h i

/-- entries that contain the placeholder sit at height `hb` or above -/
def InvGe (h : Nat → Nat) (st : St) (hb : Nat) : Prop :=
  ∀ (j : Nat) (t : T), st.cache[j]? = some (some t) → noUnk t = true ∨ hb ≤ h j

/-- every entry of `st'` is placeholder-free or was already there -/
def Frame (st st' : St) : Prop :=
  ∀ (j : Nat) (t : T), st'.cache[j]? = some (some t) → noUnk t = true ∨ st.cache[j]? = some (some t)

theorem Frame.refl (st : St) : Frame st st := fun _ _ h => Or.inr h

theorem Frame.trans {a b c : St} (h1 : Frame a b) (h2 : Frame b c) : Frame a c := by
  intro j t h
  rcases h2 j t h with g | g
  · exact Or.inl g
  · exact h1 j t g

theorem InvGe.frame {h : Nat → Nat} {st st' : St} {hb : Nat} (hi : InvGe h st hb) (hf : Frame st st') :
    InvGe h st' hb := by
  intro j t e
  rcases hf j t e with g | g
  · exact Or.inl g
  · exact hi j t g

theorem letterOf_frame (st : St) (idx : Nat) : Frame st (letterOf st idx).2 := by
  intro j t e
  rw [letterOf_cache] at e
  exact Or.inr e

/-- the collector's contract below height `hb` -/
def RecOk2 (tbl : Table N) (h : Nat → Nat) (bound hb : Nat) (rec : Nat → St → Res T) : Prop :=
  ∀ x st, x < tbl.length → st.cache.length = tbl.length → pending st ≤ bound → h (rootOf tbl x) < hb →
    InvGe h st hb →
    ∃ t st', rec x st = .ok t st' ∧ Step tbl.length st st' ∧ noUnk t = true ∧ Frame st st'

theorem collectList_ok2 (tbl : Table N) (h : Nat → Nat) (bound hb : Nat) (rec : Nat → St → Res T)
    (hrec : RecOk2 tbl h bound hb rec) :
    ∀ (vs : List Nat) (st : St), (∀ v ∈ vs, v < tbl.length ∧ h (rootOf tbl v) < hb) →
      st.cache.length = tbl.length → pending st ≤ bound → InvGe h st hb →
      ∃ ts st', collectList rec vs st = .ok ts st' ∧ Step tbl.length st st' ∧ noUnk ts = true ∧ Frame st st' := by
  intro vs
  induction vs with
  | nil => intro st _ hl _ _; exact ⟨.anil, st, rfl, ⟨hl, Nat.le_refl _⟩, rfl, Frame.refl st⟩
  | cons v vs ih =>
    intro st hv hl hp hi
    obtain ⟨t, st1, h1, s1, n1, f1⟩ := hrec v st (hv v (by simp)).1 hl hp (hv v (by simp)).2 hi
    obtain ⟨ts, st2, h2, s2, n2, f2⟩ := ih st1 (fun w hw => hv w (by simp [hw])) s1.len
      (by have := s1.pend; omega) (hi.frame f1)
    refine ⟨.acons t ts, st2, ?_, ⟨s2.len, by have := s1.pend; have := s2.pend; omega⟩, ?_, f1.trans f2⟩
    · simp only [collectList, h1, h2]
    · simp [noUnk, n1, n2]

theorem collectNode_ok2 (tbl : Table N) (h : Nat → Nat) (bound hb : Nat) (rec : Nat → St → Res T)
    (hrec : RecOk2 tbl h bound hb rec) (node : N) (st : St)
    (hc : ∀ c ∈ node.children, c < tbl.length ∧ h (rootOf tbl c) < hb)
    (hl : st.cache.length = tbl.length) (hp : pending st ≤ bound) (hi : InvGe h st hb) :
    ∃ t st', collectNode rec node st = .ok t st' ∧ Step tbl.length st st' ∧ noUnk t = true ∧ Frame st st' := by
  cases node with
  | unk idx =>
    refine ⟨.generic (letterOf st idx).1, (letterOf st idx).2, rfl, ⟨?_, ?_⟩, rfl, letterOf_frame st idx⟩
    · rw [letterOf_cache]; exact hl
    · simp only [pending_eq, letterOf_cache]; exact Nat.le_refl _
  | base k => exact ⟨.base k, st, rfl, ⟨hl, Nat.le_refl _⟩, rfl, Frame.refl st⟩
  | result a b =>
    have ha := hc a (by simp [N.children])
    have hb' := hc b (by simp [N.children])
    obtain ⟨ta, st2, h1, s1, n1, f1⟩ := hrec a st ha.1 hl hp ha.2 hi
    obtain ⟨tb, st3, h2, s2, n2, f2⟩ := hrec b st2 hb'.1 s1.len (by have := s1.pend; omega) hb'.2 (hi.frame f1)
    refine ⟨.result ta tb, st3, ?_, ⟨s2.len, by have := s1.pend; have := s2.pend; omega⟩, ?_, f1.trans f2⟩
    · simp only [collectNode, h1, h2]
    · simp [noUnk, n1, n2]
  | list a =>
    have ha := hc a (by simp [N.children])
    obtain ⟨ta, st2, h1, s1, n1, f1⟩ := hrec a st ha.1 hl hp ha.2 hi
    refine ⟨.list ta, st2, ?_, s1, ?_, f1⟩
    · simp only [collectNode, h1]
    · simp [noUnk, n1]
  | tuple fs =>
    obtain ⟨ts, st2, h1, s1, n1, f1⟩ := collectList_ok2 tbl h bound hb rec hrec fs st
      (fun v hv => hc v (by simpa [N.children] using hv)) hl hp hi
    refine ⟨.tuple ts, st2, ?_, s1, ?_, f1⟩
    · simp only [collectNode, h1]
    · simp [noUnk, n1]
  | fn ps ret =>
    obtain ⟨ts, st2, h1, s1, n1, f1⟩ := collectList_ok2 tbl h bound hb rec hrec ps st
      (fun v hv => hc v (by simp [N.children, hv])) hl hp hi
    have hr := hc ret (by simp [N.children])
    obtain ⟨tr, st3, h2, s2, n2, f2⟩ := hrec ret st2 hr.1 s1.len (by have := s1.pend; omega) hr.2 (hi.frame f1)
    refine ⟨.fn ts tr, st3, ?_, ⟨s2.len, by have := s1.pend; have := s2.pend; omega⟩, ?_, f1.trans f2⟩
    · simp only [collectNode, h1, h2]
    · simp [noUnk, n1, n2]
  | adt id ps =>
    obtain ⟨ts, st2, h1, s1, n1, f1⟩ := collectList_ok2 tbl h bound hb rec hrec ps st
      (fun v hv => hc v (by simpa [N.children] using hv)) hl hp hi
    refine ⟨.adt id ts, st2, ?_, s1, ?_, f1⟩
    · simp only [collectNode, h1]
    · simp [noUnk, n1]

end Glas.Lemmas.Collect
