import Glas.Model.Diag
/-! Lemmas about M-diag (invariants of `step` under `Flags.good`). -/
namespace Glas.Diag

/-! ## `spawn` / `spawnAll` under `Flags.good` -/

/-- the task that `spawn Flags.good s d` starts -/
def newTask (s : St) (d : Nat) : Task := { doc := d, gen := s.gens.getD d 0 + 1, snap := s.version }

theorem spawn_good (s : St) (d : Nat) :
    spawn Flags.good s d =
      { s with gens := s.gens.set d (s.gens.getD d 0 + 1), running := s.running ++ [newTask s d] } := by
  simp [spawn, Flags.good, setAt, newTask]

theorem getD_set_ne (l : List Nat) (i j x : Nat) (h : i ≠ j) : (l.set i x).getD j 0 = l.getD j 0 := by
  simp [List.getD, h]

theorem getD_set_eq (l : List Nat) (i x : Nat) (h : i < l.length) : (l.set i x).getD i 0 = x := by
  simp [List.getD, h]

theorem spawnAll_version (fl : Flags) (s : St) (ds : List Nat) : (spawnAll fl s ds).version = s.version := by
  induction ds generalizing s with
  | nil => rfl
  | cons d ds ih => simp [spawnAll, ih, spawn]

theorem spawnAll_ndocs (fl : Flags) (s : St) (ds : List Nat) : (spawnAll fl s ds).ndocs = s.ndocs := by
  induction ds generalizing s with
  | nil => rfl
  | cons d ds ih => simp [spawnAll, ih, spawn]

theorem spawnAll_queue (fl : Flags) (s : St) (ds : List Nat) : (spawnAll fl s ds).queue = s.queue := by
  induction ds generalizing s with
  | nil => rfl
  | cons d ds ih => simp [spawnAll, ih, spawn]

theorem spawnAll_shown (fl : Flags) (s : St) (ds : List Nat) : (spawnAll fl s ds).shown = s.shown := by
  induction ds generalizing s with
  | nil => rfl
  | cons d ds ih => simp [spawnAll, ih, spawn]

theorem spawnAll_gens_length (fl : Flags) (s : St) (ds : List Nat) :
    (spawnAll fl s ds).gens.length = s.gens.length := by
  induction ds generalizing s with
  | nil => rfl
  | cons d ds ih => simp [spawnAll, ih, spawn, setAt]

theorem spawnAll_gens_notMem (s : St) (ds : List Nat) (d : Nat) (h : d ∉ ds) :
    (spawnAll Flags.good s ds).gens.getD d 0 = s.gens.getD d 0 := by
  induction ds generalizing s with
  | nil => rfl
  | cons e ds ih =>
    simp only [List.mem_cons, not_or] at h
    rw [spawnAll, ih _ h.2, spawn_good]
    exact getD_set_ne _ _ _ _ (fun he => h.1 he.symm)

theorem spawnAll_gens_mem (s : St) (ds : List Nat) (hnd : ds.Nodup) (d : Nat) (h : d ∈ ds)
    (hd : d < s.gens.length) :
    (spawnAll Flags.good s ds).gens.getD d 0 = s.gens.getD d 0 + 1 := by
  induction ds generalizing s with
  | nil => cases h
  | cons e ds ih =>
    rw [List.nodup_cons] at hnd
    rw [spawnAll]
    rcases List.mem_cons.1 h with rfl | hmem
    · rw [spawnAll_gens_notMem _ _ _ hnd.1, spawn_good]
      exact getD_set_eq _ _ _ hd
    · have hne : e ≠ d := fun he => hnd.1 (he ▸ hmem)
      rw [ih _ hnd.2 hmem (by rw [spawn_good]; simpa using hd), spawn_good]
      show (s.gens.set e _).getD d 0 + 1 = _
      rw [getD_set_ne _ _ _ _ hne]

theorem spawnAll_running (s : St) (ds : List Nat) (hnd : ds.Nodup) :
    (spawnAll Flags.good s ds).running = s.running ++ ds.map (newTask s) := by
  induction ds generalizing s with
  | nil => simp [spawnAll]
  | cons e ds ih =>
    rw [List.nodup_cons] at hnd
    rw [spawnAll, ih _ hnd.2, spawn_good]
    simp only [List.map_cons, List.append_assoc, List.singleton_append]
    congr 2
    apply List.map_congr_left
    intro d hd
    have hne : e ≠ d := fun he => hnd.1 (he ▸ hd)
    show Task.mk d ((s.gens.set e _).getD d 0 + 1) s.version = _
    rw [getD_set_ne _ _ _ _ hne]; rfl

/-! ## the invariant -/

structure Inv (n : Nat) (s : St) : Prop where
  ndocs : s.ndocs = n
  gensLen : s.gens.length = n
  shownLen : s.shown.length = n
  task : ∀ t ∈ s.running, t.doc < n ∧ t.gen ≤ s.gens.getD t.doc 0 ∧ t.snap ≤ s.version ∧
    (t.gen = s.gens.getD t.doc 0 → t.snap = s.version)
  msg : ∀ m ∈ s.queue, m.doc < n ∧ m.gen ≤ s.gens.getD m.doc 0 ∧
    (∃ v, m.content = some v ∧ v ≤ s.version) ∧
    (m.gen = s.gens.getD m.doc 0 → m.content = some s.version)
  shown : ∀ d, d < n → s.shown[d]? = some .nothing ∨ ∃ v, s.shown[d]? = some (.ofVersion v) ∧ v ≤ s.version
  conv : 1 ≤ s.version → ∀ d, d < n →
    (∃ t ∈ s.running, t.doc = d ∧ t.gen = s.gens.getD d 0) ∨
    (∃ m ∈ s.queue, m.doc = d ∧ m.gen = s.gens.getD d 0) ∨
    s.shown[d]? = some (.ofVersion s.version)

theorem inv_init (n : Nat) : Inv n (init n) := by
  refine ⟨rfl, by simp [init], by simp [init], ?_, ?_, ?_, ?_⟩
  · intro t ht; simp [init] at ht
  · intro m hm; simp [init] at hm
  · intro d hd; left; simp [init, hd]
  · intro h; simp [init] at h

theorem mem_of_getElem? {α} {l : List α} {i : Nat} {x : α} (h : l[i]? = some x) : x ∈ l :=
  List.mem_of_getElem? h

theorem mem_of_mem_eraseIdx {α} {l : List α} {i : Nat} {x : α} (h : x ∈ l.eraseIdx i) : x ∈ l :=
  List.mem_of_mem_eraseIdx h

/-- an element of `l` other than the one at position `i` is still in `l.eraseIdx i` -/
theorem mem_eraseIdx_of_ne {α} {l : List α} {i : Nat} {x y : α} (hx : x ∈ l) (hy : l[i]? = some y)
    (hne : x ≠ y) : x ∈ l.eraseIdx i := by
  rw [List.mem_eraseIdx_iff_getElem?]
  obtain ⟨j, hj⟩ := List.getElem?_of_mem hx
  refine ⟨j, ?_, hj⟩
  intro hji
  subst hji
  rw [hj] at hy
  exact hne (Option.some.inj hy)

/-! ## `step` preserves the invariant -/

theorem inv_spawnAll {n : Nat} {s : St} (h : Inv n s) :
    Inv n (spawnAll Flags.good { s with version := s.version + 1 } (List.range n)) := by
  have hg : ∀ d, d < n →
      (spawnAll Flags.good { s with version := s.version + 1 } (List.range n)).gens.getD d 0
        = s.gens.getD d 0 + 1 := fun d hd =>
    spawnAll_gens_mem _ _ List.nodup_range d (List.mem_range.2 hd) (by rw [h.gensLen]; exact hd)
  have hr := spawnAll_running { s with version := s.version + 1 } (List.range n) List.nodup_range
  refine ⟨by rw [spawnAll_ndocs]; exact h.ndocs, by rw [spawnAll_gens_length]; exact h.gensLen,
    by rw [spawnAll_shown]; exact h.shownLen, ?_, ?_, ?_, ?_⟩
  · intro t ht
    rw [hr, List.mem_append] at ht
    rw [spawnAll_version]
    rcases ht with ht | ht
    · obtain ⟨h1, h2, h3, h4⟩ := h.task t ht
      rw [hg _ h1]
      exact ⟨h1, by omega, by show t.snap ≤ s.version + 1; omega, by omega⟩
    · rw [List.mem_map] at ht
      obtain ⟨d, hd, rfl⟩ := ht
      rw [List.mem_range] at hd
      show d < n ∧ s.gens.getD d 0 + 1 ≤ _ ∧ s.version + 1 ≤ s.version + 1 ∧ (_ → s.version + 1 = s.version + 1)
      have := hg d hd
      exact ⟨hd, by simp only [newTask] at *; omega, by omega, fun _ => rfl⟩
  · intro m hm
    rw [spawnAll_queue] at hm
    rw [spawnAll_version]
    obtain ⟨h1, h2, ⟨v, h3, h3'⟩, h4⟩ := h.msg m hm
    rw [hg _ h1]
    exact ⟨h1, by omega, ⟨v, h3, by show v ≤ s.version + 1; omega⟩, by omega⟩
  · intro d hd
    rw [spawnAll_shown, spawnAll_version]
    rcases h.shown d hd with h1 | ⟨v, h1, h2⟩
    · exact Or.inl h1
    · exact Or.inr ⟨v, h1, by show v ≤ s.version + 1; omega⟩
  · intro _ d hd
    left
    refine ⟨newTask { s with version := s.version + 1 } d, ?_, rfl, ?_⟩
    · rw [hr, List.mem_append]
      exact Or.inr (List.mem_map.2 ⟨d, List.mem_range.2 hd, rfl⟩)
    · rw [hg d hd]; rfl

theorem inv_step {n : Nat} {s : St} (h : Inv n s) (e : Ev) : Inv n (step Flags.good s e) := by
  cases e with
  | change c =>
    have hs : step Flags.good s (.change c)
        = spawnAll Flags.good { s with version := s.version + 1 } (List.range s.ndocs) := by
      simp [step, Flags.good]
    rw [hs]
    have hn := h.ndocs
    subst hn
    exact inv_spawnAll h
  | finishOk i =>
    simp only [step]
    split
    · exact h
    · rename_i t ht
      have htm := mem_of_getElem? ht
      obtain ⟨t1, t2, t3, t4⟩ := h.task t htm
      refine ⟨h.ndocs, h.gensLen, h.shownLen, ?_, ?_, h.shown, ?_⟩
      · intro t' ht'
        exact h.task t' (mem_of_mem_eraseIdx ht')
      · intro m hm
        rcases List.mem_append.1 hm with hm | hm
        · exact h.msg m hm
        · rw [List.mem_singleton] at hm
          subst hm
          exact ⟨t1, t2, ⟨t.snap, rfl, t3⟩, fun hg => by rw [t4 hg]⟩
      · intro hv d hd
        rcases h.conv hv d hd with ⟨t', ht', hd', hg'⟩ | ⟨m, hm, hd', hg'⟩ | hsh
        · by_cases hne : t' = t
          · subst hne
            right; left
            exact ⟨_, List.mem_append.2 (Or.inr (List.mem_singleton.2 rfl)), hd', hg'⟩
          · left
            exact ⟨t', mem_eraseIdx_of_ne ht' ht hne, hd', hg'⟩
        · right; left
          exact ⟨m, List.mem_append.2 (Or.inl hm), hd', hg'⟩
        · exact Or.inr (Or.inr hsh)
  | finishCancelled i =>
    simp only [step]
    split
    · exact h
    · rename_i t ht
      split
      · rename_i hlt
        have hs : (if Flags.good.cancelledSilent = true then
              { s with running := s.running.eraseIdx i }
            else { s with running := s.running.eraseIdx i,
                          queue := s.queue ++ [{ doc := t.doc, gen := t.gen, content := none }] })
            = { s with running := s.running.eraseIdx i } := by simp [Flags.good]
        rw [hs]
        refine ⟨h.ndocs, h.gensLen, h.shownLen, ?_, h.msg, h.shown, ?_⟩
        · intro t' ht'
          exact h.task t' (mem_of_mem_eraseIdx ht')
        · intro hv d hd
          rcases h.conv hv d hd with ⟨t', ht', hd', hg'⟩ | hr
          · left
            refine ⟨t', mem_eraseIdx_of_ne ht' ht ?_, hd', hg'⟩
            intro hne
            subst hne
            have := (h.task t' ht').2.2.2 (by rw [hd']; exact hg')
            omega
          · exact Or.inr hr
      · exact h
  | deliver j =>
    simp only [step]
    split
    · exact h
    · rename_i m hm
      have hmm := mem_of_getElem? hm
      obtain ⟨m1, m2, ⟨v, m3, m3'⟩, m4⟩ := h.msg m hmm
      split
      · rename_i hstale
        have hne : m.gen ≠ s.gens.getD m.doc 0 := by simpa [Flags.good] using hstale
        refine ⟨h.ndocs, h.gensLen, h.shownLen, h.task, ?_, h.shown, ?_⟩
        · intro m' hm'
          exact h.msg m' (mem_of_mem_eraseIdx hm')
        · intro hv d hd
          rcases h.conv hv d hd with hr | ⟨m', hm', hd', hg'⟩ | hsh
          · exact Or.inl hr
          · right; left
            refine ⟨m', mem_eraseIdx_of_ne hm' hm ?_, hd', hg'⟩
            intro he
            subst he
            exact hne (by rw [hd']; exact hg')
          · exact Or.inr (Or.inr hsh)
      · rename_i hfresh
        have heq : m.gen = s.gens.getD m.doc 0 := by simpa [Flags.good] using hfresh
        have hc := m4 heq
        refine ⟨h.ndocs, h.gensLen, by simp [setAt, h.shownLen], h.task, ?_, ?_, ?_⟩
        · intro m' hm'
          exact h.msg m' (mem_of_mem_eraseIdx hm')
        · intro d hd
          show (s.shown.set m.doc _)[d]? = _ ∨ ∃ v, (s.shown.set m.doc _)[d]? = _ ∧ v ≤ s.version
          rw [List.getElem?_set]
          by_cases hdd : m.doc = d
          · right
            refine ⟨s.version, ?_, Nat.le_refl _⟩
            simp [hdd, hc, h.shownLen, hd]
          · simpa [hdd] using h.shown d hd
        · intro hv d hd
          show _ ∨ _ ∨ (s.shown.set m.doc _)[d]? = _
          rw [List.getElem?_set]
          by_cases hdd : m.doc = d
          · right; right
            simp [hdd, hc, h.shownLen, hd]
          · rcases h.conv hv d hd with hr | ⟨m', hm', hd', hg'⟩ | hsh
            · exact Or.inl hr
            · right; left
              refine ⟨m', mem_eraseIdx_of_ne hm' hm ?_, hd', hg'⟩
              intro he
              subst he
              exact hdd hd'
            · right; right
              simpa [hdd] using hsh

theorem run_nil (fl : Flags) (s : St) : run fl s [] = s := rfl

theorem run_cons (fl : Flags) (s : St) (e : Ev) (evs : List Ev) :
    run fl s (e :: evs) = run fl (step fl s e) evs := rfl

theorem inv_run {n : Nat} {s : St} (h : Inv n s) (evs : List Ev) : Inv n (run Flags.good s evs) := by
  induction evs generalizing s with
  | nil => exact h
  | cons e evs ih => rw [run_cons]; exact ih (inv_step h e)

theorem inv_reach (n : Nat) (evs : List Ev) : Inv n (run Flags.good (init n) evs) :=
  inv_run (inv_init n) evs

/-! ## the store version along a run -/

theorem step_change_version (s : St) (c : Nat) :
    (step Flags.good s (.change c)).version = s.version + 1 := by
  have hs : step Flags.good s (.change c)
      = spawnAll Flags.good { s with version := s.version + 1 } (List.range s.ndocs) := by
    simp [step, Flags.good]
  rw [hs, spawnAll_version]

theorem version_le_step (s : St) (e : Ev) : s.version ≤ (step Flags.good s e).version := by
  cases e with
  | change c => rw [step_change_version]; omega
  | finishOk i => simp only [step]; split <;> simp
  | finishCancelled i =>
    simp only [step]
    split
    · simp
    · split
      · split <;> simp
      · simp
  | deliver j =>
    simp only [step]
    split
    · simp
    · split <;> simp

theorem version_le_run (s : St) (evs : List Ev) : s.version ≤ (run Flags.good s evs).version := by
  induction evs generalizing s with
  | nil => exact Nat.le_refl _
  | cons e evs ih => rw [run_cons]; exact Nat.le_trans (version_le_step s e) (ih _)

theorem version_pos_of_change (s : St) (evs : List Ev) (c : Nat) (h : Ev.change c ∈ evs) :
    1 ≤ (run Flags.good s evs).version := by
  induction evs generalizing s with
  | nil => cases h
  | cons e evs ih =>
    rw [run_cons]
    rcases List.mem_cons.1 h with he | he
    · subst he
      have h1 := version_le_run (step Flags.good s (.change c)) evs
      rw [step_change_version] at h1
      omega
    · exact ih _ he

/-! ## what `step` does to `shown` -/

theorem step_shown {n : Nat} {s : St} (h : Inv n s) (e : Ev) (d : Nat) :
    (step Flags.good s e).shown[d]? = s.shown[d]? ∨
    (d < n ∧ (step Flags.good s e).shown[d]? = some (.ofVersion s.version)) := by
  cases e with
  | change c =>
    have hs : step Flags.good s (.change c)
        = spawnAll Flags.good { s with version := s.version + 1 } (List.range s.ndocs) := by
      simp [step, Flags.good]
    rw [hs, spawnAll_shown]
    exact Or.inl rfl
  | finishOk i => left; simp only [step]; split <;> rfl
  | finishCancelled i =>
    left
    simp only [step]
    split
    · rfl
    · split
      · split <;> rfl
      · rfl
  | deliver j =>
    simp only [step]
    split
    · exact Or.inl rfl
    · rename_i m hm
      have hmm := mem_of_getElem? hm
      obtain ⟨m1, m2, _, m4⟩ := h.msg m hmm
      split
      · exact Or.inl rfl
      · rename_i hfresh
        have heq : m.gen = s.gens.getD m.doc 0 := by simpa [Flags.good] using hfresh
        have hc := m4 heq
        show (s.shown.set m.doc _)[d]? = _ ∨ _ ∧ (s.shown.set m.doc _)[d]? = _
        rw [List.getElem?_set]
        by_cases hdd : m.doc = d
        · right
          subst hdd
          exact ⟨m1, by simp [hc, h.shownLen, m1]⟩
        · left
          simp [hdd]

end Glas.Diag
