import Glas.Model.Dsl
/-! Model fuel: once a run does not run out of fuel, more fuel changes nothing. -/
namespace Glas.Lemmas.Dsl
open Glas.Dsl

theorem exec_seq (P : Prog) (n : Nat) (a b : Stmt) (σ : St) (fr : Frame) :
    exec P (n + 1) (.seq a b) σ fr = (match exec P n a σ fr with
      | .norm σ' fr' => exec P n b σ' fr'
      | o => o) := rfl

theorem exec_ite (P : Prog) (n : Nat) (c : Expr) (t e : Stmt) (σ : St) (fr : Frame) :
    exec P (n + 1) (.ite c t e) σ fr = (match evalIn P σ fr c with
      | none => .panic .stuck σ
      | some (v, σ') => if v != 0 then exec P n t σ' fr else exec P n e σ' fr) := rfl

theorem exec_loop (P : Prog) (n : Nat) (b : Stmt) (σ : St) (fr : Frame) :
    exec P (n + 1) (.loop b) σ fr = (match exec P n b σ fr with
      | .norm σ' fr' => exec P n (.loop b) σ' fr'
      | .brk σ' fr' => .norm σ' fr'
      | o => o) := rfl

theorem exec_call (P : Prog) (n f : Nat) (args : List Expr) (margs : List Nat) (dst : Dst) (σ : St) (fr : Frame) :
    exec P (n + 1) (.call f args margs dst) σ fr =
      (match P.procs[f]? with
       | none => .panic .badProg σ
       | some p =>
         match evalArgs P σ fr args with
         | none => .panic .stuck σ
         | some (vs, σ1) =>
           let (mvs, fr1) := takeMarks fr margs
           let callee : Frame :=
             { locals := vs ++ List.replicate (p.nLocals - vs.length) 0,
               marks := mvs ++ List.replicate (p.nMarks - mvs.length) none }
           let d := σ1.depth + 1
           let σ2 := { σ1 with depth := d, maxDepth := max σ1.maxDepth d }
           let fin (σ' : St) (v : RetV) : Out :=
             match assignDst fr1 dst v with
             | some fr2 => .norm { σ' with depth := σ'.depth - 1 } fr2
             | none => .panic .badProg σ'
           match exec P n p.body σ2 callee with
           | .norm σ' _ => fin σ' .unit
           | .ret σ' v => fin σ' v
           | .brk σ' _ => .panic .badProg σ'
           | o => o) := rfl

theorem exec_fuel_succ (P : Prog) : ∀ (n : Nat) (s : Stmt) (σ : St) (fr : Frame),
    exec P n s σ fr ≠ .oof → exec P (n + 1) s σ fr = exec P n s σ fr := by
  intro n
  induction n with
  | zero => intro s σ fr h; exact absurd (by simp [exec]) h
  | succ n ih =>
    intro s σ fr h
    cases s with
    | skip => simp [exec]
    | bump => simp [exec]
    | err c a => simp [exec]
    | «open» m => simp [exec]
    | openBefore m' m => simp [exec]
    | close m k d => simp [exec]
    | assert c => simp [exec]
    | set x e => simp [exec]
    | brk => simp [exec]
    | ret r => simp [exec]
    | seq a b =>
      rw [exec_seq] at h
      rw [exec_seq P (n + 1), exec_seq P n]
      have ha : exec P n a σ fr ≠ .oof := by
        intro hc; rw [hc] at h; exact h rfl
      rw [ih a σ fr ha]
      cases hx : exec P n a σ fr with
      | norm σ' fr' =>
        rw [hx] at h
        exact ih b σ' fr' h
      | _ => rfl
    | ite c t e =>
      rw [exec_ite] at h
      rw [exec_ite P (n + 1), exec_ite P n]
      cases hc : evalIn P σ fr c with
      | none => rfl
      | some x =>
        obtain ⟨v, σ'⟩ := x
        simp only [hc] at h ⊢
        split
        · rename_i hv
          simp only [hv, if_true] at h
          exact ih t σ' fr h
        · rename_i hv
          simp only [hv] at h
          exact ih e σ' fr h
    | loop b =>
      rw [exec_loop] at h
      rw [exec_loop P (n + 1), exec_loop P n]
      have hb : exec P n b σ fr ≠ .oof := by
        intro hc; rw [hc] at h; exact h rfl
      rw [ih b σ fr hb]
      cases hx : exec P n b σ fr with
      | norm σ' fr' =>
        rw [hx] at h
        exact ih (.loop b) σ' fr' h
      | _ => rfl
    | call f args margs dst =>
      rw [exec_call] at h
      rw [exec_call P (n + 1), exec_call P n]
      cases hp : P.procs[f]? with
      | none => rfl
      | some p =>
        simp only [hp] at h ⊢
        cases ha : evalArgs P σ fr args with
        | none => rfl
        | some x =>
          obtain ⟨vs, σ1⟩ := x
          simp only [ha] at h ⊢
          have hb : exec P n p.body
              { σ1 with depth := σ1.depth + 1, maxDepth := max σ1.maxDepth (σ1.depth + 1) }
              { locals := vs ++ List.replicate (p.nLocals - vs.length) 0,
                marks := (takeMarks fr margs).1 ++ List.replicate (p.nMarks - (takeMarks fr margs).1.length) none } ≠ .oof := by
            intro hc; rw [hc] at h; exact h rfl
          rw [ih _ _ _ hb]

/-- more fuel than enough gives the same outcome -/
theorem exec_fuel_mono (P : Prog) (n m : Nat) (s : Stmt) (σ : St) (fr : Frame)
    (h : exec P n s σ fr ≠ .oof) (hm : n ≤ m) : exec P m s σ fr = exec P n s σ fr := by
  induction m with
  | zero =>
    have : n = 0 := by omega
    subst this; rfl
  | succ m ih =>
    by_cases hnm : n = m + 1
    · subst hnm; rfl
    · have h1 := ih (by omega)
      rw [← h1] at h
      rw [exec_fuel_succ P m s σ fr h, h1]

theorem runMain_fuel_mono (P : Prog) (n m : Nat) (toks : List Kind) (h : runMain P n toks ≠ .oof) (hm : n ≤ m) :
    runMain P m toks = runMain P n toks := by
  have hx : exec P n (.call P.main [] [] .none) (initSt toks) { locals := [], marks := [] } ≠ .oof := by
    intro hc
    apply h
    unfold runMain
    rw [hc]
  unfold runMain
  rw [exec_fuel_mono P n m _ _ _ hx hm]

end Glas.Lemmas.Dsl
