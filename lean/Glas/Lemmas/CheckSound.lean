import Glas.Lemmas.CheckSoundExec
/-!
# Soundness of the certificate checker, part 3: the main induction
-/
namespace Glas.Check
open Glas.Dsl

variable {Γ : List Summ} {P : Prog}

/-- soundness of the abstract interpreter for runs with fuel `m` -/
def SoundAt (Γ : List Summ) (P : Prog) (m : Nat) : Prop :=
  ∀ (nl self : Nat) (st : Stmt) (as : List AState) (r : Res) (a : AState) (refs : List Nat)
    (σ : St) (fr : Frame),
    self ≤ rankBound Γ → refs ≠ [] →
    aexecL Γ P.eofKind nl self st as = some r → a ∈ as →
    G P.eofKind a refs σ.toks σ.pos fr.locals → nl ≤ fr.locals.length →
    Post Γ P self (size st) r refs σ fr m (exec P m st σ fr)

theorem Post.weaken {self sz sz' : Nat} {r r' : Res} {refs : List Nat} {σ σ0 : St} {fr fr0 : Frame}
    {m m' : Nat} {o : Out}
    (h : Post Γ P self sz r refs σ fr m o)
    (hn : ∀ x ∈ r.norm, x ∈ r'.norm) (hb : ∀ x ∈ r.brk, x ∈ r'.brk) (hr : ∀ x ∈ r.ret, x ∈ r'.ret)
    (ht : σ.toks = σ0.toks) (hp : σ0.pos ≤ σ.pos) (hl : fr.locals.length = fr0.locals.length)
    (hoof : m < need Γ P self sz refs σ.toks.length σ.pos →
      m' < need Γ P self sz' refs σ0.toks.length σ0.pos) :
    Post Γ P self sz' r' refs σ0 fr0 m' o := by
  cases o with
  | norm σ' fr' =>
    obtain ⟨h1, h2, h3, a', ha', hG'⟩ := h
    exact ⟨h1.trans ht, by omega, h3.trans hl, a', hn _ ha', hG'⟩
  | brk σ' fr' =>
    obtain ⟨h1, h2, h3, a', ha', hG'⟩ := h
    exact ⟨h1.trans ht, by omega, h3.trans hl, a', hb _ ha', hG'⟩
  | ret σ' v =>
    obtain ⟨h1, h2, a', ha', hG'⟩ := h
    exact ⟨h1.trans ht, by omega, a', hr _ ha', hG'⟩
  | panic w σ' => exact h
  | oof => exact hoof h

theorem G.pop {eofK a p refs toks pos locals} (h : G eofK a (p :: refs) toks pos locals) :
    G eofK (pop a) refs toks pos locals := by
  refine ⟨h.cur, h.facts, h.bfacts, ?_, h.le⟩
  have hf := h.flags
  rcases a with ⟨c, f, bf, adv⟩
  cases adv with
  | nil => simp [Flags] at hf
  | cons b bs => simp only [Flags] at hf; exact hf.2.2

theorem G0.pop {a p refs toks pos} (h : G0 a (p :: refs) toks pos) : G0 (pop a) refs toks pos := by
  refine ⟨h.cur, ?_, h.le⟩
  have hf := h.flags
  rcases a with ⟨c, f, bf, adv⟩
  cases adv with
  | nil => simp [Flags] at hf
  | cons b bs => simp only [Flags] at hf; exact hf.2.2

theorem head_lt {adv : List Bool} {p : Nat} {refs : List Nat} {q : Nat}
    (hf : Flags adv (p :: refs) q) (hh : headFlag adv = true) : p < q := by
  cases adv with
  | nil => simp [Flags] at hf
  | cons b bs =>
    simp only [Flags] at hf
    simp only [headFlag] at hh
    exact hf.2.1 hh

theorem G.congr_locals {eofK a refs toks pos locals locals'} (h : G eofK a refs toks pos locals)
    (hl : ∀ y : Nat, locals'[y]? = locals[y]?) : G eofK a refs toks pos locals' :=
  ⟨h.cur, fun x hx => by rw [hl]; exact h.facts x hx, fun x S hx => by rw [hl]; exact h.bfacts x S hx,
    h.flags, h.le⟩

theorem dropDst_sound {eofK a refs toks pos locals locals'} (h : G eofK a refs toks pos locals)
    (d : Dst) (hl : ∀ y : Nat, dstLocal d ≠ some y → locals'[y]? = locals[y]?) :
    G eofK (dropDst d a) refs toks pos locals' := by
  unfold dropDst
  split
  · rename_i x hx
    apply h.forget x
    intro y hy
    apply hl
    rw [hx]
    intro h'; cases h'; exact hy rfl
  · rename_i hx
    apply h.congr_locals
    intro y
    apply hl
    rw [hx]; intro h'; cases h'

theorem checkProcs_get {eofK : Nat} : ∀ {ps : List Proc} {ss : List Summ},
    checkProcs Γ eofK ps ss = true → ∀ {f : Nat} {p : Proc} {s : Summ},
    ps[f]? = some p → ss[f]? = some s → checkProc Γ eofK p s = true := by
  intro ps
  induction ps with
  | nil =>
    intro ss h f p s hp
    cases hp
  | cons q qs ih =>
    intro ss h f p s hp hs
    cases ss with
    | nil => cases hs
    | cons t ts =>
      simp only [checkProcs, Bool.and_eq_true] at h
      cases f with
      | zero =>
        simp only [List.getElem?_cons_zero, Option.some.injEq] at hp hs
        subst hp hs
        exact h.1
      | succ f =>
        simp only [List.getElem?_cons_succ] at hp hs
        exact ih h.2 hp hs

theorem sound_zero (m : Nat) (hm : m = 0) : SoundAt Γ P m := by
  subst hm
  intro nl self st as r a refs σ fr _ _ _ _ _ _
  rw [exec_zero]
  show 0 < need Γ P self (size st) refs σ.toks.length σ.pos
  have := size_pos st
  unfold need; omega

theorem sound_succ (hck : checkWith Γ P = true) (n : Nat) (ih : ∀ k, k < n + 1 → SoundAt Γ P k) :
    SoundAt Γ P (n + 1) := by
  intro nl self st as r a refs σ fr hself hrefs hae ha hG hnl
  have IH := ih n (Nat.lt_succ_self n)
  cases st with
  | skip =>
    simp only [aexecL] at hae; cases hae
    exact ⟨rfl, Nat.le_refl _, rfl, a, ha, hG⟩
  | brk =>
    simp only [aexecL] at hae; cases hae
    exact ⟨rfl, Nat.le_refl _, rfl, a, ha, hG⟩
  | ret rv =>
    simp only [aexecL] at hae; cases hae
    cases rv with
    | unit => exact ⟨rfl, Nat.le_refl _, a, ha, hG.toG0⟩
    | noMark => exact ⟨rfl, Nat.le_refl _, a, ha, hG.toG0⟩
    | nat e =>
      simp only [exec]
      split
      · exact ⟨by simp, by simp⟩
      · rename_i v σ' he
        obtain ⟨_, h2, h3⟩ := evalIn_some he
        refine ⟨h2, by omega, a, ha, ?_⟩
        rw [h2, h3]; exact hG.toG0
    | mark k =>
      simp only [exec]
      split
      · exact ⟨rfl, Nat.le_refl _, a, ha, hG.toG0⟩
      · exact ⟨by simp, by simp⟩
  | err c x =>
    simp only [aexecL] at hae; cases hae
    exact (inert_err P n c x σ fr).post ha hG
  | «open» k =>
    simp only [aexecL] at hae; cases hae
    exact (inert_open P n k σ fr).post ha hG
  | openBefore k k' =>
    simp only [aexecL] at hae; cases hae
    exact (inert_openBefore P n k k' σ fr).post ha hG
  | close k kd d =>
    simp only [aexecL] at hae; cases hae
    exact (inert_close P n k kd d σ fr).post ha hG
  | bump =>
    simp only [aexecL] at hae
    split at hae
    · rename_i hall
      cases hae
      have he : a.cur.e = false := by
        have := List.all_eq_true.mp hall a ha
        simpa using this
      have hlt : σ.pos < σ.toks.length := by
        rcases Nat.lt_or_ge σ.pos σ.toks.length with h | h
        · exact h
        · have hnone : σ.toks[σ.pos]? = none := List.getElem?_eq_none h
          have := hG.cur
          rw [hnone] at this
          simp only [Cur.mem] at this
          rw [he] at this; cases this
      simp only [exec, hlt, if_true]
      refine ⟨rfl, Nat.le_succ _, rfl, consume a, mem_dedup.mpr (List.mem_map.mpr ⟨a, ha, rfl⟩), ?_⟩
      refine ⟨Cur.mem_top _, ?_, ?_, ?_, ?_⟩
      · intro x hx; cases hx
      · intro x S hx; cases hx
      · exact hG.flags.consume (Nat.lt_succ_self _)
      · exact hlt
    · cases hae
  | assert c =>
    simp only [aexecL] at hae
    split at hae
    · rename_i hall
      cases hae
      simp only [exec]
      split
      · exact ⟨by simp, by simp⟩
      · rename_i v σ' he
        obtain ⟨hv, h2, h3⟩ := evalIn_some he
        have hrs := refine_sound (P := P) c a hG
        by_cases hv0 : v = 0
        · exfalso
          obtain ⟨a', ha', _⟩ := hrs.2 (by rw [← hv]; exact hv0)
          have := List.all_eq_true.mp hall a ha
          simp only [List.isEmpty_iff] at this
          rw [this] at ha'; cases ha'
        · have : (v != 0) = true := by simpa using hv0
          simp only [this, if_true]
          obtain ⟨a', ha', hG'⟩ := hrs.1 (by rw [← hv]; exact hv0)
          refine ⟨h2, by omega, rfl, a', mem_dedup.mpr (List.mem_flatMap.mpr ⟨a, ha, ha'⟩), ?_⟩
          rw [h2, h3]; exact hG'
    · cases hae
  | set x e =>
    simp only [aexecL] at hae; cases hae
    simp only [exec]
    split
    · exact ⟨by simp, by simp⟩
    · rename_i v σ' he
      obtain ⟨hv, h2, h3⟩ := evalIn_some he
      refine ⟨h2, by omega, by simp [setLocal, setNth_length],
        setFact nl x e a, mem_dedup.mpr (List.mem_map.mpr ⟨a, ha, rfl⟩), ?_⟩
      rw [h2, h3, hv]
      exact setFact_sound hG nl x e hnl
  | seq s1 s2 =>
    simp only [aexecL] at hae
    split at hae
    · cases hae
    · rename_i r1 h1
      split at hae
      · cases hae
      · rename_i r2 h2
        cases hae
        have hX := IH nl self s1 as r1 a refs σ fr hself hrefs h1 ha hG hnl
        rw [exec_seq]
        generalize exec P n s1 σ fr = o1 at hX
        have hsz1 := size_pos s1
        have hsz2 := size_pos s2
        cases o1 with
        | norm σ' fr' =>
          obtain ⟨ht, hp, hl, a', ha', hG'⟩ := hX
          have hY := IH nl self s2 r1.norm r2 a' refs σ' fr' hself hrefs h2 ha' hG' (by omega)
          simp only []
          refine hY.weaken (fun _ h => h) (fun _ h => mem_unionL.mpr (Or.inr h))
            (fun _ h => mem_unionL.mpr (Or.inr h)) ht hp hl ?_
          intro hlt
          have hle' : σ'.pos ≤ σ.toks.length := by rw [← ht]; exact hG'.le
          have := need_step (Γ := Γ) (P := P) (self := self) (sz' := size s2) (sz := size (.seq s1 s2))
            (refs := refs) (len := σ.toks.length) hself (by simp [size]) hp hle'
          rw [ht] at hlt
          simp only [size] at this ⊢
          omega
        | brk σ' fr' =>
          obtain ⟨q1, q2, q3, a', ha', hG'⟩ := hX
          exact ⟨q1, q2, q3, a', mem_unionL.mpr (Or.inl ha'), hG'⟩
        | ret σ' v =>
          obtain ⟨q1, q2, a', ha', hG'⟩ := hX
          exact ⟨q1, q2, a', mem_unionL.mpr (Or.inl ha'), hG'⟩
        | panic w σ' => exact hX
        | oof =>
          show n + 1 < need Γ P self (size (.seq s1 s2)) refs σ.toks.length σ.pos
          have hX' : n < need Γ P self (size s1) refs σ.toks.length σ.pos := hX
          unfold need at hX' ⊢
          simp only [size]
          omega
  | ite c t e =>
    simp only [aexecL] at hae
    split at hae
    · cases hae
    · rename_i r1 h1
      split at hae
      · cases hae
      · rename_i r2 h2
        cases hae
        rw [exec_ite]
        split
        · exact ⟨by simp, by simp⟩
        · rename_i v σ' he
          obtain ⟨hv, h2', h3⟩ := evalIn_some he
          have hrs := refine_sound (P := P) c a hG
          have hszt := size_pos t
          have hsze := size_pos e
          by_cases hv0 : v = 0
          · rw [if_neg (by simp [hv0])]
            obtain ⟨a', ha', hG'⟩ := hrs.2 (by rw [← hv]; exact hv0)
            have hG'' : G P.eofKind a' refs σ'.toks σ'.pos fr.locals := by rw [h2', h3]; exact hG'
            have hY := IH nl self e _ r2 a' refs σ' fr hself hrefs h2
              (mem_dedup.mpr (List.mem_flatMap.mpr ⟨a, ha, ha'⟩)) hG'' hnl
            refine hY.weaken (fun _ h => mem_unionL.mpr (Or.inr h)) (fun _ h => mem_unionL.mpr (Or.inr h))
              (fun _ h => mem_unionL.mpr (Or.inr h)) h2' (by omega) rfl ?_
            intro hlt
            rw [h2', h3] at hlt
            unfold need at hlt ⊢
            simp only [size]
            omega
          · rw [if_pos (by simpa using hv0)]
            obtain ⟨a', ha', hG'⟩ := hrs.1 (by rw [← hv]; exact hv0)
            have hG'' : G P.eofKind a' refs σ'.toks σ'.pos fr.locals := by rw [h2', h3]; exact hG'
            have hY := IH nl self t _ r1 a' refs σ' fr hself hrefs h1
              (mem_dedup.mpr (List.mem_flatMap.mpr ⟨a, ha, ha'⟩)) hG'' hnl
            refine hY.weaken (fun _ h => mem_unionL.mpr (Or.inl h)) (fun _ h => mem_unionL.mpr (Or.inl h))
              (fun _ h => mem_unionL.mpr (Or.inl h)) h2' (by omega) rfl ?_
            intro hlt
            rw [h2', h3] at hlt
            unfold need at hlt ⊢
            simp only [size]
            omega
  | loop b =>
    simp only [aexecL] at hae
    split at hae
    · cases hae
    · rename_i rb hb
      split at hae
      · rename_i hall
        cases hae
        have key : ∀ j, j ≤ n + 1 → ∀ (σ1 : St) (fr1 : Frame), σ1.toks = σ.toks → σ.pos ≤ σ1.pos →
            fr1.locals.length = fr.locals.length →
            (∃ g ∈ unionL (as.map pushF) (dedup (as.map generic)),
              G P.eofKind g (σ1.pos :: refs) σ1.toks σ1.pos fr1.locals) →
            Post Γ P self (size (.loop b)) ⟨dedup (rb.brk.map pop), [], dedup (rb.ret.map pop), rb.calls⟩
              refs σ1 fr1 j (exec P j (.loop b) σ1 fr1) := by
          intro j
          induction j with
          | zero =>
            intro _ σ1 fr1 _ _ _ _
            rw [exec_zero]
            show 0 < need Γ P self (size (.loop b)) refs σ1.toks.length σ1.pos
            unfold need; simp only [size]; omega
          | succ j ihj =>
            intro hj σ1 fr1 ht1 hp1 hl1 hex
            obtain ⟨g, hg, hGg⟩ := hex
            have hB := ih j (by omega) nl self b _ rb g (σ1.pos :: refs) σ1 fr1 hself (by simp) hb hg hGg
              (by omega)
            rw [exec_loop]
            generalize exec P j b σ1 fr1 = ob at hB
            cases ob with
            | norm σ2 fr2 =>
              obtain ⟨ht, hp, hl, a', ha', hG'⟩ := hB
              have hh : headFlag a'.adv = true := List.all_eq_true.mp hall a' ha'
              have hlt := head_lt hG'.flags hh
              simp only []
              have hGgen : G P.eofKind (generic a) (σ2.pos :: refs) σ2.toks σ2.pos fr2.locals := by
                refine ⟨Cur.mem_top _, (fun x hx => by cases hx), (fun x S hx => by cases hx), ?_, hG'.le⟩
                show Flags (false :: a.adv.map (fun _ => true)) (σ2.pos :: refs) σ2.pos
                exact (hG.flags.consume (by omega)).push
              have hnext := ihj (by omega) σ2 fr2 (ht.trans ht1) (by omega) (hl.trans hl1)
                ⟨generic a, mem_unionL.mpr (Or.inr (mem_dedup.mpr (List.mem_map.mpr ⟨a, ha, rfl⟩))), hGgen⟩
              refine hnext.weaken (fun _ h => h) (fun _ h => h) (fun _ h => h) ht (by omega) hl ?_
              intro hlt'
              have := need_iter (Γ := Γ) (P := P) (self := self) (sz := size (.loop b)) (refs := refs)
                (len := σ1.toks.length) hself hlt (by rw [← ht]; exact hG'.le)
              rw [ht] at hlt'
              omega
            | brk σ2 fr2 =>
              obtain ⟨ht, hp, hl, a', ha', hG'⟩ := hB
              exact ⟨ht, hp, hl, pop a', mem_dedup.mpr (List.mem_map.mpr ⟨a', ha', rfl⟩), hG'.pop⟩
            | ret σ2 v =>
              obtain ⟨ht, hp, a', ha', hG'⟩ := hB
              exact ⟨ht, hp, pop a', mem_dedup.mpr (List.mem_map.mpr ⟨a', ha', rfl⟩), hG'.pop⟩
            | panic w σ2 => exact hB
            | oof =>
              have hB' : j < need Γ P self (size b) (σ1.pos :: refs) σ1.toks.length σ1.pos := hB
              show j + 1 < need Γ P self (size (.loop b)) refs σ1.toks.length σ1.pos
              unfold need at hB' ⊢
              rw [lastRef_cons hrefs] at hB'
              simp only [size]
              omega
        exact key (n + 1) (Nat.le_refl _) σ fr rfl (Nat.le_refl _) rfl
          ⟨pushF a, mem_unionL.mpr (Or.inl (List.mem_map.mpr ⟨a, ha, rfl⟩)),
            ⟨hG.cur, hG.facts, hG.bfacts, hG.flags.push, hG.le⟩⟩
      · cases hae
  | call f args margs dst =>
    simp only [aexecL] at hae
    split at hae
    · cases hae
    · rename_i s hs
      split at hae
      · rename_i hall
        generalize (if (as.any fun a => !lastFlag a.adv) = true then [f] else []) = cs0 at hae
        cases hae
        have hok := List.all_eq_true.mp hall a ha
        simp only [callOk, Bool.and_eq_true, Bool.or_eq_true, decide_eq_true_eq] at hok
        obtain ⟨hpre, hrank⟩ := hok
        have hcall : lastRef refs < σ.pos ∨ s.rank < self := by
          rcases hrank with h | h
          · exact Or.inl (hG.flags.last h)
          · exact Or.inr h
        have fin : ∀ (σ' : St) (v : RetV) (cs : List Nat), σ'.toks = σ.toks →
            (∃ a'', exitOk s a'' = true ∧ G0 a'' [σ.pos] σ'.toks σ'.pos) →
            Post Γ P self (size (.call f args margs dst))
              ⟨dedup (as.flatMap (callRes s dst)), [], [], cs⟩ refs σ fr (n + 1)
              (finCall (takeMarks fr margs).2 dst σ' v) := by
          intro σ' v cs ht hex
          obtain ⟨a'', hex, hG0⟩ := hex
          unfold finCall
          split
          · rename_i fr2 hfr2
            obtain ⟨hlen, hloc⟩ := assignDst_locals hfr2
            rw [takeMarks_locals] at hlen hloc
            have hge : σ.pos ≤ σ'.pos := hG0.flags.le_all _ (List.mem_singleton.mpr rfl)
            show σ'.toks = σ.toks ∧ σ.pos ≤ σ'.pos ∧ fr2.locals.length = fr.locals.length ∧
              ∃ a' ∈ dedup (as.flatMap (callRes s dst)), G P.eofKind a' refs σ'.toks σ'.pos fr2.locals
            refine ⟨ht, hge, hlen, ?_⟩
            rcases Nat.eq_or_lt_of_le hge with heq | hlt
            · have hnp : s.prog.mem σ.toks[σ.pos]? = false := by
                cases hm : s.prog.mem σ.toks[σ.pos]? with
                | false => rfl
                | true =>
                  exfalso
                  simp only [exitOk, Bool.or_eq_true] at hex
                  rcases hex with h | h
                  · have := hG0.flags.last h
                    simp only [lastRef] at this
                    omega
                  · have h1 := Cur.mem_inter hG0.cur (by rw [ht, ← heq]; exact hm)
                    rw [Cur.not_mem_of_isEmpty h] at h1; cases h1
              have hd := Cur.mem_diff hG.cur hnp
              have hne : (a.cur.diff s.prog).isEmpty = false := by
                cases he : (a.cur.diff s.prog).isEmpty with
                | false => rfl
                | true => rw [Cur.not_mem_of_isEmpty he] at hd; cases hd
              refine ⟨{ dropDst dst a with cur := a.cur.diff s.prog },
                mem_dedup.mpr (List.mem_flatMap.mpr ⟨a, ha, ?_⟩), ?_⟩
              · simp [callRes, hne]
              · rw [ht, ← heq]
                exact (dropDst_sound hG dst hloc).setCur hd
            · refine ⟨consume a, mem_dedup.mpr (List.mem_flatMap.mpr ⟨a, ha, by simp [callRes]⟩), ?_⟩
              refine ⟨Cur.mem_top _, (fun x hx => by cases hx), (fun x S hx => by cases hx), ?_, hG0.le⟩
              exact hG.flags.consume hlt
          · exact ⟨by simp, by simp⟩
        rw [exec_call]
        split
        · exact ⟨by simp, by simp⟩
        · rename_i p hp
          split
          · exact ⟨by simp, by simp⟩
          · rename_i vs σ1 hargs
            obtain ⟨ht1, hp1⟩ := evalArgs_some hargs
            have hck' := hck
            simp only [checkWith, Bool.and_eq_true] at hck'
            have hcp := checkProcs_get hck'.1 hp hs
            unfold checkProc at hcp
            split at hcp
            · cases hcp
            · rename_i rp hrp
              simp only [Bool.and_eq_true] at hcp
              obtain ⟨⟨_, hexn⟩, hexr⟩ := hcp
              have hGinit : G P.eofKind (initState s) [σ.pos] (calleeSt σ1).toks (calleeSt σ1).pos
                  (calleeFr p vs (takeMarks fr margs).1).locals := by
                refine ⟨?_, (fun x hx => by cases hx), (fun x S hx => by cases hx), ?_, ?_⟩
                · show s.pre.mem σ1.toks[σ1.pos]? = true
                  rw [ht1, hp1]; exact Cur.mem_of_sub hpre hG.cur
                · show Flags [false] [σ.pos] σ1.pos
                  rw [hp1]; simp [Flags]
                · show σ1.pos ≤ σ1.toks.length
                  rw [ht1, hp1]; exact hG.le
              have hB := IH p.nLocals s.rank p.body [initState s] rp (initState s) [σ.pos] (calleeSt σ1)
                (calleeFr p vs (takeMarks fr margs).1) (Nat.le_of_lt (rank_lt_bound hs)) (by simp) hrp
                (List.mem_singleton.mpr rfl) hGinit (by simp [calleeFr]; omega)
              generalize exec P n p.body (calleeSt σ1) (calleeFr p vs (takeMarks fr margs).1) = ob at hB
              cases ob with
              | norm σ' fr' =>
                obtain ⟨ht, hpp, _, a'', ha'', hG''⟩ := hB
                exact fin σ' .unit _ (ht.trans ht1) ⟨a'', List.all_eq_true.mp hexn a'' ha'', hG''.toG0⟩
              | ret σ' v =>
                obtain ⟨ht, hpp, a'', ha'', hG''⟩ := hB
                exact fin σ' v _ (ht.trans ht1) ⟨a'', List.all_eq_true.mp hexr a'' ha'', hG''⟩
              | brk σ' fr' => exact ⟨by simp, by simp⟩
              | panic w σ' => exact hB
              | oof =>
                have hB' : n < need Γ P s.rank (size p.body) [σ.pos] σ1.toks.length σ1.pos := hB
                rw [ht1, hp1] at hB'
                have := need_call (Γ := Γ) (P := P) (self := self) (refs := refs) (len := σ.toks.length)
                  (pos := σ.pos) (rank_lt_bound hs) (size_lt_bound hp) hcall
                show n + 1 < need Γ P self (size (.call f args margs dst)) refs σ.toks.length σ.pos
                simp only [size]
                omega
      · cases hae

/-- the abstract interpreter is sound for every amount of fuel -/
theorem sound (hck : checkWith Γ P = true) : ∀ m, SoundAt Γ P m := by
  intro m
  induction m using Nat.strongRecOn with
  | _ m ih =>
    cases m with
    | zero => exact sound_zero 0 rfl
    | succ n => exact sound_succ hck n ih

/-! ## whole runs -/

theorem main_aexec (hck : checkWith Γ P = true) :
    ∃ r, aexecL Γ P.eofKind 0 (rankBound Γ) (.call P.main [] [] .none) [⟨Cur.top, [], [], [false]⟩] = some r := by
  simp only [checkWith, Bool.and_eq_true] at hck
  obtain ⟨_, hm⟩ := hck
  split at hm
  · rename_i s hs
    have hr := rank_lt_bound hs
    cases h : aexecL Γ P.eofKind 0 (rankBound Γ) (.call P.main [] [] .none) [⟨Cur.top, [], [], [false]⟩] with
    | some r => exact ⟨r, rfl⟩
    | none =>
      exfalso
      simp only [aexecL, hs] at h
      rw [if_pos (by simp [callOk, hm, hr])] at h
      cases h
  · cases hm

theorem main_post (hck : checkWith Γ P = true) (n : Nat) (toks : List Kind) :
    ∃ r, Post Γ P (rankBound Γ) 1 r [0] (initSt toks) ⟨[], []⟩ n
      (exec P n (.call P.main [] [] .none) (initSt toks) ⟨[], []⟩) := by
  obtain ⟨r, hr⟩ := main_aexec hck
  refine ⟨r, ?_⟩
  have hG : G P.eofKind ⟨Cur.top, [], [], [false]⟩ [0] (initSt toks).toks (initSt toks).pos
      (⟨[], []⟩ : Frame).locals :=
    ⟨Cur.mem_top _, (fun x hx => by cases hx), (fun x S hx => by cases hx), by simp [Flags, initSt],
      Nat.zero_le _⟩
  exact sound hck n 0 (rankBound Γ) _ _ r _ [0] (initSt toks) ⟨[], []⟩ (Nat.le_refl _) (by simp) hr
    (List.mem_singleton.mpr rfl) hG (Nat.le_refl _)

/-- a checked program never bumps at end of input and never fails an `assert!` -/
theorem safe_of_checkWith (hck : checkWith Γ P = true) (n : Nat) (toks : List Kind) :
    (∀ σ, runMain P n toks ≠ .panic .bumpAtEof σ) ∧ (∀ σ, runMain P n toks ≠ .panic .assertFailed σ) := by
  obtain ⟨r, h⟩ := main_post hck n toks
  unfold runMain
  generalize exec P n (.call P.main [] [] .none) (initSt toks) ⟨[], []⟩ = o at h
  cases o with
  | norm σ' fr' => constructor <;> intro σ0 <;> simp only [] <;> split <;> simp
  | brk σ' fr' => constructor <;> intro σ0 <;> simp
  | ret σ' v => constructor <;> intro σ0 <;> simp
  | oof => constructor <;> intro σ0 <;> simp
  | panic w σ' =>
    obtain ⟨h1, h2⟩ := h
    constructor
    · intro σ0 heq; cases heq; exact h1 rfl
    · intro σ0 heq; cases heq; exact h2 rfl

/-- a checked program terminates: fuel `boundWith Γ P toks.length` is never exhausted -/
theorem terminates_of_checkWith (hck : checkWith Γ P = true) (toks : List Kind) :
    runMain P (boundWith Γ P toks.length) toks ≠ .oof := by
  obtain ⟨r, h⟩ := main_post hck (boundWith Γ P toks.length) toks
  unfold runMain
  generalize exec P (boundWith Γ P toks.length) (.call P.main [] [] .none) (initSt toks) ⟨[], []⟩ = o at h
  cases o with
  | norm σ' fr' => simp only []; split <;> simp
  | brk σ' fr' => simp
  | ret σ' v => simp
  | panic w σ' => simp
  | oof =>
    exfalso
    have h' : boundWith Γ P toks.length < need Γ P (rankBound Γ) 1 [0] (initSt toks).toks.length (initSt toks).pos := h
    unfold need boundWith at h'
    simp only [initSt, lastRef, Nat.lt_irrefl, if_false, Nat.sub_zero] at h'
    omega

end Glas.Check
