import Glas.Model.Conc
/-! Helper lemmas for C12 (readers / writer / cancellation) and C16 (lock choreography). -/
namespace Glas.Conc
open Glas.ChoreoSpec

/-! ## generic -/

theorem mem_modifyNth {α} (f : α → α) : ∀ (l : List α) (i : Nat) (y : α),
    y ∈ modifyNth f l i → y ∈ l ∨ ∃ x ∈ l, y = f x
  | [], _, y, h => by simp [modifyNth] at h
  | x :: xs, 0, y, h => by
    simp only [modifyNth, List.mem_cons] at h
    rcases h with h | h
    · exact Or.inr ⟨x, by simp, h⟩
    · exact Or.inl (by simp [h])
  | x :: xs, n + 1, y, h => by
    simp only [modifyNth, List.mem_cons] at h
    rcases h with h | h
    · exact Or.inl (by simp [h])
    · rcases mem_modifyNth f xs n y h with h' | ⟨z, hz, e⟩
      · exact Or.inl (by simp [h'])
      · exact Or.inr ⟨z, by simp [hz], e⟩

theorem getElem?_append_cons_length {α} (pre : List α) (t : α) (post : List α) :
    (pre ++ t :: post)[pre.length]? = some t := by
  simp

theorem modifyNth_append_cons {α} (f : α → α) : ∀ (pre : List α) (t : α) (post : List α),
    modifyNth f (pre ++ t :: post) pre.length = pre ++ f t :: post
  | [], t, post => by simp [modifyNth]
  | x :: pre, t, post => by
    simp [modifyNth, modifyNth_append_cons f pre t post]

/-! ## C12 -/

theorem step_flags {s s' : Sys} {a : Act} (h : step s a = some s') : s'.flags = s.flags := by
  cases a with
  | snapshot w => simp [step] at h; subst h; rfl
  | queryStep i =>
    simp only [step] at h
    split at h
    · split at h
      · simp at h; subst h; rfl
      · simp at h
    · simp at h
  | requestCancel => simp [step] at h; subst h; rfl
  | applyWrite =>
    simp only [step] at h
    split at h
    · simp at h
    · simp at h; subst h; rfl

/-- a reader produced by one step of the system is an old reader, an old reader stepped, or a
freshly taken snapshot -/
theorem step_readers {s s' : Sys} {a : Act} (h : step s a = some s') (r : Reader) (hr : r ∈ s'.readers) :
    r ∈ s.readers ∨ (∃ x ∈ s.readers, r = stepReader s.flags s.cancelPending x) ∨
      ∃ w, r = { snapRev := s.rev, status := .running w } := by
  cases a with
  | snapshot w =>
    simp [step] at h; subst h
    simp at hr
    rcases hr with hr | hr
    · exact Or.inl hr
    · exact Or.inr (Or.inr ⟨w, hr⟩)
  | queryStep i =>
    simp only [step] at h
    split at h
    · split at h
      · simp at h; subst h
        rcases mem_modifyNth _ _ _ _ hr with h' | h'
        · exact Or.inl h'
        · exact Or.inr (Or.inl h')
      · simp at h
    · simp at h
  | requestCancel => simp [step] at h; subst h; exact Or.inl hr
  | applyWrite =>
    simp only [step] at h
    split at h
    · simp at h
    · simp at h; subst h; exact Or.inl hr

theorem stepReader_done (fl : HostFlags) (c : Bool) (x : Reader)
    (hx : ∀ v, x.status = .done v → v = x.snapRev) :
    ∀ v, (stepReader fl c x).status = .done v → v = (stepReader fl c x).snapRev := by
  intro v
  unfold stepReader
  split
  · split
    · split <;> simp
    · split
      · simp; intro h; exact h.symm
      · simp
  · exact hx v

theorem stepReader_not_crashed (fl : HostFlags) (c : Bool) (x : Reader) (hf : fl.catchCancelled = true)
    (hx : x.status ≠ .crashed) : (stepReader fl c x).status ≠ .crashed := by
  unfold stepReader
  split
  · split
    · simp
    · split <;> simp
  · exact hx

theorem stepReader_cancel_not_running (fl : HostFlags) (x : Reader) :
    isRunning (stepReader fl true x) = false := by
  obtain ⟨rev, st⟩ := x
  cases hc : fl.catchCancelled <;> cases st <;> simp [stepReader, isRunning, hc]

theorem any_running_map_cancel (fl : HostFlags) (l : List Reader) :
    (l.map (stepReader fl true)).any isRunning = false := by
  induction l with
  | nil => rfl
  | cons x xs ih => simp only [List.map_cons, List.any_cons, stepReader_cancel_not_running, ih]; rfl

theorem run_invariant (P : Sys → Prop) (hP : ∀ s a s', P s → step s a = some s' → P s') :
    ∀ (acts : List Act) (s s' : Sys), run s acts = some s' → P s → P s'
  | [], s, s', h, hs => by simp [run] at h; subst h; exact hs
  | a :: as, s, s', h, hs => by
    simp only [run] at h
    split at h
    · rename_i s1 h1
      exact run_invariant P hP as s1 s' h (hP s a s1 hs h1)
    · simp at h

def noFlags : HostFlags :=
  { cancelBeforeApply := false, cancelIsSyntheticWrite := false, catchCancelled := false,
    allQueriesThroughWithDb := false, snapshotIsDbSnapshot := false }

theorem repeat_drain_running (n k : Nat) :
    Nat.repeat drain n { flags := noFlags, rev := 0, cancelPending := false, readers := [⟨0, .running (n + k)⟩] }
      = { flags := noFlags, rev := 0, cancelPending := false, readers := [⟨0, .running k⟩] } := by
  induction n generalizing k with
  | zero => simp [Nat.repeat]
  | succ n ih =>
    have e : n + 1 + k = n + (k + 1) := by omega
    rw [Nat.repeat, e, ih (k + 1)]
    simp [drain, stepReader]

/-! ## C16 -/

theorem lrun_append : ∀ (a b : List LAct) (s : LockSys),
    lrun s (a ++ b) = (lrun s a).bind (fun s' => lrun s' b)
  | [], b, s => by simp [lrun]
  | x :: a, b, s => by
    simp only [List.cons_append, lrun]
    split
    · exact lrun_append a b _
    · rfl

theorem lrun_trans {s s1 s2 : LockSys} {a b : List LAct} (h1 : lrun s a = some s1) (h2 : lrun s1 b = some s2) :
    lrun s (a ++ b) = some s2 := by
  rw [lrun_append, h1]; exact h2

theorem lrun_one {s s1 : LockSys} {a : LAct} (h : lstep s a = some s1) : lrun s [a] = some s1 := by
  simp [lrun, h]

/-- `s'` is reachable from `s` by steps that are not early exits -/
def PRun (s s' : LockSys) : Prop := ∃ acts, acts.all isProgress = true ∧ lrun s acts = some s'

theorem PRun.refl (s : LockSys) : PRun s s := ⟨[], rfl, rfl⟩

theorem PRun.trans {s1 s2 s3 : LockSys} (h1 : PRun s1 s2) (h2 : PRun s2 s3) : PRun s1 s3 := by
  obtain ⟨a, ha, ra⟩ := h1
  obtain ⟨b, hb, rb⟩ := h2
  exact ⟨a ++ b, by simp [List.all_append, ha, hb], lrun_trans ra rb⟩

theorem PRun.one {s s' : LockSys} {a : LAct} (hp : isProgress a = true) (h : lstep s a = some s') : PRun s s' :=
  ⟨[a], by simp [hp], lrun_one h⟩

/-! ### the invariant -/

def headAcq : List Op → Bool
  | .acqVfsW :: _ => true
  | .acqVfsR :: _ => true
  | _ => false

def headDb : List Op → Bool
  | .dbWrite :: _ => true
  | _ => false

/-- a task in the middle of a disciplined handler -/
def TaskDisc (t : Task) : Prop := taskDisciplined t.prog t.held = true

/-- the invariant of the two disciplines -/
structure LInv (s : LockSys) : Prop where
  main : disciplined s.mainOps s.mainHoldsVfs = true
  tasks : ∀ t ∈ s.tasks, TaskDisc t
  handlers : ∀ p ∈ s.handlers, taskDisciplined p 0 = true
  waiting : s.writerWaiting = true → headAcq s.mainOps = true
  cancel : s.cancel = true → headDb s.mainOps = true

theorem taskDisciplined_held_le : ∀ (prog : List TOp) (held : Nat), taskDisciplined prog held = true → held ≤ 1
  | [], held, h => by simp [taskDisciplined] at h; omega
  | .acqR :: r, held, h => by simp [taskDisciplined] at h; omega
  | .relR :: r, held, h => by simp [taskDisciplined] at h; omega
  | .query _ :: r, held, h => by
    simp only [taskDisciplined] at h
    exact taskDisciplined_held_le r held h

theorem stepTask_disc {hv ww c : Bool} {t t' : Task} (h : stepTask hv ww c t = some t') (ht : TaskDisc t) :
    TaskDisc t' := by
  obtain ⟨prog, held⟩ := t
  unfold TaskDisc at *
  cases prog with
  | nil => simp [stepTask] at h
  | cons o r =>
    cases o with
    | acqR =>
      simp [stepTask] at h
      obtain ⟨_, h⟩ := h
      subst h
      simp [taskDisciplined] at ht
      simp [ht.1, ht.2]
    | relR =>
      simp [stepTask] at h
      subst h
      simp [taskDisciplined] at ht
      simp [ht.1, ht.2]
    | query w =>
      simp only [taskDisciplined] at ht
      simp only [stepTask] at h
      split at h
      · simp at h; subst h; simp [taskDisciplined]
      · split at h
        · simp at h; subst h; exact ht
        · simp at h; subst h; simpa [taskDisciplined] using ht

theorem modifyNth_const_disc (t' : Task) (ht' : TaskDisc t') (l : List Task) (i : Nat)
    (hl : ∀ t ∈ l, TaskDisc t) : ∀ t ∈ modifyNth (fun _ => t') l i, TaskDisc t := by
  intro t ht
  rcases mem_modifyNth _ _ _ _ ht with h | ⟨_, _, e⟩
  · exact hl t h
  · subst e; exact ht'

theorem nil_disc : TaskDisc { prog := [], held := 0 } := by simp [TaskDisc, taskDisciplined]

theorem lstep_inv_task {s s' : LockSys} {i : Nat} (hi : LInv s) (h : lstep s (.task i) = some s') : LInv s' := by
  simp only [lstep] at h
  split at h
  · simp at h
  · rename_i t hget
    split at h
    · simp at h
    · rename_i t' hstep
      simp at h; subst h
      have ht : TaskDisc t := hi.tasks t (List.mem_of_getElem? hget)
      exact ⟨hi.main, modifyNth_const_disc t' (stepTask_disc hstep ht) _ _ hi.tasks, hi.handlers, hi.waiting, hi.cancel⟩

theorem lstep_inv_exit {s s' : LockSys} {i : Nat} (hi : LInv s) (h : lstep s (.exit i) = some s') : LInv s' := by
  simp only [lstep] at h
  split at h
  · simp at h
  · split at h
    · simp at h; subst h
      exact ⟨hi.main, modifyNth_const_disc _ nil_disc _ _ hi.tasks, hi.handlers, hi.waiting, hi.cancel⟩
    · simp at h

theorem handler_disc (handlers : List (List TOp)) (hh : ∀ p ∈ handlers, taskDisciplined p 0 = true) (c : Nat) :
    TaskDisc { prog := (handlers[c]?).getD [], held := 0 } := by
  unfold TaskDisc
  cases hc : handlers[c]? with
  | none => simp [taskDisciplined]
  | some p => simpa using hh p (List.mem_of_getElem? hc)

theorem lstep_inv_main {s s' : LockSys} {c : Nat} (hi : LInv s) (h : lstep s (.main c) = some s') : LInv s' := by
  obtain ⟨ops, held, ww, cancel, tasks, handlers⟩ := s
  obtain ⟨hm, ht, hh, hw, hc⟩ := hi
  simp only at hm ht hh hw hc
  cases ops with
  | nil => simp [lstep] at h
  | cons o r =>
    cases o <;> simp only [lstep] at h
    case acqVfsW =>
      simp [disciplined] at hm
      have hcf : cancel = false := by cases cancel <;> simp_all [headDb]
      subst hcf
      split at h
      · split at h
        · simp at h
        · simp at h; subst h
          exact ⟨by simp [disciplined, hm], ht, hh, by simp [headAcq], by simp⟩
      · simp at h; subst h
        exact ⟨hm.2, ht, hh, by simp, by simp⟩
    case acqVfsR =>
      simp [disciplined] at hm
      have hcf : cancel = false := by cases cancel <;> simp_all [headDb]
      subst hcf
      split at h
      · split at h
        · simp at h
        · simp at h; subst h
          exact ⟨by simp [disciplined, hm], ht, hh, by simp [headAcq], by simp⟩
      · simp at h; subst h
        exact ⟨hm.2, ht, hh, by simp, by simp⟩
    case relVfs =>
      simp [disciplined] at hm
      have hcf : cancel = false := by cases cancel <;> simp_all [headDb]
      have hwf : ww = false := by cases ww <;> simp_all [headAcq]
      subst hcf hwf
      simp at h; subst h
      exact ⟨hm.2, ht, hh, by simp, by simp⟩
    case dbWrite =>
      simp [disciplined] at hm
      have hwf : ww = false := by cases ww <;> simp_all [headAcq]
      subst hwf
      obtain ⟨hf, hm⟩ := hm
      subst hf
      split at h
      · split at h
        · simp at h
        · simp at h; subst h
          exact ⟨by simp [disciplined, hm], ht, hh, by simp, by simp [headDb]⟩
      · simp at h; subst h
        exact ⟨hm, ht, hh, by simp, by simp⟩
    case snap =>
      simp [disciplined] at hm
      have hcf : cancel = false := by cases cancel <;> simp_all [headDb]
      have hwf : ww = false := by cases ww <;> simp_all [headAcq]
      subst hcf hwf
      simp at h; subst h
      exact ⟨hm, ht, hh, by simp, by simp⟩
    case spawn =>
      simp [disciplined] at hm
      have hcf : cancel = false := by cases cancel <;> simp_all [headDb]
      have hwf : ww = false := by cases ww <;> simp_all [headAcq]
      subst hcf hwf
      simp at h; subst h
      refine ⟨hm, ?_, hh, by simp, by simp⟩
      intro t htm
      simp only [List.mem_append, List.mem_singleton] at htm
      rcases htm with htm | htm
      · exact ht t htm
      · subst htm; exact handler_disc handlers hh c
    case call m =>
      simp [disciplined] at hm
      have hcf : cancel = false := by cases cancel <;> simp_all [headDb]
      have hwf : ww = false := by cases ww <;> simp_all [headAcq]
      subst hcf hwf
      simp at h; subst h
      exact ⟨hm, ht, hh, by simp, by simp⟩

theorem lstep_inv {s s' : LockSys} {a : LAct} (hi : LInv s) (h : lstep s a = some s') : LInv s' := by
  cases a with
  | main c => exact lstep_inv_main hi h
  | task i => exact lstep_inv_task hi h
  | exit i => exact lstep_inv_exit hi h

theorem lrun_inv : ∀ (acts : List LAct) (s s' : LockSys), lrun s acts = some s' → LInv s → LInv s'
  | [], s, s', h, hs => by simp [lrun] at h; subst h; exact hs
  | a :: as, s, s', h, hs => by
    simp only [lrun] at h
    split at h
    · rename_i s1 h1
      exact lrun_inv as s1 s' h (lstep_inv hs h1)
    · simp at h

theorem initLock_inv (ops : List Op) (h : disciplined ops false = true)
    (handlers : List (List TOp)) (hh : ∀ p ∈ handlers, taskDisciplined p 0 = true)
    (tasks : List Task) (ht : ∀ t ∈ tasks, TaskDisc t) : LInv (initLock ops handlers tasks) :=
  ⟨h, ht, hh, by simp [initLock], by simp [initLock]⟩

/-! ### progress -/

theorem any_getElem {α} (p : α → Bool) (l : List α) (h : l.any p = true) :
    ∃ (i : Nat) (t : α), l[i]? = some t ∧ p t = true := by
  rw [List.any_eq_true] at h
  obtain ⟨t, ht, ha⟩ := h
  obtain ⟨i, hi⟩ := List.getElem?_of_mem ht
  exact ⟨i, t, hi, ha⟩

/-- an alive task can move while the loop neither holds nor waits for the document store -/
theorem alive_task_steps (s : LockSys) (hh : s.mainHoldsVfs = false) (hw : s.writerWaiting = false)
    (h : s.tasks.any taskAlive = true) : ∃ a s', isProgress a = true ∧ lstep s a = some s' := by
  obtain ⟨i, t, hi, ha⟩ := any_getElem _ _ h
  refine ⟨.task i, ?_⟩
  simp only [lstep, hi, hh, hw, isProgress]
  obtain ⟨prog, held⟩ := t
  cases prog with
  | nil => simp [taskAlive] at ha
  | cons o r =>
    cases o with
    | acqR => simp [stepTask]
    | relR => simp [stepTask]
    | query w =>
      cases hc : s.cancel
      · cases w <;> simp [stepTask]
      · simp [stepTask]

/-- a disciplined task that holds a read guard can always move -/
theorem holder_steps (s : LockSys) (ht : ∀ t ∈ s.tasks, TaskDisc t) (h : readersHeld s.tasks = true) :
    ∃ a s', isProgress a = true ∧ lstep s a = some s' := by
  obtain ⟨i, t, hi, ha⟩ := any_getElem _ _ h
  have hd := ht t (List.mem_of_getElem? hi)
  refine ⟨.task i, ?_⟩
  simp only [lstep, hi, isProgress]
  obtain ⟨prog, held⟩ := t
  unfold TaskDisc at hd
  simp only at hd
  have hne : held ≠ 0 := by simpa using ha
  cases prog with
  | nil => simp [taskDisciplined] at hd; exact absurd hd hne
  | cons o r =>
    cases o with
    | acqR => simp [taskDisciplined] at hd; exact absurd hd.1 hne
    | relR => simp [stepTask]
    | query w =>
      cases hc : s.cancel
      · cases w <;> simp [stepTask]
      · simp [stepTask]

theorem inv_progress (s : LockSys) (hi : LInv s) :
    finished s = true ∨ ∃ a s', isProgress a = true ∧ lstep s a = some s' := by
  obtain ⟨hm, ht, hh, hw, hc⟩ := hi
  obtain ⟨ops, held, ww, cancel, tasks, handlers⟩ := s
  simp only at hm ht hh hw hc
  cases ops with
  | nil =>
    simp [disciplined] at hm
    have hwf : ww = false := by cases ww <;> simp_all [headAcq]
    cases ha : tasks.any taskAlive
    · left; simp [finished, ha]
    · right; exact alive_task_steps _ hm hwf ha
  | cons o r =>
    right
    cases o
    case acqVfsW =>
      cases hr : readersHeld tasks
      · exact ⟨.main 0, _, rfl, by simp only [lstep, hr]; rfl⟩
      · cases ww
        · exact ⟨.main 0, _, rfl, by simp only [lstep, hr]; rfl⟩
        · exact holder_steps _ ht hr
    case acqVfsR =>
      cases hr : readersHeld tasks
      · exact ⟨.main 0, _, rfl, by simp only [lstep, hr]; rfl⟩
      · cases ww
        · exact ⟨.main 0, _, rfl, by simp only [lstep, hr]; rfl⟩
        · exact holder_steps _ ht hr
    case relVfs => exact ⟨.main 0, _, rfl, rfl⟩
    case dbWrite =>
      simp [disciplined] at hm
      have hwf : ww = false := by cases ww <;> simp_all [headAcq]
      cases ha : tasks.any taskAlive
      · exact ⟨.main 0, _, rfl, by simp only [lstep, ha]; rfl⟩
      · cases cancel
        · exact ⟨.main 0, _, rfl, by simp only [lstep, ha]; rfl⟩
        · exact alive_task_steps _ hm.1 hwf ha
    case snap => exact ⟨.main 0, _, rfl, rfl⟩
    case spawn => exact ⟨.main 0, _, rfl, rfl⟩
    case call m => exact ⟨.main 0, _, rfl, rfl⟩

/-! ### quiescence -/

theorem lstep_task_at (ops : List Op) (held ww cancel : Bool) (pre : List Task) (t t' : Task) (post : List Task)
    (hs : List (List TOp)) (h : stepTask held ww cancel t = some t') :
    lstep ⟨ops, held, ww, cancel, pre ++ t :: post, hs⟩ (.task pre.length)
      = some ⟨ops, held, ww, cancel, pre ++ t' :: post, hs⟩ := by
  simp only [lstep, getElem?_append_cons_length, h, modifyNth_append_cons]

theorem prun_task_at (ops : List Op) (held ww cancel : Bool) (pre : List Task) (t t' : Task) (post : List Task)
    (hs : List (List TOp)) (h : stepTask held ww cancel t = some t') :
    PRun ⟨ops, held, ww, cancel, pre ++ t :: post, hs⟩ ⟨ops, held, ww, cancel, pre ++ t' :: post, hs⟩ :=
  PRun.one (a := .task pre.length) rfl (lstep_task_at _ _ _ _ _ _ _ _ _ h)

/-- a task holding a read guard reaches its release whatever the loop thread is doing: until then
it only queries and releases -/
theorem task_releases (ops : List Op) (held ww cancel : Bool) (pre post : List Task) (hs : List (List TOp)) :
    ∀ prog : List TOp, taskDisciplined prog 1 = true →
      ∃ prog', taskDisciplined prog' 0 = true ∧
        PRun ⟨ops, held, ww, cancel, pre ++ ⟨prog, 1⟩ :: post, hs⟩ ⟨ops, held, ww, cancel, pre ++ ⟨prog', 0⟩ :: post, hs⟩
  | [], h => by simp [taskDisciplined] at h
  | .acqR :: r, h => by simp [taskDisciplined] at h
  | .relR :: r, h => by
    simp [taskDisciplined] at h
    exact ⟨r, h, prun_task_at _ _ _ _ _ _ _ _ _ (by simp [stepTask])⟩
  | .query w :: r, h => by
    simp only [taskDisciplined] at h
    cases cancel with
    | true => exact ⟨[], by simp [taskDisciplined], prun_task_at _ _ _ _ _ _ _ _ _ (by simp [stepTask])⟩
    | false =>
      obtain ⟨prog', hd, hrun⟩ := task_releases ops held ww false pre post hs r h
      refine ⟨prog', hd, ?_⟩
      induction w with
      | zero => exact PRun.trans (prun_task_at _ _ _ _ _ _ ⟨r, 1⟩ _ _ (by simp [stepTask])) hrun
      | succ k ih => exact PRun.trans (prun_task_at _ _ _ _ _ _ ⟨.query k :: r, 1⟩ _ _ (by simp [stepTask])) ih

theorem task_releases_any (ops : List Op) (held ww cancel : Bool) (pre post : List Task) (hs : List (List TOp))
    (t : Task) (ht : TaskDisc t) :
    ∃ t', t'.held = 0 ∧ TaskDisc t' ∧
      PRun ⟨ops, held, ww, cancel, pre ++ t :: post, hs⟩ ⟨ops, held, ww, cancel, pre ++ t' :: post, hs⟩ := by
  obtain ⟨prog, n⟩ := t
  have hle := taskDisciplined_held_le prog n ht
  match n, ht, hle with
  | 0, ht, _ => exact ⟨⟨prog, 0⟩, rfl, ht, PRun.refl _⟩
  | 1, ht, _ =>
    obtain ⟨prog', hd, hrun⟩ := task_releases ops held ww cancel pre post hs prog ht
    exact ⟨⟨prog', 0⟩, rfl, hd, hrun⟩
  | n + 2, _, hle => omega

/-- all read guards can be released, whatever the loop thread is doing -/
theorem tasks_release_from (ops : List Op) (held ww cancel : Bool) (hs : List (List TOp)) :
    ∀ (post pre : List Task), (∀ t ∈ post, TaskDisc t) →
      ∃ post', (∀ t ∈ post', t.held = 0 ∧ TaskDisc t) ∧
        PRun ⟨ops, held, ww, cancel, pre ++ post, hs⟩ ⟨ops, held, ww, cancel, pre ++ post', hs⟩
  | [], pre, _ => ⟨[], by simp, PRun.refl _⟩
  | t :: post, pre, h => by
    obtain ⟨t', h0, hd, h1⟩ := task_releases_any ops held ww cancel pre post hs t (h t (by simp))
    obtain ⟨post', hp, h2⟩ := tasks_release_from ops held ww cancel hs post (pre ++ [t'])
      (fun x hx => h x (by simp [hx]))
    refine ⟨t' :: post', ?_, PRun.trans h1 ?_⟩
    · intro x hx
      simp only [List.mem_cons] at hx
      rcases hx with hx | hx
      · subst hx; exact ⟨h0, hd⟩
      · exact hp x hx
    · simpa using h2

theorem tasks_release (ops : List Op) (held ww cancel : Bool) (hs : List (List TOp)) (tasks : List Task)
    (h : ∀ t ∈ tasks, TaskDisc t) :
    ∃ tasks', (∀ t ∈ tasks', TaskDisc t) ∧ readersHeld tasks' = false ∧
      PRun ⟨ops, held, ww, cancel, tasks, hs⟩ ⟨ops, held, ww, cancel, tasks', hs⟩ := by
  obtain ⟨tasks', hp, hrun⟩ := tasks_release_from ops held ww cancel hs tasks [] h
  refine ⟨tasks', fun t ht => (hp t ht).2, ?_, by simpa using hrun⟩
  cases hr : readersHeld tasks'
  · rfl
  · unfold readersHeld at hr
    rw [List.any_eq_true] at hr
    obtain ⟨t, ht, hne⟩ := hr
    simp [(hp t ht).1] at hne

/-- while the loop neither holds nor waits for the document store, a task runs to its end -/
theorem task_finishes (ops : List Op) (cancel : Bool) (pre post : List Task) (hs : List (List TOp)) :
    ∀ (prog : List TOp) (n : Nat), taskDisciplined prog n = true →
      PRun ⟨ops, false, false, cancel, pre ++ ⟨prog, n⟩ :: post, hs⟩
        ⟨ops, false, false, cancel, pre ++ ⟨[], 0⟩ :: post, hs⟩
  | [], n, h => by
    simp [taskDisciplined] at h; subst h; exact PRun.refl _
  | .acqR :: r, n, h => by
    simp [taskDisciplined] at h
    obtain ⟨h0, h⟩ := h; subst h0
    exact PRun.trans (prun_task_at _ _ _ _ _ _ ⟨r, 1⟩ _ _ (by simp [stepTask])) (task_finishes ops cancel pre post hs r 1 h)
  | .relR :: r, n, h => by
    simp [taskDisciplined] at h
    obtain ⟨h0, h⟩ := h; subst h0
    exact PRun.trans (prun_task_at _ _ _ _ _ _ ⟨r, 0⟩ _ _ (by simp [stepTask])) (task_finishes ops cancel pre post hs r 0 h)
  | .query w :: r, n, h => by
    simp only [taskDisciplined] at h
    cases cancel with
    | true => exact prun_task_at _ _ _ _ _ _ _ _ _ (by simp [stepTask])
    | false =>
      have hrun := task_finishes ops false pre post hs r n h
      induction w with
      | zero => exact PRun.trans (prun_task_at _ _ _ _ _ _ ⟨r, n⟩ _ _ (by simp [stepTask])) hrun
      | succ k ih => exact PRun.trans (prun_task_at _ _ _ _ _ _ ⟨.query k :: r, n⟩ _ _ (by simp [stepTask])) ih

theorem tasks_finish_from (ops : List Op) (cancel : Bool) (hs : List (List TOp)) :
    ∀ (post pre : List Task), (∀ t ∈ post, TaskDisc t) →
      PRun ⟨ops, false, false, cancel, pre ++ post, hs⟩
        ⟨ops, false, false, cancel, pre ++ post.map (fun _ => ⟨[], 0⟩), hs⟩
  | [], pre, _ => by simpa using PRun.refl _
  | t :: post, pre, h => by
    have h1 := task_finishes ops cancel pre post hs t.prog t.held (h t (by simp))
    have h2 := tasks_finish_from ops cancel hs post (pre ++ [⟨[], 0⟩]) (fun x hx => h x (by simp [hx]))
    refine PRun.trans h1 ?_
    simpa using h2

theorem any_alive_map_nil (l : List Task) :
    (l.map (fun _ => (⟨[], 0⟩ : Task))).any taskAlive = false := by
  induction l with
  | nil => rfl
  | cons x xs ih => simp [taskAlive]

theorem map_nil_disc (l : List Task) : ∀ t ∈ l.map (fun _ => (⟨[], 0⟩ : Task)), TaskDisc t := by
  intro t ht
  simp only [List.mem_map] at ht
  obtain ⟨_, _, e⟩ := ht
  subst e; exact nil_disc

/-- while the loop neither holds nor waits for the document store, all request tasks can run to completion -/
theorem tasks_finish (ops : List Op) (cancel : Bool) (hs : List (List TOp)) (tasks : List Task)
    (h : ∀ t ∈ tasks, TaskDisc t) :
    ∃ tasks', (∀ t ∈ tasks', TaskDisc t) ∧ tasks'.any taskAlive = false ∧
      PRun ⟨ops, false, false, cancel, tasks, hs⟩ ⟨ops, false, false, cancel, tasks', hs⟩ := by
  have hrun := tasks_finish_from ops cancel hs tasks [] h
  exact ⟨_, map_nil_disc tasks, any_alive_map_nil tasks, by simpa using hrun⟩

theorem prun_main {s s' : LockSys} (c : Nat) (h : lstep s (.main c) = some s') : PRun s s' :=
  PRun.one (a := .main c) rfl h

theorem inv_can_finish (hs : List (List TOp)) (hh : ∀ p ∈ hs, taskDisciplined p 0 = true) :
    ∀ (ops : List Op) (held ww cancel : Bool) (tasks : List Task),
    disciplined ops held = true → (∀ t ∈ tasks, TaskDisc t) →
    (ww = true → headAcq ops = true) → (cancel = true → headDb ops = true) →
    ∃ s', PRun ⟨ops, held, ww, cancel, tasks, hs⟩ s' ∧ finished s' = true
  | [], held, ww, cancel, tasks, hd, ht, hw, hc => by
    simp [disciplined] at hd; subst hd
    have hwf : ww = false := by cases ww <;> simp_all [headAcq]
    subst hwf
    obtain ⟨tasks', _, ha, hrun⟩ := tasks_finish [] cancel hs tasks ht
    exact ⟨_, hrun, by simp [finished, ha]⟩
  | .acqVfsW :: r, held, ww, cancel, tasks, hd, ht, hw, hc => by
    simp [disciplined] at hd; obtain ⟨hf, hd⟩ := hd; subst hf
    have hcf : cancel = false := by cases cancel <;> simp_all [headDb]
    subst hcf
    obtain ⟨tasks', ht', hr, hrun⟩ := tasks_release (.acqVfsW :: r) false ww false hs tasks ht
    obtain ⟨s', h2, hf⟩ := inv_can_finish hs hh r true false false tasks' hd ht' (by simp) (by simp)
    refine ⟨s', PRun.trans hrun (PRun.trans (prun_main 0 ?_) h2), hf⟩
    simp only [lstep, hr]; rfl
  | .acqVfsR :: r, held, ww, cancel, tasks, hd, ht, hw, hc => by
    simp [disciplined] at hd; obtain ⟨hf, hd⟩ := hd; subst hf
    have hcf : cancel = false := by cases cancel <;> simp_all [headDb]
    subst hcf
    obtain ⟨tasks', ht', hr, hrun⟩ := tasks_release (.acqVfsR :: r) false ww false hs tasks ht
    obtain ⟨s', h2, hf⟩ := inv_can_finish hs hh r true false false tasks' hd ht' (by simp) (by simp)
    refine ⟨s', PRun.trans hrun (PRun.trans (prun_main 0 ?_) h2), hf⟩
    simp only [lstep, hr]; rfl
  | .relVfs :: r, held, ww, cancel, tasks, hd, ht, hw, hc => by
    simp [disciplined] at hd
    have hcf : cancel = false := by cases cancel <;> simp_all [headDb]
    have hwf : ww = false := by cases ww <;> simp_all [headAcq]
    subst hcf hwf
    obtain ⟨s', h2, hf⟩ := inv_can_finish hs hh r false false false tasks hd.2 ht (by simp) (by simp)
    exact ⟨s', PRun.trans (prun_main 0 (by simp only [lstep])) h2, hf⟩
  | .dbWrite :: r, held, ww, cancel, tasks, hd, ht, hw, hc => by
    simp [disciplined] at hd; obtain ⟨hf, hd⟩ := hd; subst hf
    have hwf : ww = false := by cases ww <;> simp_all [headAcq]
    subst hwf
    obtain ⟨tasks', ht', ha, hrun⟩ := tasks_finish (.dbWrite :: r) cancel hs tasks ht
    obtain ⟨s', h2, hf⟩ := inv_can_finish hs hh r false false false tasks' hd ht' (by simp) (by simp)
    refine ⟨s', PRun.trans hrun (PRun.trans (prun_main 0 ?_) h2), hf⟩
    simp only [lstep, ha]; rfl
  | .snap :: r, held, ww, cancel, tasks, hd, ht, hw, hc => by
    simp [disciplined] at hd
    have hcf : cancel = false := by cases cancel <;> simp_all [headDb]
    have hwf : ww = false := by cases ww <;> simp_all [headAcq]
    subst hcf hwf
    obtain ⟨s', h2, hf⟩ := inv_can_finish hs hh r held false false tasks hd ht (by simp) (by simp)
    exact ⟨s', PRun.trans (prun_main 0 (by simp only [lstep])) h2, hf⟩
  | .spawn :: r, held, ww, cancel, tasks, hd, ht, hw, hc => by
    simp [disciplined] at hd
    have hcf : cancel = false := by cases cancel <;> simp_all [headDb]
    have hwf : ww = false := by cases ww <;> simp_all [headAcq]
    subst hcf hwf
    have ht' : ∀ t ∈ tasks ++ [⟨(hs[0]?).getD [], 0⟩], TaskDisc t := by
      intro t htm
      simp only [List.mem_append, List.mem_singleton] at htm
      rcases htm with htm | htm
      · exact ht t htm
      · subst htm; exact handler_disc hs hh 0
    obtain ⟨s', h2, hf⟩ := inv_can_finish hs hh r held false false _ hd ht' (by simp) (by simp)
    exact ⟨s', PRun.trans (prun_main 0 (by simp only [lstep])) h2, hf⟩
  | .call m :: r, held, ww, cancel, tasks, hd, ht, hw, hc => by
    simp [disciplined] at hd
    have hcf : cancel = false := by cases cancel <;> simp_all [headDb]
    have hwf : ww = false := by cases ww <;> simp_all [headAcq]
    subst hcf hwf
    obtain ⟨s', h2, hf⟩ := inv_can_finish hs hh r held false false tasks hd ht (by simp) (by simp)
    exact ⟨s', PRun.trans (prun_main 0 (by simp only [lstep])) h2, hf⟩

theorem linv_can_finish (s : LockSys) (hi : LInv s) : ∃ s', PRun s s' ∧ finished s' = true := by
  obtain ⟨ops, held, ww, cancel, tasks, hs⟩ := s
  exact inv_can_finish hs hi.handlers ops held ww cancel tasks hi.main hi.tasks hi.waiting hi.cancel

/-- a progress action on a one-task system is the loop thread or task 0 -/
theorem stuck_of_single (s : LockSys) (t : Task) (htasks : s.tasks = [t])
    (hm : lstep s (.main 0) = none) (h0 : lstep s (.task 0) = none) :
    ∀ a, isProgress a = true → lstep s a = none := by
  intro a ha
  cases a with
  | exit i => simp [isProgress] at ha
  | task i =>
    cases i with
    | zero => exact h0
    | succ i => simp [lstep, htasks]
  | main c =>
    obtain ⟨ops, held, ww, cancel, tasks, hs⟩ := s
    cases ops with
    | nil => simp [lstep]
    | cons o r =>
      cases o <;> simp only [lstep] at hm ⊢ <;> first | exact hm | simp at hm

/-! ### the document store is only written while no request task is alive -/

theorem storeQuiet_mono : ∀ (ops : List Op) (q h : Bool), storeQuiet ops false h = true → storeQuiet ops q h = true
  | [], _, _, _ => rfl
  | .dbWrite :: r, q, h, hs => by simpa [storeQuiet] using hs
  | .spawn :: r, q, h, hs => by simpa [storeQuiet] using hs
  | .acqVfsW :: r, q, h, hs => by simp [storeQuiet] at hs
  | .acqVfsR :: r, q, h, hs => by simp [storeQuiet] at hs
  | .relVfs :: r, q, h, hs => by
    simp only [storeQuiet] at hs ⊢
    exact storeQuiet_mono r q false hs
  | .snap :: r, q, h, hs => by
    simp only [storeQuiet] at hs ⊢
    exact storeQuiet_mono r q h hs
  | .call _ :: r, q, h, hs => by
    simp only [storeQuiet] at hs ⊢
    exact storeQuiet_mono r q h hs

/-- the invariant of the second discipline: the rest of the loop's work is quiet from here (with
`q` = no task is alive now), and the guard is only held while no task is alive -/
def SQInv (s : LockSys) : Prop :=
  storeQuiet s.mainOps (!s.tasks.any taskAlive) s.mainHoldsVfs = true ∧
    (s.mainHoldsVfs = true → s.tasks.any taskAlive = false)

theorem any_alive_of_getElem {l : List Task} {i : Nat} {t : Task} (hi : l[i]? = some t) (ha : taskAlive t = true) :
    l.any taskAlive = true :=
  List.any_eq_true.mpr ⟨t, List.mem_of_getElem? hi, ha⟩

theorem stepTask_alive {hv ww c : Bool} {t t' : Task} (h : stepTask hv ww c t = some t') : taskAlive t = true := by
  obtain ⟨prog, held⟩ := t
  cases prog with
  | nil => simp [stepTask] at h
  | cons o r => simp [taskAlive]

/-- a step that changes the task list only while some task is alive keeps the invariant -/
theorem sqinv_of_alive {s : LockSys} (hi : SQInv s) (ha : s.tasks.any taskAlive = true) (tasks' : List Task) :
    SQInv { s with tasks := tasks' } := by
  obtain ⟨h1, h2⟩ := hi
  have hh : s.mainHoldsVfs = false := by
    cases hm : s.mainHoldsVfs
    · rfl
    · rw [h2 hm] at ha; exact absurd ha (by simp)
  rw [ha] at h1
  refine ⟨storeQuiet_mono _ _ _ h1, ?_⟩
  intro hm
  simp only at hm
  rw [hh] at hm; exact absurd hm (by simp)

theorem lstep_sq_task {s s' : LockSys} {i : Nat} (hi : SQInv s) (h : lstep s (.task i) = some s') : SQInv s' := by
  simp only [lstep] at h
  split at h
  · simp at h
  · rename_i t hget
    split at h
    · simp at h
    · rename_i t' hstep
      simp at h; subst h
      exact sqinv_of_alive hi (any_alive_of_getElem hget (stepTask_alive hstep)) _

theorem lstep_sq_exit {s s' : LockSys} {i : Nat} (hi : SQInv s) (h : lstep s (.exit i) = some s') : SQInv s' := by
  simp only [lstep] at h
  split at h
  · simp at h
  · rename_i t hget
    split at h
    · rename_i ha
      simp at h; subst h
      exact sqinv_of_alive hi (any_alive_of_getElem hget ha) _
    · simp at h

theorem lstep_sq_main {s s' : LockSys} {c : Nat} (hi : SQInv s) (h : lstep s (.main c) = some s') : SQInv s' := by
  obtain ⟨ops, held, ww, cancel, tasks, handlers⟩ := s
  obtain ⟨h1, h2⟩ := hi
  simp only at h1 h2
  cases ops with
  | nil => simp [lstep] at h
  | cons o r =>
    cases o <;> simp only [lstep] at h
    case acqVfsW =>
      simp only [storeQuiet, Bool.and_eq_true, Bool.not_eq_true'] at h1
      split at h
      · split at h
        · simp at h
        · simp at h; subst h
          exact ⟨by simpa [storeQuiet, h1.1] using h1.2, h2⟩
      · simp at h; subst h
        exact ⟨by simpa [h1.1] using h1.2, fun _ => h1.1⟩
    case acqVfsR =>
      simp only [storeQuiet, Bool.and_eq_true, Bool.not_eq_true'] at h1
      split at h
      · split at h
        · simp at h
        · simp at h; subst h
          exact ⟨by simpa [storeQuiet, h1.1] using h1.2, h2⟩
      · simp at h; subst h
        exact ⟨by simpa [h1.1] using h1.2, fun _ => h1.1⟩
    case relVfs =>
      simp only [storeQuiet] at h1
      simp at h; subst h
      exact ⟨h1, by simp⟩
    case dbWrite =>
      simp only [storeQuiet] at h1
      split at h
      · split at h
        · simp at h
        · simp at h; subst h
          exact ⟨by simpa [storeQuiet] using h1, h2⟩
      · rename_i ha
        simp at h; subst h
        have ha' : tasks.any taskAlive = false := by simpa using ha
        exact ⟨by simpa [ha'] using h1, h2⟩
    case snap =>
      simp only [storeQuiet] at h1
      simp at h; subst h
      exact ⟨h1, h2⟩
    case spawn =>
      simp only [storeQuiet, Bool.and_eq_true, Bool.not_eq_true'] at h1
      simp at h; subst h
      obtain ⟨hf, h1⟩ := h1
      subst hf
      exact ⟨storeQuiet_mono _ _ _ h1, by simp⟩
    case call m =>
      simp only [storeQuiet] at h1
      simp at h; subst h
      exact ⟨h1, h2⟩

theorem lstep_sq {s s' : LockSys} {a : LAct} (hi : SQInv s) (h : lstep s a = some s') : SQInv s' := by
  cases a with
  | main c => exact lstep_sq_main hi h
  | task i => exact lstep_sq_task hi h
  | exit i => exact lstep_sq_exit hi h

theorem lrun_sq : ∀ (acts : List LAct) (s s' : LockSys), lrun s acts = some s' → SQInv s → SQInv s'
  | [], s, s', h, hs => by simp [lrun] at h; subst h; exact hs
  | a :: as, s, s', h, hs => by
    simp only [lrun] at h
    split at h
    · rename_i s1 h1
      exact lrun_sq as s1 s' h (lstep_sq hs h1)
    · simp at h

theorem initLock_sq (ops : List Op) (handlers : List (List TOp)) (tasks : List Task)
    (h : storeQuiet ops (!tasks.any taskAlive) false = true) : SQInv (initLock ops handlers tasks) :=
  ⟨h, by simp [initLock]⟩

end Glas.Conc
