import Glas.Model.ScopeSpec
/-!
# `namesInScope` / `buildValues`: first-occurrence dedup folds and the insertion-ordered value table
-/
namespace Glas.Scope

/-- first definition associated with a name -/
def firstDef : List (Name × Def) → Name → Option Def
  | [], _ => none
  | (k, d) :: r, n => if k = n then some d else firstDef r n

def addAll (xs acc : List (Name × Def)) : List (Name × Def) :=
  xs.foldl (fun acc x => addName acc x.1 x.2) acc

theorem any_name_iff (acc : List (Name × Def)) (n : Name) :
    acc.any (fun p => p.1 = n) = true ↔ n ∈ acc.map (·.1) := by
  simp only [List.any_eq_true, decide_eq_true_eq, List.mem_map]

theorem addName_of_mem {acc : List (Name × Def)} {n : Name} (d : Def) (h : n ∈ acc.map (·.1)) :
    addName acc n d = acc := by
  unfold addName
  rw [if_pos ((any_name_iff acc n).2 h)]

theorem addName_of_not_mem {acc : List (Name × Def)} {n : Name} (d : Def)
    (h : n ∉ acc.map (·.1)) : addName acc n d = acc ++ [(n, d)] := by
  unfold addName
  rw [if_neg (fun e => h ((any_name_iff acc n).1 e))]

theorem addAll_nodup : ∀ (xs acc : List (Name × Def)), (acc.map (·.1)).Nodup →
    ((addAll xs acc).map (·.1)).Nodup := by
  intro xs
  induction xs with
  | nil => intro acc h; exact h
  | cons x xs ih =>
    intro acc h
    obtain ⟨k, v⟩ := x
    show ((addAll xs (addName acc k v)).map (·.1)).Nodup
    apply ih
    rcases Classical.em (k ∈ acc.map (·.1)) with hk | hk
    · rw [addName_of_mem v hk]; exact h
    · rw [addName_of_not_mem v hk]
      simp only [List.map_append, List.map_cons, List.map_nil]
      rw [List.nodup_append]
      refine ⟨h, by simp, ?_⟩
      intro a ha b hb
      simp only [List.mem_singleton] at hb
      subst hb
      intro e; subst e; exact hk ha

theorem mem_addAll (n : Name) (d : Def) : ∀ (xs acc : List (Name × Def)),
    (n, d) ∈ addAll xs acc ↔ ((n, d) ∈ acc ∨ (n ∉ acc.map (·.1) ∧ firstDef xs n = some d)) := by
  intro xs
  induction xs with
  | nil => intro acc; simp [addAll, firstDef]
  | cons x xs ih =>
    intro acc
    obtain ⟨k, v⟩ := x
    show (n, d) ∈ addAll xs (addName acc k v) ↔ _
    rw [ih]
    simp only [firstDef]
    rcases Classical.em (k ∈ acc.map (·.1)) with hk | hk
    · rw [addName_of_mem v hk]
      rcases Classical.em (k = n) with e | e
      · subst e; simp [hk]
      · simp [e]
    · rw [addName_of_not_mem v hk]
      rcases Classical.em (k = n) with e | e
      · subst e
        simp only [List.mem_append, List.mem_singleton, Prod.mk.injEq, true_and, List.map_append,
          List.map_cons, List.map_nil, not_or, not_true_eq_false, and_false, false_and, or_false,
          if_true, Option.some.injEq]
        constructor
        · rintro (h | h)
          · exact Or.inl h
          · exact Or.inr ⟨hk, h.symm⟩
        · rintro (h | ⟨_, h⟩)
          · exact Or.inl h
          · exact Or.inr h.symm
      · have e' : ¬ n = k := fun h => e h.symm
        simp [e, e']

theorem firstDef_append (l r : List (Name × Def)) (n : Name) :
    firstDef (l ++ r) n = (match firstDef l n with | some d => some d | none => firstDef r n) := by
  induction l with
  | nil => rfl
  | cons a l ih =>
    obtain ⟨k, v⟩ := a
    simp only [List.cons_append, firstDef]
    split <;> simp_all

theorem firstDef_map (g : Nat → Def) (l : List (Name × Nat)) (n : Name) :
    firstDef (l.map (fun e => (e.1, g e.2))) n = (findEntry l n).map g := by
  induction l with
  | nil => rfl
  | cons a l ih =>
    obtain ⟨k, v⟩ := a
    simp only [List.map_cons, firstDef, findEntry]
    split <;> simp_all

theorem findEntry_append (l r : List (Name × Nat)) (n : Name) :
    findEntry (l ++ r) n = (match findEntry l n with | some d => some d | none => findEntry r n) := by
  induction l with
  | nil => rfl
  | cons a l ih =>
    obtain ⟨k, v⟩ := a
    simp only [List.cons_append, findEntry]
    split <;> simp_all

theorem findEntry_chainEntries (A : List ScopeData) (name : Name) :
    ∀ (fuel : Nat) (o : Option Nat),
      findEntry (chainEntries A fuel o) name = resolveChain A fuel o name := by
  intro fuel
  induction fuel with
  | zero => intro o; simp [chainEntries, resolveChain, findEntry]
  | succ fuel ih =>
    intro o
    cases o with
    | none => simp [chainEntries, resolveChain, findEntry]
    | some sc =>
      simp only [chainEntries, resolveChain]
      cases hA : A[sc]? with
      | none => simp [findEntry]
      | some d =>
        simp only
        rw [findEntry_append, ih]
        cases findEntry d.entries name <;> rfl

/-- the offered module-level definitions: `none` entries (types in the value table) are skipped -/
def valDefs (values : List (Name × ValEntry)) : List (Name × Def) :=
  values.filterMap (fun v => v.2.map (fun i => (v.1, Def.modVal i)))

theorem foldl_values_eq (values : List (Name × ValEntry)) : ∀ (acc : List (Name × Def)),
    values.foldl (fun acc v => match v.2 with
      | some i => addName acc v.1 (.modVal i)
      | none => acc) acc = addAll (valDefs values) acc := by
  induction values with
  | nil => intro acc; rfl
  | cons a values ih =>
    intro acc
    obtain ⟨k, w⟩ := a
    cases w with
    | none => simpa [valDefs] using ih acc
    | some i => simpa [valDefs, addAll] using ih (addName acc k (.modVal i))

theorem namesInScope_eq (S : Scopes) (values : List (Name × ValEntry)) (scope : Option Nat) :
    namesInScope S values scope =
      addAll ((chainEntries S.arena S.arena.length scope).map (fun e => (e.1, Def.local_ e.2)) ++
        valDefs values) [] := by
  unfold namesInScope
  refine Eq.trans (foldl_values_eq values _) ?_
  unfold addAll
  rw [List.foldl_append, List.foldl_map]

theorem findVal_eq_none {values : List (Name × ValEntry)} {n : Name}
    (h : n ∉ values.map (·.1)) : findVal values n = none := by
  induction values with
  | nil => rfl
  | cons a values ih =>
    obtain ⟨k, w⟩ := a
    simp only [List.map_cons, List.mem_cons, not_or] at h
    simp only [findVal]
    rw [if_neg (fun e => h.1 e.symm)]
    exact ih h.2

/-- with distinct keys, the first offered module definition of a name is its table entry -/
theorem firstDef_valDefs (n : Name) : ∀ (values : List (Name × ValEntry)),
    (values.map (·.1)).Nodup →
    firstDef (valDefs values) n =
      (match findVal values n with
       | some (some i) => some (Def.modVal i)
       | _ => none) := by
  intro values
  induction values with
  | nil => intro _; rfl
  | cons a values ih =>
    intro hnd
    obtain ⟨k, w⟩ := a
    simp only [List.map_cons, List.nodup_cons] at hnd
    have ih' := ih hnd.2
    by_cases hk : k = n
    · subst hk
      have hnone := findVal_eq_none hnd.1
      cases w with
      | none =>
        have e : valDefs ((k, none) :: values) = valDefs values := by simp [valDefs]
        rw [e, ih', hnone]
        simp [findVal]
      | some i =>
        have e : valDefs ((k, some i) :: values) = (k, Def.modVal i) :: valDefs values := by
          simp [valDefs]
        rw [e]
        simp [findVal, firstDef]
    · cases w with
      | none =>
        have e : valDefs ((k, none) :: values) = valDefs values := by simp [valDefs]
        rw [e, ih']
        simp [findVal, hk]
      | some i =>
        have e : valDefs ((k, some i) :: values) = (k, Def.modVal i) :: valDefs values := by
          simp [valDefs]
        rw [e]
        simp only [firstDef, findVal, if_neg hk]
        exact ih'

/-! ## the module value table -/

theorem findVal_insertVal (l : List (Name × ValEntry)) (n : Name) (v : ValEntry) (m : Name) :
    findVal (insertVal l n v) m = if n = m then some v else findVal l m := by
  induction l with
  | nil => simp [insertVal, findVal]
  | cons a l ih =>
    obtain ⟨k, w⟩ := a
    simp only [insertVal]
    by_cases hk : k = n
    · subst hk
      simp only [if_true, findVal]
      split <;> rfl
    · simp only [if_neg hk, findVal, ih]
      by_cases hkm : k = m
      · subst hkm
        simp [Ne.symm hk]
      · simp [hkm]

theorem findEntry_foldl_insertVal (n : Name) (i : ValEntry) :
    ∀ (decls : List (Name × ValEntry)) (acc : List (Name × ValEntry)),
      (∀ j, (n, j) ∈ decls → j = i) →
      ((n, i) ∈ decls ∨ findVal acc n = some i) →
      findVal (decls.foldl (fun acc d => insertVal acc d.1 d.2) acc) n = some i := by
  intro decls
  induction decls with
  | nil =>
    intro acc _ h
    rcases h with h | h
    · cases h
    · exact h
  | cons a decls ih =>
    intro acc hu h
    obtain ⟨k, w⟩ := a
    simp only [List.foldl_cons]
    apply ih
    · intro j hj; exact hu j (List.mem_cons_of_mem _ hj)
    · rw [findVal_insertVal]
      by_cases hk : k = n
      · subst hk
        have : w = i := hu w (List.mem_cons_self ..)
        subst this
        right; simp
      · rcases h with h | h
        · rcases List.mem_cons.1 h with h | h
          · cases h; exact absurd rfl hk
          · exact Or.inl h
        · right; simp [hk, h]

theorem keys_insertVal (l : List (Name × ValEntry)) (n : Name) (v : ValEntry) :
    (insertVal l n v).map (·.1) =
      if n ∈ l.map (·.1) then l.map (·.1) else l.map (·.1) ++ [n] := by
  induction l with
  | nil => simp [insertVal]
  | cons a l ih =>
    obtain ⟨k, w⟩ := a
    simp only [insertVal]
    by_cases hk : k = n
    · subst hk; simp
    · have hk' : ¬ n = k := fun e => hk e.symm
      simp only [if_neg hk, List.map_cons, ih, List.mem_cons, hk', false_or]
      split <;> simp

theorem insertVal_keys_nodup (l : List (Name × ValEntry)) (n : Name) (v : ValEntry)
    (h : (l.map (·.1)).Nodup) : ((insertVal l n v).map (·.1)).Nodup := by
  rw [keys_insertVal]
  split
  · exact h
  · rename_i hn
    rw [List.nodup_append]
    refine ⟨h, by simp, ?_⟩
    intro a ha b hb
    simp only [List.mem_singleton] at hb
    subst hb
    intro e; subst e; exact hn ha

theorem foldl_insertVal_keys_nodup : ∀ (decls acc : List (Name × ValEntry)),
    (acc.map (·.1)).Nodup →
    ((decls.foldl (fun acc d => insertVal acc d.1 d.2) acc).map (·.1)).Nodup := by
  intro decls
  induction decls with
  | nil => intro acc h; exact h
  | cons a decls ih =>
    intro acc h
    exact ih _ (insertVal_keys_nodup acc a.1 a.2 h)

end Glas.Scope
