import Glas.Lemmas.MarkRel
/-! Soundness of the mark-discipline checker, part 3: conditions on flags, calls and returns. -/
namespace Glas.Lemmas.Mark
open Glas.Dsl Glas.MarkCheck

/-! ## conditions -/

theorem b2n_bne_zero (b : Bool) : (b2n b != 0) = b := by cases b <;> rfl

theorem condVal_evalE {P : Prog} {toks : List Kind} {pos : Nat} {locals : List Nat} {flags : List (Nat × Bool)}
    (hf : ∀ x b, lookupM x flags = some b → (locals[x]?).getD 0 = b2n b) (c : Expr) {b : Bool}
    (hc : condVal flags c = some b) : (evalE P toks pos locals c).1 = b2n b := by
  induction c generalizing b with
  | var x => simp only [condVal] at hc; simp only [evalE]; exact hf x b hc
  | not c ih =>
    simp only [condVal, Option.map_eq_some_iff] at hc
    obtain ⟨b', hb', rfl⟩ := hc
    simp only [evalE]
    rw [ih hb']
    cases b' <;> rfl
  | eq a d _ _ =>
    cases a with
    | var x =>
      cases d with
      | lit n =>
        match n with
        | 0 =>
          simp only [condVal, Option.map_eq_some_iff] at hc
          obtain ⟨b', hb', rfl⟩ := hc
          simp only [evalE]
          rw [hf x b' hb']
          cases b' <;> rfl
        | 1 =>
          simp only [condVal] at hc
          simp only [evalE]
          rw [hf x b hc]
          cases b <;> rfl
        | n + 2 => simp [condVal] at hc
      | _ => simp [condVal] at hc
    | _ => simp [condVal] at hc
  | _ => simp [condVal] at hc

theorem condVal_sound {P : Prog} {σ σ' : St} {fr : Frame} {c : Expr} {v : Nat} {flags : List (Nat × Bool)}
    (hf : ∀ x b, lookupM x flags = some b → (fr.locals[x]?).getD 0 = b2n b)
    (he : evalIn P σ fr c = some (v, σ')) {b : Bool} (hc : condVal flags c = some b) : (v != 0) = b := by
  unfold evalIn at he
  simp only at he
  split at he
  · exact absurd he (by simp)
  · simp only [Option.some.injEq, Prod.mk.injEq] at he
    rw [← he.1, condVal_evalE hf c hc, b2n_bne_zero]

/-! ## pushing a closed mark, dropping a slot -/

theorem Rel.push_closed {base nm nl evs fr a} (h : Rel base nm nl evs fr a) {m : Nat} {mk : Mark} {k : Nat}
    (hm : m < nm) (hfree : freeSlot m a.ms = true) (habove : ∀ e ∈ a.ms, slotIdx fr e.1 < mk.idx)
    (hev : evs[mk.idx]? = some (.open k mk.id true)) (hb : base ≤ mk.idx) :
    Rel base nm nl evs (setMark fr m (some mk)) ⟨removeM m a.ms ++ [(m, false)], a.flags⟩ := by
  have hmlen : m < fr.marks.length := Nat.lt_of_lt_of_le hm h.nmk
  have hkeep : ∀ e ∈ removeM m a.ms, slotIdx (setMark fr m (some mk)) e.1 = slotIdx fr e.1 := by
    intro e he
    have hne := (mem_removeM.mp he).2
    unfold slotIdx
    rw [getMark_setMark_ne _ _ (Ne.symm hne)]
  have hnew : slotIdx (setMark fr m (some mk)) m = mk.idx := by
    unfold slotIdx; rw [getMark_setMark_same _ _ hmlen]
  refine ⟨h.len, by simpa using h.nmk, by simpa using h.nlc, ?_, ?_, ?_, h.flags⟩
  · intro e he
    simp only [List.mem_append, List.mem_singleton] at he
    rcases he with he | rfl
    · have hmem := (mem_removeM.mp he).1
      have hne := (mem_removeM.mp he).2
      obtain ⟨⟨mke, k', hg, heve⟩, hbe⟩ := h.valid e hmem
      refine ⟨⟨mke, k', ?_, heve⟩, by rw [hkeep e he]; exact hbe⟩
      rw [getMark_setMark_ne _ _ (Ne.symm hne)]; exact hg
    · exact ⟨⟨mk, k, getMark_setMark_same _ _ hmlen, hev⟩, by rw [hnew]; exact hb⟩
  · rw [List.pairwise_append]
    refine ⟨?_, List.pairwise_singleton _ _, ?_⟩
    · refine ((h.sorted.sublist (removeM_sublist m a.ms)).imp_of_mem ?_)
      intro x y hx hy hxy
      rw [hkeep x hx, hkeep y hy]; exact hxy
    · intro x hx y hy
      simp only [List.mem_singleton] at hy
      subst hy
      rw [hkeep x hx, hnew]
      exact habove x (mem_removeM.mp hx).1
  · intro i k' id' hi hev'
    obtain ⟨e, hm', ht, hidx⟩ := h.owned i k' id' hi hev'
    have hne : e.1 ≠ m := by
      intro heq
      have : lookupM m a.ms = some true := by
        apply lookupM_of_mem h.distinct
        rw [← heq, ← ht]; exact hm'
      simp [freeSlot, this] at hfree
    have hin : e ∈ removeM m a.ms := mem_removeM.mpr ⟨hm', hne⟩
    exact ⟨e, by simp [hin], ht, by rw [hkeep e hin]; exact hidx⟩

theorem Rel.drop_slot {base nm nl evs fr a} (h : Rel base nm nl evs fr a) {m : Nat}
    (hfree : freeSlot m a.ms = true) (v : Option Mark) :
    Rel base nm nl evs (setMark fr m v) ⟨removeM m a.ms, a.flags⟩ := by
  have hkeep : ∀ e ∈ removeM m a.ms, slotIdx (setMark fr m v) e.1 = slotIdx fr e.1 := by
    intro e he
    have hne := (mem_removeM.mp he).2
    unfold slotIdx
    rw [getMark_setMark_ne _ _ (Ne.symm hne)]
  refine ⟨h.len, by simpa using h.nmk, by simpa using h.nlc, ?_, ?_, ?_, h.flags⟩
  · intro e he
    have hmem := (mem_removeM.mp he).1
    have hne := (mem_removeM.mp he).2
    obtain ⟨⟨mke, k', hg, heve⟩, hbe⟩ := h.valid e hmem
    refine ⟨⟨mke, k', ?_, heve⟩, by rw [hkeep e he]; exact hbe⟩
    rw [getMark_setMark_ne _ _ (Ne.symm hne)]; exact hg
  · refine ((h.sorted.sublist (removeM_sublist m a.ms)).imp_of_mem ?_)
    intro x y hx hy hxy
    rw [hkeep x hx, hkeep y hy]; exact hxy
  · intro i k' id' hi hev'
    obtain ⟨e, hm', ht, hidx⟩ := h.owned i k' id' hi hev'
    have hne : e.1 ≠ m := by
      intro heq
      have : lookupM m a.ms = some true := by
        apply lookupM_of_mem h.distinct
        rw [← heq, ← ht]; exact hm'
      simp [freeSlot, this] at hfree
    have hin : e ∈ removeM m a.ms := mem_removeM.mpr ⟨hm', hne⟩
    exact ⟨e, hin, ht, by rw [hkeep e hin]; exact hidx⟩

/-! ## entering a procedure -/

/-- what the caller keeps while the callee runs: the marks `rest` (all below `b'`) on the frame `fr1`
from which the passed mark has been taken -/
structure Rest (base b' nm nl : Nat) (evs : List Ev) (fr1 : Frame) (rest flags : List (Nat × Bool)) : Prop where
  lo : base ≤ b'
  hi : b' ≤ evs.length
  nmk : nm ≤ fr1.marks.length
  nlc : nl ≤ fr1.locals.length
  valid : ∀ e ∈ rest, Valid evs fr1 e ∧ base ≤ slotIdx fr1 e.1 ∧ slotIdx fr1 e.1 < b'
  sorted : rest.Pairwise (fun x y => slotIdx fr1 x.1 < slotIdx fr1 y.1)
  owned : ∀ i k id, base ≤ i → i < b' → evs[i]? = some (.open k id false) →
    ∃ e ∈ rest, e.2 = true ∧ slotIdx fr1 e.1 = i
  flags : ∀ x b, lookupM x flags = some b → (fr1.locals[x]?).getD 0 = b2n b

def calleeFrame (vs : List Nat) (mvs : List (Option Mark)) (p : Proc) : Frame :=
  { locals := vs ++ List.replicate (p.nLocals - vs.length) 0,
    marks := mvs ++ List.replicate (p.nMarks - mvs.length) none }

theorem calleeFrame_lens (vs : List Nat) (mvs : List (Option Mark)) (p : Proc) :
    p.nMarks ≤ (calleeFrame vs mvs p).marks.length ∧ p.nLocals ≤ (calleeFrame vs mvs p).locals.length := by
  simp only [calleeFrame, List.length_append, List.length_replicate]
  omega

theorem enter {base nm nl evs fr a} (h : Rel base nm nl evs fr a) {margs : List Nat}
    {rest : List (Nat × Bool)} {st : Option Bool} (hs : splitTop a.ms margs = some (rest, st))
    (vs : List Nat) (p : Proc) :
    ∃ b', Rest base b' nm nl evs (takeMarks fr margs).2 rest a.flags ∧
      Rel b' p.nMarks p.nLocals evs (calleeFrame vs (takeMarks fr margs).1 p) (initMA st) := by
  have hlens := fun mvs => calleeFrame_lens vs mvs p
  match margs, hs with
  | [], hs =>
    simp only [splitTop, Option.some.injEq, Prod.mk.injEq] at hs
    obtain ⟨rfl, rfl⟩ := hs
    refine ⟨evs.length, ⟨h.len, Nat.le_refl _, h.nmk, h.nlc, ?_, h.sorted, ?_, h.flags⟩, ?_⟩
    · intro e he
      exact ⟨(h.valid e he).1, (h.valid e he).2, (h.valid e he).1.idx_lt⟩
    · intro i k id hi _ hev
      exact h.owned i k id hi hev
    · refine ⟨Nat.le_refl _, (hlens _).1, (hlens _).2, ?_, List.Pairwise.nil, ?_, ?_⟩
      · intro e he; cases he
      · intro i k id hi hev
        rw [List.getElem?_eq_none hi] at hev; cases hev
      · intro x b hb; simp [initMA, lookupM] at hb
  | [m], hs =>
    simp only [splitTop] at hs
    split at hs
    · rename_i y s hlast
      split at hs
      · rename_i hym
        subst hym
        simp only [Option.some.injEq, Prod.mk.injEq] at hs
        obtain ⟨rfl, rfl⟩ := hs
        have hsplit : a.ms = a.ms.dropLast ++ [(y, s)] := by
          have hne : a.ms ≠ [] := by
            intro hnil; rw [hnil] at hlast; cases hlast
          have h1 := List.getLast?_eq_some_getLast hne
          rw [hlast] at h1
          simp only [Option.some.injEq] at h1
          have h2 := List.dropLast_concat_getLast hne
          rw [← h1] at h2
          exact h2.symm
        have hmem : (y, s) ∈ a.ms := by rw [hsplit]; simp
        obtain ⟨⟨mk, k0, hg, hev⟩, hb⟩ := h.valid _ hmem
        simp only at hg hev hb
        have hsy := slotIdx_of hg
        rw [hsy] at hb
        have hlt : mk.idx < evs.length := (List.getElem?_eq_some_iff.mp hev).1
        have hsorted := h.sorted
        rw [hsplit, List.pairwise_append] at hsorted
        obtain ⟨hsr, _, hcross⟩ := hsorted
        have hrest_lt : ∀ e ∈ a.ms.dropLast, slotIdx fr e.1 < mk.idx := by
          intro e he
          have := hcross e he (y, s) (by simp)
          rw [hsy] at this; exact this
        have hrest_ne : ∀ e ∈ a.ms.dropLast, e.1 ≠ y := by
          intro e he heq
          have := hrest_lt e he
          rw [heq, hsy] at this
          exact Nat.lt_irrefl _ this
        have hrest_mem : ∀ e ∈ a.ms.dropLast, e ∈ a.ms := by
          intro e he; rw [hsplit]; simp [he]
        have htm : takeMarks fr [y] = ([getMark fr y], setMark fr y none) := rfl
        rw [htm]
        have hkeep : ∀ e ∈ a.ms.dropLast, slotIdx (setMark fr y none) e.1 = slotIdx fr e.1 := by
          intro e he
          unfold slotIdx
          rw [getMark_setMark_ne _ _ (Ne.symm (hrest_ne e he))]
        refine ⟨mk.idx, ⟨hb, Nat.le_of_lt hlt, by simpa using h.nmk, by simpa using h.nlc, ?_, ?_, ?_, h.flags⟩, ?_⟩
        · intro e he
          obtain ⟨⟨mke, k', hge, heve⟩, hbe⟩ := h.valid e (hrest_mem e he)
          refine ⟨⟨mke, k', ?_, heve⟩, by rw [hkeep e he]; exact hbe, by rw [hkeep e he]; exact hrest_lt e he⟩
          rw [getMark_setMark_ne _ _ (Ne.symm (hrest_ne e he))]; exact hge
        · refine hsr.imp_of_mem ?_
          intro x z hx hz hxz
          rw [hkeep x hx, hkeep z hz]; exact hxz
        · intro i k id hi hi' hev'
          obtain ⟨e, hme, ht, hidx⟩ := h.owned i k id hi hev'
          rw [hsplit] at hme
          simp only [List.mem_append, List.mem_singleton] at hme
          rcases hme with hme | rfl
          · exact ⟨e, hme, ht, by rw [hkeep e hme]; exact hidx⟩
          · rw [hsy] at hidx; omega
        · have hg0 : getMark (calleeFrame vs [getMark fr y] p) 0 = some mk := by
            have : getMark fr y = (fr.marks[y]?).getD none := rfl
            simp only [getMark, calleeFrame, List.cons_append, List.nil_append, List.getElem?_cons_zero,
              Option.getD_some]
            rw [← this]; exact hg
          have hs0 : slotIdx (calleeFrame vs [getMark fr y] p) 0 = mk.idx := slotIdx_of hg0
          refine ⟨Nat.le_of_lt hlt, (hlens _).1, (hlens _).2, ?_, ?_, ?_, ?_⟩
          · intro e he
            simp only [initMA, List.mem_singleton] at he
            subst he
            exact ⟨⟨mk, k0, hg0, hev⟩, by rw [hs0]; exact Nat.le_refl _⟩
          · simp [initMA]
          · intro i k id hi hev'
            obtain ⟨e, hme, ht, hidx⟩ := h.owned i k id (Nat.le_trans hb hi) hev'
            rw [hsplit] at hme
            simp only [List.mem_append, List.mem_singleton] at hme
            rcases hme with hme | rfl
            · have := hrest_lt e hme; omega
            · simp only at ht
              subst ht
              refine ⟨(0, true), by simp [initMA], rfl, ?_⟩
              rw [hs0, ← hsy]; exact hidx
          · intro x b hb'; simp [initMA, lookupM] at hb'
      · exact absurd hs (by simp)
    · exact absurd hs (by simp)
  | _ :: _ :: _, hs => simp [splitTop] at hs

/-! ## returning from a procedure -/

def RetOK (base : Nat) (rk : RK) (evs : List Ev) : RetV → Prop
  | .unit => rk = .unit
  | .nat _ => rk = .nat
  | .mark mk => (rk = .mark ∨ rk = .optMark) ∧ base ≤ mk.idx ∧ ∃ k, evs[mk.idx]? = some (.open k mk.id true)
  | .noMark => rk = .optMark

theorem Rest.toRel {base b' nm nl evs fr1 rest flags} (h : Rest base b' nm nl evs fr1 rest flags)
    {evs' : List Ev} (hk : Keep b' evs evs') (hn : NoUndoneFrom b' evs') :
    Rel base nm nl evs' fr1 ⟨rest, flags⟩ := by
  refine ⟨Nat.le_trans h.lo (Nat.le_trans h.hi hk.1), h.nmk, h.nlc, ?_, h.sorted, ?_, h.flags⟩
  · intro e he
    obtain ⟨⟨mk, k, hg, hev⟩, hb, hlt⟩ := h.valid e he
    rw [slotIdx_of hg] at hlt
    exact ⟨⟨mk, k, hg, by rw [hk.2 _ hlt]; exact hev⟩, hb⟩
  · intro i k id hi hev
    by_cases hlt : i < b'
    · rw [hk.2 _ hlt] at hev
      exact h.owned i k id hi hlt hev
    · exact absurd hev (hn i k id (by omega))

theorem leave {base b' nm nl evs fr1 rest flags} (h : Rest base b' nm nl evs fr1 rest flags)
    {evs' : List Ev} (hk : Keep b' evs evs') (hn : NoUndoneFrom b' evs') {frk : RK} {v : RetV}
    (hv : RetOK b' frk evs' v) {dst : Dst} (hd : dstOk dst frk = true) {outs : List MA}
    (ho : aDst nm nl frk rest flags dst = some outs) :
    ∃ fr2, assignDst fr1 dst v = some fr2 ∧ ∃ a'' ∈ outs, Rel base nm nl evs' fr2 a'' := by
  have hR := h.toRel hk hn
  have habove : ∀ mk : Mark, b' ≤ mk.idx → ∀ e ∈ rest, slotIdx fr1 e.1 < mk.idx := by
    intro mk hmk e he
    have := (h.valid e he).2.2
    omega
  cases dst with
  | none =>
    simp only [aDst, Option.some.injEq] at ho
    subst ho
    exact ⟨fr1, rfl, _, List.mem_singleton.mpr rfl, hR⟩
  | nat x =>
    simp only [aDst, Option.some.injEq] at ho
    subst ho
    cases v with
    | nat n => exact ⟨setLocal fr1 x n, rfl, _, List.mem_singleton.mpr rfl, hR.setLocal_drop x n⟩
    | unit => simp only [RetOK] at hv; subst hv; simp [dstOk] at hd
    | mark mk => simp only [RetOK] at hv; rcases hv.1 with rfl | rfl <;> simp [dstOk] at hd
    | noMark => simp only [RetOK] at hv; subst hv; simp [dstOk] at hd
  | mark m =>
    simp only [aDst] at ho
    split at ho
    · rename_i hc
      simp only [Bool.and_eq_true, decide_eq_true_eq] at hc
      simp only [Option.some.injEq] at ho
      subst ho
      cases v with
      | mark mk =>
        obtain ⟨_, hb, k, hev⟩ := hv
        exact ⟨setMark fr1 m (some mk), rfl, _, List.mem_singleton.mpr rfl,
          hR.push_closed hc.1 hc.2 (habove mk hb) hev (Nat.le_trans h.lo hb)⟩
      | unit => simp only [RetOK] at hv; subst hv; simp [dstOk] at hd
      | nat n => simp only [RetOK] at hv; subst hv; simp [dstOk] at hd
      | noMark => simp only [RetOK] at hv; subst hv; simp [dstOk] at hd
    · exact absurd ho (by simp)
  | optMark m f =>
    simp only [aDst] at ho
    split at ho
    · rename_i hc
      simp only [Bool.and_eq_true, decide_eq_true_eq] at hc
      obtain ⟨⟨hm, hf⟩, hfree⟩ := hc
      simp only [Option.some.injEq] at ho
      subst ho
      cases v with
      | mark mk =>
        obtain ⟨_, hb, k, hev⟩ := hv
        refine ⟨setLocal (setMark fr1 m (some mk)) f 1, rfl, _, ?_,
          (hR.push_closed hm hfree (habove mk hb) hev (Nat.le_trans h.lo hb)).setLocal_flag f true hf⟩
        simp
      | noMark =>
        simp only [RetOK] at hv
        subst hv
        refine ⟨setLocal (setMark fr1 m none) f 0, rfl, _, ?_, (hR.drop_slot hfree none).setLocal_flag f false hf⟩
        simp
      | unit => simp only [RetOK] at hv; subst hv; simp [dstOk] at hd
      | nat n => simp only [RetOK] at hv; subst hv; simp [dstOk] at hd
    · exact absurd ho (by simp)

end Glas.Lemmas.Mark
