import Glas.Model.Imports
/-! Lemmas about `lastOf` / `inserted` (M-imports). -/
namespace Glas.Imports

theorem lastOf_some_mem {m : Name} {f : Nat} :
    ∀ {l : List (Name × Nat)}, lastOf m l = some f → (m, f) ∈ l
  | [], h => by simp [lastOf] at h
  | (k, f0) :: rest, h => by
    unfold lastOf at h
    cases hr : lastOf m rest with
    | some f' =>
      rw [hr] at h
      simp only [Option.some.injEq] at h
      subst h
      exact List.mem_cons_of_mem _ (lastOf_some_mem hr)
    | none =>
      rw [hr] at h
      by_cases hk : k = m
      · simp only [hk, if_true, Option.some.injEq] at h
        subst h; subst hk
        exact List.mem_cons_self
      · simp [hk] at h

theorem lastOf_isSome_of_mem {m : Name} {f : Nat} :
    ∀ {l : List (Name × Nat)}, (m, f) ∈ l → ∃ f', lastOf m l = some f'
  | [], h => by simp at h
  | (k, f0) :: rest, h => by
    unfold lastOf
    cases hr : lastOf m rest with
    | some f' => exact ⟨f', rfl⟩
    | none =>
      rcases List.mem_cons.mp h with h | h
      · have hk : k = m := by
          have := congrArg Prod.fst h
          exact this.symm
        exact ⟨f0, by simp [hk]⟩
      · obtain ⟨f', hf'⟩ := lastOf_isSome_of_mem h
        rw [hr] at hf'
        cases hf'

theorem lastOf_eq_none_of_not_mem {m : Name} {l : List (Name × Nat)}
    (h : ∀ f, (m, f) ∉ l) : lastOf m l = none := by
  cases hr : lastOf m l with
  | none => rfl
  | some f => exact absurd (lastOf_some_mem hr) (h f)

theorem lastOf_cons (m k : Name) (f : Nat) (rest : List (Name × Nat)) :
    lastOf m ((k, f) :: rest) = match lastOf m rest with
      | some f' => some f'
      | none => if k = m then some f else none := rfl

theorem lastOf_append (m : Name) (X Y : List (Name × Nat)) :
    lastOf m (X ++ Y) = match lastOf m Y with
      | some f => some f
      | none => lastOf m X := by
  induction X with
  | nil =>
    cases hY : lastOf m Y <;> simp [lastOf, hY]
  | cons a X ih =>
    obtain ⟨k, f0⟩ := a
    rw [List.cons_append, lastOf_cons, ih, lastOf_cons]
    cases lastOf m Y with
    | some f => rfl
    | none => rfl

theorem lastOf_append_of_some {m : Name} {f : Nat} (X : List (Name × Nat)) {Y : List (Name × Nat)}
    (h : lastOf m Y = some f) : lastOf m (X ++ Y) = some f := by
  rw [lastOf_append, h]

theorem lastOf_eq_of_all {m : Name} {f : Nat} {l : List (Name × Nat)}
    (hex : ∃ f', (m, f') ∈ l) (hall : ∀ f', (m, f') ∈ l → f' = f) :
    lastOf m l = some f := by
  obtain ⟨f0, hf0⟩ := hex
  obtain ⟨f', hf'⟩ := lastOf_isSome_of_mem hf0
  rw [hf', hall f' (lastOf_some_mem hf')]

/-- with pairwise-distinct keys, a key has at most one file -/
theorem file_unique_of_pairwise {m : Name} {f f' : Nat} :
    ∀ {l : List (Name × Nat)}, l.Pairwise (fun a b => a.1 ≠ b.1) →
      (m, f) ∈ l → (m, f') ∈ l → f = f'
  | [], _, h, _ => by simp at h
  | a :: rest, hp, h1, h2 => by
    rw [List.pairwise_cons] at hp
    rcases List.mem_cons.mp h1 with h1 | h1 <;> rcases List.mem_cons.mp h2 with h2 | h2
    · have := h1.trans h2.symm
      exact (Prod.mk.inj this).2
    · exact absurd (by rw [← h1]) (hp.1 _ h2)
    · exact absurd (by rw [← h2]) (Ne.symm (hp.1 _ h1))
    · exact file_unique_of_pairwise hp.2 h1 h2

theorem lastOf_of_mem_unique {m : Name} {f : Nat} {l : List (Name × Nat)}
    (hu : l.Pairwise (fun a b => a.1 ≠ b.1)) (h : (m, f) ∈ l) : lastOf m l = some f :=
  lastOf_eq_of_all ⟨f, h⟩ (fun _ h' => file_unique_of_pairwise hu h' h)

/-- membership in the entries `visible_modules` inserts -/
theorem mem_inserted {g : Graph} {p : Pkg} {e : Name × Nat} :
    e ∈ inserted g p ↔ e ∈ p.modules ∨ ∃ q, DirectDep g p q ∧ e ∈ q.modules := by
  unfold inserted DirectDep
  rw [List.mem_append, List.mem_flatMap]
  constructor
  · rintro (⟨d, hd, he⟩ | h)
    · right
      cases hq : g[d]? with
      | none => rw [hq] at he; simp at he
      | some q => rw [hq] at he; exact ⟨q, ⟨d, hd, hq⟩, he⟩
    · exact Or.inl h
  · rintro (h | ⟨q, ⟨d, hd, hq⟩, he⟩)
    · exact Or.inr h
    · left
      exact ⟨d, hd, by rw [hq]; exact he⟩

theorem resolve_eq {g : Graph} {i : Nat} {p : Pkg} (m : Name) (hp : g[i]? = some p) :
    resolve g i m = lastOf m (inserted g p) := by
  unfold resolve
  rw [hp]

end Glas.Imports
