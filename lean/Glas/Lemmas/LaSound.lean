import Glas.Lemmas.LaBase
/-!
# Soundness of the look-ahead certificate checker, part 2: the main induction

A program that passes `LaCheck.checkWith` never ends in `parser is stuck`: at every evaluation the
look-ahead counter obeys the bound the checker computed for the abstract state matching the concrete
one, and every such bound fits the budget.  Safety only (no fuel bookkeeping): the induction is on the
model fuel, the statement for `m` uses the one for all smaller amounts.
-/
namespace Glas.LaCheck
open Glas.Dsl Glas.Check

variable {Γ : List Summ} {Λ : List Sum} {P : Prog}

/-- what the checker's result promises about an outcome -/
def PostLa (P : Prog) (r : R) (refs : List Nat) (e p0 : Nat) (σ : St) (fr : Frame) : Out → Prop
  | .norm σ' fr' =>
    σ'.toks = σ.toks ∧ σ.pos ≤ σ'.pos ∧ fr'.locals.length = fr.locals.length ∧
      ∃ x' ∈ r.norm, G P.eofKind x'.a refs σ'.toks σ'.pos fr'.locals ∧ HoldsC x'.b e p0 σ'.pos σ'.la
  | .brk σ' fr' =>
    σ'.toks = σ.toks ∧ σ.pos ≤ σ'.pos ∧ fr'.locals.length = fr.locals.length ∧
      ∃ x' ∈ r.brk, G P.eofKind x'.a refs σ'.toks σ'.pos fr'.locals ∧ HoldsC x'.b e p0 σ'.pos σ'.la
  | .ret σ' _ =>
    σ'.toks = σ.toks ∧ σ.pos ≤ σ'.pos ∧
      ∃ x' ∈ r.ret, G0 x'.a refs σ'.toks σ'.pos ∧ HoldsC x'.b e p0 σ'.pos σ'.la
  | .panic w _ => w ≠ .stuck
  | .oof => True

def SoundLa (Γ : List Summ) (Λ : List Sum) (P : Prog) (m : Nat) : Prop :=
  ∀ (nl : Nat) (st : Stmt) (ls : List LS) (x : LS) (refs : List Nat) (σ : St) (fr : Frame) (e p0 : Nat),
    refs ≠ [] → x ∈ ls → (aexec Γ Λ P.eofKind nl st ls).ok = true →
    G P.eofKind x.a refs σ.toks σ.pos fr.locals → HoldsC x.b e p0 σ.pos σ.la → nl ≤ fr.locals.length →
    Fits P.fuel e (aexec Γ Λ P.eofKind nl st ls).hi →
    PostLa P (aexec Γ Λ P.eofKind nl st ls) refs e p0 σ fr (exec P m st σ fr)

theorem PostLa.weaken {r r' : R} {refs : List Nat} {e p0 : Nat} {σ σ0 : St} {fr fr0 : Frame} {o : Out}
    (h : PostLa P r refs e p0 σ fr o)
    (hn : ∀ y ∈ r.norm, y ∈ r'.norm) (hb : ∀ y ∈ r.brk, y ∈ r'.brk) (hr : ∀ y ∈ r.ret, y ∈ r'.ret)
    (ht : σ.toks = σ0.toks) (hp : σ0.pos ≤ σ.pos) (hl : fr.locals.length = fr0.locals.length) :
    PostLa P r' refs e p0 σ0 fr0 o := by
  cases o with
  | norm σ' fr' =>
    obtain ⟨h1, h2, h3, x', hx', hG', hH'⟩ := h
    exact ⟨h1.trans ht, by omega, h3.trans hl, x', hn _ hx', hG', hH'⟩
  | brk σ' fr' =>
    obtain ⟨h1, h2, h3, x', hx', hG', hH'⟩ := h
    exact ⟨h1.trans ht, by omega, h3.trans hl, x', hb _ hx', hG', hH'⟩
  | ret σ' v =>
    obtain ⟨h1, h2, x', hx', hG', hH'⟩ := h
    exact ⟨h1.trans ht, by omega, x', hr _ hx', hG', hH'⟩
  | panic w σ' => exact h
  | oof => trivial

/-- statements that touch neither tokens, locals nor the counter (or reset it) -/
theorem inert_post {r : R} {refs : List Nat} {e p0 : Nat} {σ : St} {fr : Frame} {o : Out} {x' : LS}
    (h : Inert σ fr o) (hx : x' ∈ r.norm) (hG : G P.eofKind x'.a refs σ.toks σ.pos fr.locals)
    (hla : ∀ σ' fr', o = .norm σ' fr' → HoldsC x'.b e p0 σ.pos σ'.la) :
    PostLa P r refs e p0 σ fr o := by
  cases o with
  | norm σ' fr' =>
    obtain ⟨h1, h2, h3⟩ := h
    refine ⟨h1, by omega, by rw [h3], x', hx, ?_, ?_⟩
    · rw [h1, h2, h3]; exact hG
    · rw [h2]; exact hla σ' fr' rfl
  | panic w _ => cases h; exact fun hh => by cases hh
  | brk => cases h
  | ret => cases h
  | oof => cases h

theorem checkProcs_get {eofK : Nat} : ∀ {ps : List Proc} {ss : List Summ} {Ss : List Sum},
    checkProcs Γ Λ eofK ps ss Ss = true → ∀ {f : Nat} {p : Proc} {s : Summ} {S : Sum},
    ps[f]? = some p → ss[f]? = some s → Ss[f]? = some S → procOK Γ Λ eofK p s S = true := by
  intro ps
  induction ps with
  | nil => intro ss Ss _ f p s S hp; simp at hp
  | cons q qs ih =>
    intro ss Ss h f p s S hp hs hS
    cases ss with
    | nil => simp at hs
    | cons t ts =>
      cases Ss with
      | nil => simp at hS
      | cons T Ts =>
        simp only [checkProcs, Bool.and_eq_true] at h
        cases f with
        | zero =>
          simp only [List.getElem?_cons_zero, Option.some.injEq] at hp hs hS
          subst hp hs hS
          exact h.1
        | succ f =>
          simp only [List.getElem?_cons_succ] at hp hs hS
          exact ih h.2 hp hs hS

theorem sound_zero : SoundLa Γ Λ P 0 := by
  intro nl st ls x refs σ fr e p0 _ _ _ _ _ _ _
  rw [exec_zero]
  trivial

theorem la_close (P : Prog) (n : Nat) (k : Nat) (kd : Kind) (d : Option Nat) (σ : St) (fr : Frame) :
    ∀ σ' fr', exec P (n + 1) (.close k kd d) σ fr = .norm σ' fr' → σ'.la = 0 := by
  intro σ' fr' h
  simp only [exec] at h
  split at h
  · cases h
  · split at h
    · split at h
      · cases d <;> (simp only [] at h; cases h; rfl)
      · cases h
    · cases h

theorem la_same_err (P : Prog) (n c x : Nat) (σ : St) (fr : Frame) :
    ∀ σ' fr', exec P (n + 1) (.err c x) σ fr = .norm σ' fr' → σ'.la = σ.la := by
  intro σ' fr' h; simp only [exec] at h; cases h; rfl

theorem la_same_open (P : Prog) (n k : Nat) (σ : St) (fr : Frame) :
    ∀ σ' fr', exec P (n + 1) (.open k) σ fr = .norm σ' fr' → σ'.la = σ.la := by
  intro σ' fr' h; simp only [exec] at h; cases h; rfl

theorem la_same_openBefore (P : Prog) (n k k' : Nat) (σ : St) (fr : Frame) :
    ∀ σ' fr', exec P (n + 1) (.openBefore k k') σ fr = .norm σ' fr' → σ'.la = σ.la := by
  intro σ' fr' h
  simp only [exec] at h
  split at h
  · cases h
  · split at h
    · split at h
      · cases h; rfl
      · cases h
    · cases h

theorem sound_succ (hck : checkWith Γ Λ P = true) (n : Nat) (ih : ∀ k, k < n + 1 → SoundLa Γ Λ P k) :
    SoundLa Γ Λ P (n + 1) := by
  intro nl st ls x refs σ fr e p0 hrefs hx hok hG hH hnl hfit
  have IH := ih n (Nat.lt_succ_self n)
  cases st with
  | skip => exact ⟨rfl, Nat.le_refl _, rfl, x, hx, hG, hH⟩
  | brk => exact ⟨rfl, Nat.le_refl _, rfl, x, hx, hG, hH⟩
  | ret rv =>
    cases rv with
    | unit => exact ⟨rfl, Nat.le_refl _, x, hx, hG.toG0, hH⟩
    | noMark => exact ⟨rfl, Nat.le_refl _, x, hx, hG.toG0, hH⟩
    | nat ex =>
      simp only [aexec] at hfit ⊢
      have hx' := mem_addCost (c := exprCost ex) hx
      have hf := Fits.mem_joinAll hx' hfit
      simp only [exec]
      split
      · rename_i he
        have := evalIn_none he
        have := noStuck hH hf
        omega
      · rename_i v σ' he
        obtain ⟨_, h2, h3⟩ := evalIn_some he
        refine ⟨h2, by omega, _, hx', ?_, ?_⟩
        · rw [h2, h3]; exact hG.toG0
        · rw [h3]; exact hH.add (evalIn_la he)
    | mark k =>
      simp only [exec]
      split
      · exact ⟨rfl, Nat.le_refl _, x, hx, hG.toG0, hH⟩
      · simp [PostLa]
  | err c y =>
    refine inert_post (inert_err P n c y σ fr) hx hG ?_
    intro σ' fr' h; rw [la_same_err P n c y σ fr σ' fr' h]; exact hH
  | «open» k =>
    refine inert_post (inert_open P n k σ fr) hx hG ?_
    intro σ' fr' h; rw [la_same_open P n k σ fr σ' fr' h]; exact hH
  | openBefore k k' =>
    refine inert_post (inert_openBefore P n k k' σ fr) hx hG ?_
    intro σ' fr' h; rw [la_same_openBefore P n k k' σ fr σ' fr' h]; exact hH
  | close k kd d =>
    refine inert_post (x' := ⟨x.a, Bd.bot⟩) (inert_close P n k kd d σ fr)
      (mem_dedupLS.mpr (List.mem_map.mpr ⟨x, hx, rfl⟩)) hG ?_
    intro σ' fr' h; rw [la_close P n k kd d σ fr σ' fr' h]; exact HoldsC.zero _ _ _ _
  | bump =>
    simp only [exec]
    split
    · rename_i hlt
      refine ⟨rfl, Nat.le_succ _, rfl, ⟨consume x.a, Bd.bot⟩, mem_dedupLS.mpr (List.mem_map.mpr ⟨x, hx, rfl⟩), ?_,
        HoldsC.zero _ _ _ _⟩
      refine ⟨Cur.mem_top _, ?_, ?_, ?_, ?_⟩
      · intro y hy; cases hy
      · intro y S hy; cases hy
      · exact hG.flags.consume (Nat.lt_succ_self _)
      · exact hlt
    · simp [PostLa]
  | assert c =>
    simp only [aexec] at hfit ⊢
    have hx' := mem_addCost (c := exprCost c) hx
    have hf := Fits.mem_joinAll hx' hfit
    simp only [exec]
    split
    · rename_i he
      have := evalIn_none he
      have := noStuck hH hf
      omega
    · rename_i v σ' he
      obtain ⟨hv, h2, h3⟩ := evalIn_some he
      have hrs := refine_sound (P := P) c x.a hG
      by_cases hv0 : v = 0
      · have : (v != 0) = false := by simp [hv0]
        simp only [this]
        simp [PostLa]
      · have : (v != 0) = true := by simpa using hv0
        simp only [this, if_true]
        obtain ⟨a', ha', hG'⟩ := hrs.1 (by rw [← hv]; exact hv0)
        refine ⟨h2, by omega, rfl, ⟨a', x.b.add (exprCost c)⟩, mem_refineL hx' ha', ?_, ?_⟩
        · rw [h2, h3]; exact hG'
        · rw [h3]; exact hH.add (evalIn_la he)
  | set y ex =>
    simp only [aexec] at hfit ⊢
    have hx' := mem_addCost (c := exprCost ex) hx
    have hf := Fits.mem_joinAll hx' hfit
    simp only [exec]
    split
    · rename_i he
      have := evalIn_none he
      have := noStuck hH hf
      omega
    · rename_i v σ' he
      obtain ⟨hv, h2, h3⟩ := evalIn_some he
      refine ⟨h2, by omega, by simp [setLocal, setNth_length],
        ⟨setFact nl y ex x.a, x.b.add (exprCost ex)⟩,
        mem_dedupLS.mpr (List.mem_map.mpr ⟨_, hx', rfl⟩), ?_, ?_⟩
      · rw [h2, h3, hv]
        exact setFact_sound hG nl y ex hnl
      · rw [h3]; exact hH.add (evalIn_la he)
  | seq s1 s2 =>
    simp only [aexec] at hok hfit ⊢
    simp only [Bool.and_eq_true] at hok
    have hX := IH nl s1 ls x refs σ fr e p0 hrefs hx hok.1 hG hH hnl hfit.join.1
    rw [exec_seq]
    generalize exec P n s1 σ fr = o1 at hX
    cases o1 with
    | norm σ' fr' =>
      obtain ⟨ht, hp, hl, x', hx', hG', hH'⟩ := hX
      have hY := IH nl s2 _ x' refs σ' fr' e p0 hrefs hx' hok.2 hG' hH' (by omega) hfit.join.2
      simp only []
      exact hY.weaken (fun _ h => h) (fun _ h => mem_unionLS.mpr (Or.inr h))
        (fun _ h => mem_unionLS.mpr (Or.inr h)) ht hp hl
    | brk σ' fr' =>
      obtain ⟨q1, q2, q3, x', hx', hG', hH'⟩ := hX
      exact ⟨q1, q2, q3, x', mem_unionLS.mpr (Or.inl hx'), hG', hH'⟩
    | ret σ' v =>
      obtain ⟨q1, q2, x', hx', hG', hH'⟩ := hX
      exact ⟨q1, q2, x', mem_unionLS.mpr (Or.inl hx'), hG', hH'⟩
    | panic w σ' => exact hX
    | oof => trivial
  | ite c t el =>
    simp only [aexec] at hok hfit ⊢
    simp only [Bool.and_eq_true] at hok
    have hx' := mem_addCost (c := exprCost c) hx
    have hf := Fits.mem_joinAll hx' hfit.join.1
    rw [exec_ite]
    split
    · rename_i he
      have := evalIn_none he
      have := noStuck hH hf
      omega
    · rename_i v σ' he
      obtain ⟨hv, h2', h3⟩ := evalIn_some he
      have hrs := refine_sound (P := P) c x.a hG
      have hH' : HoldsC (x.b.add (exprCost c)) e p0 σ'.pos σ'.la := by
        rw [h3]; exact hH.add (evalIn_la he)
      by_cases hv0 : v = 0
      · rw [if_neg (by simp [hv0])]
        obtain ⟨a', ha', hG'⟩ := hrs.2 (by rw [← hv]; exact hv0)
        have hG'' : G P.eofKind a' refs σ'.toks σ'.pos fr.locals := by rw [h2', h3]; exact hG'
        have hY := IH nl el _ ⟨a', x.b.add (exprCost c)⟩ refs σ' fr e p0 hrefs (mem_refineL hx' ha') hok.2 hG'' hH'
          hnl hfit.join.2.join.2
        exact hY.weaken (fun _ h => mem_unionLS.mpr (Or.inr h)) (fun _ h => mem_unionLS.mpr (Or.inr h))
          (fun _ h => mem_unionLS.mpr (Or.inr h)) h2' (by omega) rfl
      · rw [if_pos (by simpa using hv0)]
        obtain ⟨a', ha', hG'⟩ := hrs.1 (by rw [← hv]; exact hv0)
        have hG'' : G P.eofKind a' refs σ'.toks σ'.pos fr.locals := by rw [h2', h3]; exact hG'
        have hY := IH nl t _ ⟨a', x.b.add (exprCost c)⟩ refs σ' fr e p0 hrefs (mem_refineL hx' ha') hok.1 hG'' hH'
          hnl hfit.join.2.join.1
        exact hY.weaken (fun _ h => mem_unionLS.mpr (Or.inl h)) (fun _ h => mem_unionLS.mpr (Or.inl h))
          (fun _ h => mem_unionLS.mpr (Or.inl h)) h2' (by omega) rfl
  | loop b =>
    simp only [aexec] at hok hfit ⊢
    generalize findH (aexec Γ Λ P.eofKind nl b) ls 8 0 = H at hok hfit ⊢
    simp only [Bool.and_eq_true] at hok
    obtain ⟨hokb, hall⟩ := hok
    have key : ∀ j, j ≤ n + 1 → ∀ (σ1 : St) (fr1 : Frame), σ1.toks = σ.toks → σ.pos ≤ σ1.pos →
        fr1.locals.length = fr.locals.length →
        (∃ g ∈ loopEntry ls H, G P.eofKind g.a (σ1.pos :: refs) σ1.toks σ1.pos fr1.locals ∧
          HoldsC g.b e p0 σ1.pos σ1.la) →
        PostLa P ⟨(aexec Γ Λ P.eofKind nl b (loopEntry ls H)).ok &&
              (aexec Γ Λ P.eofKind nl b (loopEntry ls H)).norm.all (fun y => headFlag y.a.adv && y.b.le ⟨none, H⟩),
            dedupLS ((aexec Γ Λ P.eofKind nl b (loopEntry ls H)).brk.map (fun y => ⟨pop y.a, y.b⟩)), [],
            dedupLS ((aexec Γ Λ P.eofKind nl b (loopEntry ls H)).ret.map (fun y => ⟨pop y.a, y.b⟩)),
            (aexec Γ Λ P.eofKind nl b (loopEntry ls H)).hi⟩
          refs e p0 σ1 fr1 (exec P j (.loop b) σ1 fr1) := by
      intro j
      induction j with
      | zero => intro _ σ1 fr1 _ _ _ _; rw [exec_zero]; trivial
      | succ j ihj =>
        intro hj σ1 fr1 ht1 hp1 hl1 hex
        obtain ⟨g, hg, hGg, hHg⟩ := hex
        have hB := ih j (by omega) nl b _ g (σ1.pos :: refs) σ1 fr1 e p0 (by simp) hg hokb hGg hHg
          (by omega) hfit
        rw [exec_loop]
        generalize exec P j b σ1 fr1 = ob at hB
        cases ob with
        | norm σ2 fr2 =>
          obtain ⟨ht, hp, hl, x', hx', hG', hH'⟩ := hB
          have hh := List.all_eq_true.mp hall x' hx'
          simp only [Bool.and_eq_true] at hh
          have hlt := head_lt hG'.flags hh.1
          simp only []
          have hGgen : G P.eofKind (generic x.a) (σ2.pos :: refs) σ2.toks σ2.pos fr2.locals := by
            refine ⟨Cur.mem_top _, (fun y hy => by cases hy), (fun y S hy => by cases hy), ?_, hG'.le⟩
            show Flags (false :: x.a.adv.map (fun _ => true)) (σ2.pos :: refs) σ2.pos
            exact (hG.flags.consume (by omega)).push
          have hnext := ihj (by omega) σ2 fr2 (ht.trans ht1) (by omega) (hl.trans hl1)
            ⟨⟨generic x.a, ⟨none, H⟩⟩,
              mem_unionLS.mpr (Or.inr (mem_dedupLS.mpr (List.mem_map.mpr ⟨x, hx, rfl⟩))), hGgen, hH'.le hh.2⟩
          exact hnext.weaken (fun _ h => h) (fun _ h => h) (fun _ h => h) ht (by omega) hl
        | brk σ2 fr2 =>
          obtain ⟨ht, hp, hl, x', hx', hG', hH'⟩ := hB
          exact ⟨ht, hp, hl, ⟨pop x'.a, x'.b⟩, mem_dedupLS.mpr (List.mem_map.mpr ⟨x', hx', rfl⟩), hG'.pop, hH'⟩
        | ret σ2 v =>
          obtain ⟨ht, hp, x', hx', hG', hH'⟩ := hB
          exact ⟨ht, hp, ⟨pop x'.a, x'.b⟩, mem_dedupLS.mpr (List.mem_map.mpr ⟨x', hx', rfl⟩), hG'.pop, hH'⟩
        | panic w σ2 => exact hB
        | oof => trivial
    exact key (n + 1) (Nat.le_refl _) σ fr rfl (Nat.le_refl _) rfl
      ⟨⟨pushF x.a, x.b⟩, mem_unionLS.mpr (Or.inl (List.mem_map.mpr ⟨x, hx, rfl⟩)),
        ⟨hG.cur, hG.facts, hG.bfacts, hG.flags.push, hG.le⟩, hH⟩
  | call f args margs dst =>
    simp only [aexec] at hok hfit ⊢
    cases hs : Γ[f]? with
    | none => rw [hs] at hok; simp at hok
    | some s =>
      cases hS : Λ[f]? with
      | none => rw [hs, hS] at hok; simp at hok
      | some S =>
        rw [hs, hS] at hok hfit
        simp only [] at hok hfit ⊢
        have hx' := mem_addCost (c := argsCost args) hx
        have hpre : x.a.cur.sub s.pre = true := List.all_eq_true.mp hok ⟨x.a, x.b.add (argsCost args)⟩ hx'
        have hfx : Fits P.fuel e (x.b.add (argsCost args)) := Fits.mem_joinAll hx' hfit.join.1
        have hfc : Fits P.fuel e (Bd.compose (x.b.add (argsCost args)) S.hi) := Fits.mem_callHi hx' hfit.join.2
        rw [Check.exec_call]
        split
        · simp [PostLa]
        · rename_i p hp
          split
          · rename_i hargs
            have := evalArgs_none hargs
            have := noStuck hH hfx
            omega
          · rename_i vs σ1 hargs
            obtain ⟨ht1, hp1⟩ := evalArgs_some hargs
            have hla1 := evalArgs_la hargs
            have hH1 : HoldsC (x.b.add (argsCost args)) e p0 σ.pos σ1.la := hH.add hla1
            have hck' := hck
            simp only [checkWith, Bool.and_eq_true] at hck'
            have hcp := checkProcs_get hck'.1 hp hs hS
            simp only [procOK, Bool.and_eq_true] at hcp
            obtain ⟨⟨⟨hrok, _⟩, hrhi⟩, hexits⟩ := hcp
            have hGinit : G P.eofKind (initState s) [σ.pos] (calleeSt σ1).toks (calleeSt σ1).pos
                (calleeFr p vs (takeMarks fr margs).1).locals := by
              refine ⟨?_, (fun y hy => by cases hy), (fun y T hy => by cases hy), ?_, ?_⟩
              · show s.pre.mem σ1.toks[σ1.pos]? = true
                rw [ht1, hp1]; exact Cur.mem_of_sub hpre hG.cur
              · show Flags [false] [σ.pos] σ1.pos
                rw [hp1]; simp [Flags]
              · show σ1.pos ≤ σ1.toks.length
                rw [ht1, hp1]; exact hG.le
            have hHinit : HoldsC Bd.entry σ1.la σ.pos (calleeSt σ1).pos (calleeSt σ1).la := by
              show HoldsC Bd.entry σ1.la σ.pos σ1.pos σ1.la
              rw [hp1]; exact HoldsC.entry _ _
            have hB := IH p.nLocals p.body [⟨initState s, Bd.entry⟩] ⟨initState s, Bd.entry⟩ [σ.pos] (calleeSt σ1)
              (calleeFr p vs (takeMarks fr margs).1) σ1.la σ.pos (by simp) (List.mem_singleton.mpr rfl) hrok
              hGinit hHinit (by simp [calleeFr]; omega)
              (Fits.of_le hrhi (Fits.compose hH1 hfc))
            -- what a return looks like to the caller
            have fin : ∀ (σ' : St) (v : RetV), σ'.toks = σ.toks →
                (∃ x'' : LS, (exitOk s x''.a && x''.b.le S.out) = true ∧ G0 x''.a [σ.pos] σ'.toks σ'.pos ∧
                  HoldsC x''.b σ1.la σ.pos σ'.pos σ'.la) →
                PostLa P ⟨(addCost (argsCost args) ls).all (fun y => y.a.cur.sub s.pre),
                    dedupLS ((addCost (argsCost args) ls).flatMap (callResL s S dst)), [], [],
                    (joinAll (addCost (argsCost args) ls)).join (callHi S (addCost (argsCost args) ls))⟩
                  refs e p0 σ fr (finCall (takeMarks fr margs).2 dst σ' v) := by
              intro σ' v ht hex
              obtain ⟨x'', hex, hG0, hHc⟩ := hex
              simp only [Bool.and_eq_true] at hex
              have hHout : HoldsC S.out σ1.la σ.pos σ'.pos σ'.la := hHc.le hex.2
              unfold finCall
              split
              · rename_i fr2 hfr2
                obtain ⟨hlen, hloc⟩ := assignDst_locals hfr2
                rw [takeMarks_locals] at hlen hloc
                have hge : σ.pos ≤ σ'.pos := hG0.flags.le_all _ (List.mem_singleton.mpr rfl)
                show σ'.toks = σ.toks ∧ σ.pos ≤ σ'.pos ∧ fr2.locals.length = fr.locals.length ∧
                  ∃ y ∈ dedupLS ((addCost (argsCost args) ls).flatMap (callResL s S dst)),
                    G P.eofKind y.a refs σ'.toks σ'.pos fr2.locals ∧ HoldsC y.b e p0 σ'.pos σ'.la
                refine ⟨ht, hge, hlen, ?_⟩
                rcases Nat.eq_or_lt_of_le hge with heq | hlt
                · have hnp : s.prog.mem σ.toks[σ.pos]? = false := by
                    cases hm : s.prog.mem σ.toks[σ.pos]? with
                    | false => rfl
                    | true =>
                      exfalso
                      have hex1 := hex.1
                      simp only [exitOk, Bool.or_eq_true] at hex1
                      rcases hex1 with h | h
                      · have := hG0.flags.last h
                        simp only [lastRef] at this
                        omega
                      · have h1 := Cur.mem_inter hG0.cur (by rw [ht, ← heq]; exact hm)
                        rw [Cur.not_mem_of_isEmpty h] at h1; cases h1
                  have hd := Cur.mem_diff hG.cur hnp
                  have hne : (x.a.cur.diff s.prog).isEmpty = false := by
                    cases he : (x.a.cur.diff s.prog).isEmpty with
                    | false => rfl
                    | true => rw [Cur.not_mem_of_isEmpty he] at hd; cases hd
                  refine ⟨⟨{ dropDst dst x.a with cur := x.a.cur.diff s.prog },
                      Bd.compose (x.b.add (argsCost args)) S.out⟩,
                    mem_dedupLS.mpr (List.mem_flatMap.mpr ⟨_, hx', ?_⟩), ?_, ?_⟩
                  · simp [callResL, hne]
                  · rw [ht, ← heq]
                    exact (dropDst_sound hG dst hloc).setCur hd
                  · rw [← heq]
                    refine HoldsC.compose hH1 ?_
                    rw [← heq] at hHout; exact hHout
                · refine ⟨⟨consume x.a, ⟨none, S.out.cst⟩⟩,
                    mem_dedupLS.mpr (List.mem_flatMap.mpr ⟨_, hx', by simp [callResL]⟩), ?_, ?_⟩
                  · refine ⟨Cur.mem_top _, (fun y hy => by cases hy), (fun y T hy => by cases hy), ?_, hG0.le⟩
                    exact hG.flags.consume hlt
                  · rcases hHout with ⟨hpe, _⟩ | h
                    · omega
                    · exact Or.inr h
              · simp [PostLa]
            generalize exec P n p.body (calleeSt σ1) (calleeFr p vs (takeMarks fr margs).1) = ob at hB
            cases ob with
            | norm σ' fr' =>
              obtain ⟨ht, hpp, _, x'', hx'', hG'', hH''⟩ := hB
              exact fin σ' .unit (ht.trans ht1)
                ⟨x'', List.all_eq_true.mp hexits x'' (List.mem_append.mpr (Or.inl hx'')), hG''.toG0, hH''⟩
            | ret σ' v =>
              obtain ⟨ht, hpp, x'', hx'', hG'', hH''⟩ := hB
              exact fin σ' v (ht.trans ht1)
                ⟨x'', List.all_eq_true.mp hexits x'' (List.mem_append.mpr (Or.inr hx'')), hG'', hH''⟩
            | brk σ' fr' => simp [PostLa]
            | panic w σ' => exact hB
            | oof => trivial

/-- the checker is sound for every amount of fuel -/
theorem sound (hck : checkWith Γ Λ P = true) : ∀ m, SoundLa Γ Λ P m := by
  intro m
  induction m using Nat.strongRecOn with
  | _ m ih =>
    cases m with
    | zero => exact sound_zero
    | succ n => exact sound_succ hck n ih

/-- **a program that passes the look-ahead check never ends in `parser is stuck`** -/
theorem never_stuck_of_checkWith (hck : checkWith Γ Λ P = true) (n : Nat) (toks : List Kind) :
    ∀ σ, runMain P n toks ≠ .panic .stuck σ := by
  have hck' := hck
  simp only [checkWith, Bool.and_eq_true] at hck'
  obtain ⟨_, hm⟩ := hck'
  cases hs : Γ[P.main]? with
  | none => rw [hs] at hm; simp at hm
  | some s =>
    cases hS : Λ[P.main]? with
    | none => rw [hs, hS] at hm; simp at hm
    | some S =>
      rw [hs, hS] at hm
      simp only [Bool.and_eq_true] at hm
      have hG : G P.eofKind (⟨Cur.top, [], [], [false]⟩ : AState) [0] (initSt toks).toks (initSt toks).pos
          (⟨[], []⟩ : Frame).locals :=
        ⟨Cur.mem_top _, (fun x hx => by cases hx), (fun x T hx => by cases hx), by simp [Flags, initSt],
          Nat.zero_le _⟩
      have hfS : Fits P.fuel 0 S.hi := fitsB_iff.mp hm.2
      have h := sound hck n 0 (.call P.main [] [] .none) [⟨⟨Cur.top, [], [], [false]⟩, Bd.entry⟩]
        ⟨⟨Cur.top, [], [], [false]⟩, Bd.entry⟩ [0] (initSt toks) ⟨[], []⟩ 0 0 (by simp)
        (List.mem_singleton.mpr rfl)
        (by simp only [aexec, hs, hS, addCost, argsCost, List.map, List.all_cons, List.all_nil, Bool.and_true]; exact hm.1)
        hG (HoldsC.entry 0 0) (Nat.le_refl _)
        (by
          simp only [aexec, hs, hS, addCost, argsCost, List.map, joinAll, callHi]
          have he : Bd.entry.add 0 = Bd.entry := rfl
          rw [he]
          exact Fits.join_intro (Fits.join_intro (Fits.entry _) (Fits.bot _ _))
            (Fits.join_intro (Fits.compose_entry hfS) (Fits.bot _ _)))
      intro σ0 heq
      unfold runMain at heq
      generalize exec P n (.call P.main [] [] .none) (initSt toks) ⟨[], []⟩ = o at h heq
      cases o with
      | norm σ' fr' => simp only [] at heq; split at heq <;> simp at heq
      | brk σ' fr' => simp at heq
      | ret σ' v => simp at heq
      | oof => simp at heq
      | panic w σ' =>
        simp only [ParseOut.panic.injEq] at heq
        exact h heq.1

end Glas.LaCheck
