import Glas.Props.C16
import Glas.Props.C16Diag
#print axioms Glas.Props.C16.glas_disciplined
#print axioms Glas.Props.C16.glas_handlers_disciplined
#print axioms Glas.Props.C16.serverFlags_ok
#print axioms Glas.Props.C16.deadlock_free
#print axioms Glas.Props.C16.can_finish
#print axioms Glas.Props.C16.undisciplined_main_deadlocks
#print axioms Glas.Props.C16.undisciplined_handler_deadlocks
#print axioms Glas.Props.C16.glas_store_quiet
#print axioms Glas.Props.C16.store_stable
#print axioms Glas.Props.C16.store_unstable_without_cancel
#print axioms Glas.Props.C16Diag.glas_diagFlags_ok
#print axioms Glas.Props.C16Diag.settles_on_last_version
#print axioms Glas.Props.C16Diag.shown_monotone
#print axioms Glas.Props.C16Diag.never_wrong
#print axioms Glas.Props.C16Diag.shown_le_version
#print axioms Glas.Props.C16Diag.without_generation_check_regresses
#print axioms Glas.Props.C16Diag.cancelled_empty_list_can_stay
#print axioms Glas.Props.C16Diag.without_respawn_all_stale
