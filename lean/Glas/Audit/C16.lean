import Glas.Props.C16
#print axioms Glas.Props.C16.glas_disciplined
#print axioms Glas.Props.C16.glas_handlers_disciplined
#print axioms Glas.Props.C16.serverFlags_ok
#print axioms Glas.Props.C16.deadlock_free
#print axioms Glas.Props.C16.can_finish
#print axioms Glas.Props.C16.undisciplined_main_deadlocks
#print axioms Glas.Props.C16.undisciplined_handler_deadlocks
#print axioms Glas.Props.C16.glas_store_quiet
#print axioms Glas.Props.C16.store_stable
#print axioms Glas.Props.C16.store_unstable_without_cancel
