import Glas.Props.C08
#print axioms Glas.Props.C08.variants_classified
#print axioms Glas.Props.C08.rename_table_ok
#print axioms Glas.Props.C08.rename_flags_ok
#print axioms Glas.Props.C08.required_ne_unchecked
#print axioms Glas.Props.C08.rename_accepts_iff
