import Glas.Props.C09
import Glas.Props.C09UF
#print axioms Glas.Props.C09.beq_iff
#print axioms Glas.Props.C09.checkPat_sound
#print axioms Glas.Props.C09.synth_sound
#print axioms Glas.Props.C09.check_sound
#print axioms Glas.Props.C09.checkFn_sound
#print axioms Glas.Props.C09.hasType_unique_ground
#print axioms Glas.Props.C09.example2_accepted
#print axioms Glas.Props.C09UF.find_spec
#print axioms Glas.Props.C09UF.push_spec
#print axioms Glas.Props.C09UF.unify_spec
#print axioms Glas.Props.C09UF.applyOp_wf
#print axioms Glas.Props.C09UF.foldl_applyOp_wf
#print axioms Glas.Props.C09UF.reachable_wf
#print axioms Glas.Props.C09UF.get_total
#print axioms Glas.Props.C09.C09_partial
