import Glas.Props.C11
import Glas.Props.C11Collect
#print axioms Glas.Props.C11.apply_history_independent
#print axioms Glas.Props.C11.content_last_write
#print axioms Glas.Props.C11.moduleMap_of_root
#print axioms Glas.Props.C11Collect.collect_spec_ok
#print axioms Glas.Props.C11Collect.collect_is_unfolding
#print axioms Glas.Props.C11Collect.order_independent
#print axioms Glas.Props.C11Collect.collectAll_is_unfolding
#print axioms Glas.Props.C11Collect.acyclicExample_acyclic
#print axioms Glas.Props.C10Collect.order_matters
