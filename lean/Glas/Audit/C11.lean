import Glas.Props.C11
#print axioms Glas.Props.C11.apply_history_independent
#print axioms Glas.Props.C11.content_last_write
#print axioms Glas.Props.C11.moduleMap_of_root
