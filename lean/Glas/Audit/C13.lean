import Glas.Props.C13
#print axioms Glas.Props.C13.col_to_byte
