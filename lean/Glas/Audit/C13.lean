import Glas.Props.C13
#print axioms Glas.Props.C13.clientPos_strip
#print axioms Glas.Props.C13.pos_tracks
#print axioms Glas.Props.C13.edit_tracks
#print axioms Glas.Props.C13.history_tracks
