import Glas.Props.C10
import Glas.Props.C10Collect
#print axioms Glas.Props.C10.parser_no_precondition_panic
#print axioms Glas.Props.C10.parser_terminates
#print axioms Glas.Props.C10.parse_total
#print axioms Glas.Props.C10.parse_always
#print axioms Glas.Props.C10Collect.collect_ok
#print axioms Glas.Props.C10Collect.collect_total
#print axioms Glas.Props.C10Collect.collect_caches
#print axioms Glas.Props.C10Collect.collect_again
#print axioms Glas.Props.C10Collect.collect_same_class
#print axioms Glas.Props.C10Collect.collectAll_total
#print axioms Glas.Props.C10Collect.cyclic_wf
#print axioms Glas.Props.C10Collect.cyclic_closed
#print axioms Glas.Props.C10Collect.order_matters
#print axioms Glas.Props.C10Collect.collect_acyclic_ok
#print axioms Glas.Props.C10Collect.collect_acyclic
#print axioms Glas.Props.C10Collect.collectAll_acyclic
