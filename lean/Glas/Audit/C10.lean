import Glas.Props.C10
#print axioms Glas.Props.C10.parser_no_precondition_panic
#print axioms Glas.Props.C10.parser_terminates
#print axioms Glas.Props.C10.parse_total
