import Glas.Props.C03
#print axioms Glas.Props.C03.glas_lookahead
#print axioms Glas.Props.C03.item_suffix_local
#print axioms Glas.Props.C03.item_prefix_det
#print axioms Glas.Props.C03.C03_conditional
#print axioms Glas.Props.C03.glas_mainShape
#print axioms Glas.Props.C03.runMain_is_items
#print axioms Glas.Props.C03.C03_module
#print axioms Glas.Props.C03.glas_policyShape
#print axioms Glas.Props.C03.tree_is_items
#print axioms Glas.Props.C03.C03_tree
