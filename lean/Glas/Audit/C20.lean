import Glas.Props.C20
#print axioms Glas.Props.C20.ranges_in_bounds
#print axioms Glas.Props.C20.ranges_on_char_boundaries
#print axioms Glas.Props.C20.C20_tree_ranges
