import Glas.Props.C20
#print axioms Glas.Props.C20.placeholder
