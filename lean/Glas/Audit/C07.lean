import Glas.Props.C07
#print axioms Glas.Props.C07.applyEdits_eq_rename
#print axioms Glas.Props.C07.rename_back
#print axioms Glas.Props.C07.edits_disjoint
#print axioms Glas.Props.C07.ren_expr
#print axioms Glas.Props.C07.alpha_fresh
#print axioms Glas.Props.C07.alpha_fresh_module
#print axioms Glas.Props.C07.renFrame_modFrame
#print axioms Glas.Props.C07.resolve_name_refines_module
