import Glas.Props.C07
#print axioms Glas.Props.C07.applyEdits_eq_rename
#print axioms Glas.Props.C07.rename_back
#print axioms Glas.Props.C07.edits_disjoint
#print axioms Glas.Props.C07.ren_expr
#print axioms Glas.Props.C07.alpha_fresh
