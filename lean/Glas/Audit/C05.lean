import Glas.Props.C05
#print axioms Glas.Props.C05.scopes_refine_spec
#print axioms Glas.Props.C05.local_shadows_module
#print axioms Glas.Props.C05.toplevel_order_independent
#print axioms Glas.Props.C05.module_before_builtin
