import Glas.Props.C01
import Glas.Props.C02Marks
import Glas.Props.C02Stuck
#print axioms Glas.Props.C01.lex_tiles
#print axioms Glas.Props.C01.glas_noSkip
#print axioms Glas.Props.C01.exec_advances
#print axioms Glas.Props.C01.glas_mainShape
#print axioms Glas.Props.C01.main_consumes_all
#print axioms Glas.Props.C01.glas_policyOK
#print axioms Glas.Props.C01.buildTree_lossless
#print axioms Glas.Props.C01.C01_lossless
#print axioms Glas.Props.C01.buildTree_rootStart_needed
#print axioms Glas.Props.C01.glas_rootStart
#print axioms Glas.Props.C02Marks.C01_total
#print axioms Glas.Props.C02Stuck.C01_always
