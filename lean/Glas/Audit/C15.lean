import Glas.Props.C15
#print axioms Glas.Props.C15.fromPos_never_panics
#print axioms Glas.Props.C15.applyChange_never_panics
#print axioms Glas.Props.C15.applyChange_ok_small
#print axioms Glas.Props.C15.step_normal
#print axioms Glas.Props.C15.step_total
#print axioms Glas.Props.C15.one_answer_per_request
#print axioms Glas.Props.C15.unappliable_dropped_needs_size_bound
#print axioms Glas.Props.C15.unappliable_dropped
#print axioms Glas.Props.C15.unappliable_dropped_of_no_crash
