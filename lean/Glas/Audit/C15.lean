import Glas.Props.C15
import Glas.Props.C15Ids
#print axioms Glas.Props.C15.fromPos_never_panics
#print axioms Glas.Props.C15.applyChange_never_panics
#print axioms Glas.Props.C15.applyChange_ok_small
#print axioms Glas.Props.C15.step_normal
#print axioms Glas.Props.C15.step_total
#print axioms Glas.Props.C15.one_answer_per_request
#print axioms Glas.Props.C15.unappliable_dropped_needs_size_bound
#print axioms Glas.Props.C15.unappliable_dropped
#print axioms Glas.Props.C15.unappliable_dropped_of_no_crash
#print axioms Glas.Props.C15.sstep_normal
#print axioms Glas.Props.C15.sstep_total
#print axioms Glas.Props.C15.watched_open_untouched
#print axioms Glas.Props.C15.close_keeps_text
#print axioms Glas.Props.C15.vanished_forgotten
#print axioms Glas.Props.C15.forgotten_harmless
#print axioms Glas.Props.C15.forgotten_not_open
#print axioms Glas.Props.C15.applied_keeps_open
#print axioms Glas.Props.C15.changed_reread
#print axioms Glas.Props.C15.srun_total
#print axioms Glas.Props.C15Ids.reachable_inv
#print axioms Glas.Props.C15Ids.set_lookup_self
#print axioms Glas.Props.C15Ids.set_lookup_other
#print axioms Glas.Props.C15Ids.remove_lookup_self
#print axioms Glas.Props.C15Ids.remove_lookup_other
#print axioms Glas.Props.C15Ids.refines_map
#print axioms Glas.Props.C15Ids.ids_injective
