import Glas.Props.C19
#print axioms Glas.Props.C19.col_to_byte
