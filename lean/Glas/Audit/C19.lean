import Glas.Props.C19
#print axioms Glas.Props.C19.decode_encode
#print axioms Glas.Props.C19.strictly_increasing
#print axioms Glas.Props.C19.inside_line
