import Glas.Props.C19
import Glas.Props.C19Tags
#print axioms Glas.Props.C19.decode_encode
#print axioms Glas.Props.C19.strictly_increasing
#print axioms Glas.Props.C19.inside_line
#print axioms Glas.Props.C19Tags.glas_tag_table
#print axioms Glas.Props.C19Tags.tag_function_iff
#print axioms Glas.Props.C19Tags.tag_constructor_iff
#print axioms Glas.Props.C19Tags.tag_only_these
#print axioms Glas.Props.C19Tags.module_never_tagged
