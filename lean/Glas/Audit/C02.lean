import Glas.Props.C02
import Glas.Props.C02Marks
import Glas.Props.C02Stuck
import Glas.Props.C02Depth
#print axioms Glas.Props.C02.glas_checked
#print axioms Glas.Props.C02.check_sound_safe
#print axioms Glas.Props.C02.check_sound_terminates
#print axioms Glas.Props.C02.C02_safe
#print axioms Glas.Props.C02.C02_terminates
#print axioms Glas.Props.C02.bound_eq
#print axioms Glas.Props.C02Marks.glas_marks_checked
#print axioms Glas.Props.C02Marks.mcheck_sound
#print axioms Glas.Props.C02Marks.C02_marks
#print axioms Glas.Props.C02Marks.C02_total
#print axioms Glas.Props.C02Marks.C02_result_stable
#print axioms Glas.Props.C02Marks.modelFuel_ge_bound
#print axioms Glas.Props.C02Marks.driver_fuel_canonical
#print axioms Glas.Props.C02La.glas_la_checked
#print axioms Glas.Props.C02La.la_sound
#print axioms Glas.Props.C02La.C02_never_stuck
#print axioms Glas.Props.C02Stuck.C02_always_ok
#print axioms Glas.Props.C02Depth.depth_linear
#print axioms Glas.Props.C02Depth.glas_rankBound
#print axioms Glas.Props.C02Depth.C02_depth_linear
