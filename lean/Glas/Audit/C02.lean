import Glas.Props.C02
#print axioms Glas.Props.C02.glas_checked
#print axioms Glas.Props.C02.check_sound_safe
#print axioms Glas.Props.C02.check_sound_terminates
#print axioms Glas.Props.C02.C02_safe
#print axioms Glas.Props.C02.C02_terminates
#print axioms Glas.Props.C02.bound_eq
