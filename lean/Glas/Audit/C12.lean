import Glas.Props.C12
#print axioms Glas.Props.C12.hostFlags_ok
#print axioms Glas.Props.C12.isolation
#print axioms Glas.Props.C12.no_crash
#print axioms Glas.Props.C12.writer_progress
#print axioms Glas.Props.C12.no_cancel_blocks
#print axioms Glas.Props.C12.snapshot_after_write
