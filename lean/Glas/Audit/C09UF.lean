import Glas.Props.C09UF
#print axioms Glas.Props.C09UF.find_spec
#print axioms Glas.Props.C09UF.push_spec
#print axioms Glas.Props.C09UF.unify_spec
#print axioms Glas.Props.C09UF.applyOp_wf
#print axioms Glas.Props.C09UF.foldl_applyOp_wf
#print axioms Glas.Props.C09UF.reachable_wf
#print axioms Glas.Props.C09UF.get_total
