import Glas.Props.C14
#print axioms Glas.Props.C14.col_to_byte
