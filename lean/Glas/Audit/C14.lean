import Glas.Props.C14
#print axioms Glas.Props.C14.lineCol_eq_client
#print axioms Glas.Props.C14.roundtrip
#print axioms Glas.Props.C14.strict_mono
#print axioms Glas.Props.C14.client_resolves
#print axioms Glas.Props.C14.toRange_selects
