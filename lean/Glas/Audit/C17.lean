import Glas.Props.C17
#print axioms Glas.Props.C17.placeholder
