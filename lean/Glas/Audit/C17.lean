import Glas.Props.C17
#print axioms Glas.Props.C17.moduleName_spec
#print axioms Glas.Props.C17.moduleName_other_ext
#print axioms Glas.Props.C17.assignRoot_innermost
#print axioms Glas.Props.C17.assignRoot_total
#print axioms Glas.Props.C17.isLocal_iff
#print axioms Glas.Props.C17.free_standing_none
#print axioms Glas.Props.C17.projectParent_has_toml
