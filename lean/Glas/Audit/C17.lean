import Glas.Props.C17
import Glas.Props.C17Imports
import Glas.Props.C17Graph
#print axioms Glas.Props.C17.moduleName_spec
#print axioms Glas.Props.C17.moduleName_other_ext
#print axioms Glas.Props.C17.assignRoot_innermost
#print axioms Glas.Props.C17.assignRoot_total
#print axioms Glas.Props.C17.isLocal_iff
#print axioms Glas.Props.C17.free_standing_none
#print axioms Glas.Props.C17.projectParent_has_toml
#print axioms Glas.Props.C17Imports.resolve_sound
#print axioms Glas.Props.C17Imports.resolve_complete
#print axioms Glas.Props.C17Imports.transitive_invisible
#print axioms Glas.Props.C17Imports.own_wins
#print axioms Glas.Props.C17Imports.unique_candidate
#print axioms Glas.Props.C17Graph.assemble_inv
#print axioms Glas.Props.C17Graph.assemble_sound
