import Glas.Props.C06
#print axioms Glas.Props.C06.refs_iff
#print axioms Glas.Props.C06.refs_nodup
#print axioms Glas.Props.C06.highlight_iff
#print axioms Glas.Props.C06.exact_iff_counterexample
#print axioms Glas.Props.C06.exact_iff_refuted
#print axioms Glas.Props.C06.listed_of_cls
#print axioms Glas.Props.C06.exact_iff
#print axioms Glas.Props.C06.refs_closed
