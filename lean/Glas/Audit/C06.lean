import Glas.Props.C06
#print axioms Glas.Props.C06.refs_iff
#print axioms Glas.Props.C06.refs_nodup
#print axioms Glas.Props.C06.highlight_iff
#print axioms Glas.Props.C06.exact_iff_counterexample
#print axioms Glas.Props.C06.exact_iff_refuted
#print axioms Glas.Props.C06.listed_of_cls
#print axioms Glas.Props.C06.exact_iff
#print axioms Glas.Props.C06.refs_closed
#print axioms Glas.Props.C06.own_in_scope
#print axioms Glas.Props.C06.graph_in_scope
#print axioms Glas.Props.C06.local_scope
#print axioms Glas.Props.C06.exact_iff_scoped
