import Glas.Props.C04
import Glas.Props.C04Pratt
#print axioms Glas.Props.C04.infix_ops_exact
#print axioms Glas.Props.C04.prefix_ops_exact
#print axioms Glas.Props.C04.left_assoc
#print axioms Glas.Props.C04.level_uniform
#print axioms Glas.Props.C04.levels_ordered
#print axioms Glas.Props.C04.prefix_tighter
#print axioms Glas.Props.C04.no_spurious_noassoc
#print axioms Glas.Props.C04Pratt.pratt_roundtrip
#print axioms Glas.Props.C04Pratt.glas_tableOK
#print axioms Glas.Props.C04Pratt.C04_pratt
