import Glas.Props.C04
#print axioms Glas.Props.C04.infix_ops_exact
#print axioms Glas.Props.C04.prefix_ops_exact
#print axioms Glas.Props.C04.left_assoc
#print axioms Glas.Props.C04.level_uniform
#print axioms Glas.Props.C04.levels_ordered
#print axioms Glas.Props.C04.prefix_tighter
#print axioms Glas.Props.C04.no_spurious_noassoc
