import Glas.Props.C18
#print axioms Glas.Props.C18.holes_refine_spec
#print axioms Glas.Props.C18.completion_iff_resolvable
#print axioms Glas.Props.C18.buildValues_keys_nodup
#print axioms Glas.Props.C18.completion_nodup
