import Glas.Props.C18
import Glas.Props.C18Dot
#print axioms Glas.Props.C18.holes_refine_spec
#print axioms Glas.Props.C18.completion_iff_resolvable
#print axioms Glas.Props.C18.buildValues_keys_nodup
#print axioms Glas.Props.C18.completion_nodup
#print axioms Glas.Props.C18Dot.accessor_iff
#print axioms Glas.Props.C18Dot.not_accessor_of_missing
#print axioms Glas.Props.C18Dot.not_accessor_of_different
#print axioms Glas.Props.C18Dot.accessors_nodup
#print axioms Glas.Props.C18Dot.moduleDot_iff
#print axioms Glas.Props.C18Dot.private_never_offered
