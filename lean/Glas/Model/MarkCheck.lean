import Glas.Model.Dsl
/-!
# M-syntax, part 5: a certificate checker for the mark discipline of the parser

`MarkOpened{index}` / `MarkClosed{index}` of `parser.rs` are raw indices into the event list;
`start_node_before` *inserts* an event, which silently moves every later event.  `exec`
(`Glas/Model/Dsl.lean`) reports the use of a mark whose index no longer points at its own event as
`markMisuse`, a node that is never finished as `leak`, and a value of the wrong shape handed back by a
call as `badProg`.  `mcheck : Prog → Bool` is an executable abstract interpreter that refuses every
program in which one of the three could happen; its soundness is `Glas/Lemmas/MarkSound.lean`.

Abstract state at a program point: the *live* marks of the current frame, ordered by the position of
their events (bottom → top), each `opened` (node not finished yet) or `closed`; plus the boolean locals
whose value is known (the flag of an `Option<MarkClosed>` result).  The discipline is a stack
discipline:

* `open m` pushes an opened mark; the slot must not hold an opened mark (it would never be finished);
* `close m k dst` needs `m` opened; `dst` takes `m`'s place as a closed mark;
* `openBefore m' m` needs `m` closed and no opened mark above it; closed marks above it are forgotten
  (the insertion makes their indices stale);
* a call passes exactly the topmost marks, in order, in the states the callee expects; the callee
  returns with every node it was given or opened finished; a returned mark is pushed as closed;
* at every exit of a procedure no opened mark is left.
-/
namespace Glas.MarkCheck
open Glas.Dsl

/-- what a procedure hands back -/
inductive RK where
  | unit | nat | mark | optMark
deriving DecidableEq, Repr, Inhabited

/-- summary of a procedure: state of its mark parameter on entry (`none` = it takes no mark,
`some true` = an opened mark in slot 0, `some false` = a closed one; procedures with several mark
parameters are refused), and the shape of its result -/
structure MSumm where
  param : Option Bool
  rk : RK
deriving DecidableEq, Repr, Inhabited

structure MA where
  /-- live marks `(slot, opened?)`, bottom → top -/
  ms : List (Nat × Bool)
  /-- boolean locals with a known value -/
  flags : List (Nat × Bool)
deriving DecidableEq, Repr, Inhabited

structure MRes where
  norm : List MA
  brk : List MA
  /-- (inference only) `(callee, state of the passed mark)` -/
  calls : List (Nat × Option Bool)
deriving Repr, Inhabited

def addNew (x : MA) (l : List MA) : List MA := if x ∈ l then l else x :: l
def unionL (a b : List MA) : List MA := a.foldr addNew b
def dedup (a : List MA) : List MA := unionL a []

def lookupM (m : Nat) : List (Nat × Bool) → Option Bool
  | [] => none
  | (y, s) :: l => if y = m then some s else lookupM m l

def removeM (m : Nat) (l : List (Nat × Bool)) : List (Nat × Bool) := l.filter (fun e => e.1 != m)

def noOpened (l : List (Nat × Bool)) : Bool := l.all (fun e => !e.2)

/-- the slot may be overwritten: it holds no opened mark -/
def freeSlot (m : Nat) (l : List (Nat × Bool)) : Bool := lookupM m l != some true

def dropFlag (x : Nat) (l : List (Nat × Bool)) : List (Nat × Bool) := l.filter (fun e => e.1 != x)

/-- known value of a condition (`flag`, `!flag`, `flag == 0`, `flag == 1`) -/
def condVal (flags : List (Nat × Bool)) : Expr → Option Bool
  | .var x => lookupM x flags
  | .eq (.var x) (.lit 0) => (lookupM x flags).map (fun b => !b)
  | .eq (.var x) (.lit 1) => lookupM x flags
  | .not c => (condVal flags c).map (fun b => !b)
  | _ => none

def aOpen (nm m : Nat) (a : MA) : Option MA :=
  if decide (m < nm) && freeSlot m a.ms then some { a with ms := removeM m a.ms ++ [(m, true)] } else none

def aClose (nm m : Nat) (dst : Option Nat) (a : MA) : Option MA :=
  if lookupM m a.ms = some true then
    match dst with
    | none => some { a with ms := removeM m a.ms }
    | some d =>
      if decide (d < nm) && (d == m || freeSlot d a.ms) then
        let ms1 := if d = m then a.ms else removeM d a.ms
        some { a with ms := ms1.map (fun e => if e.1 = m then (d, false) else e) }
      else none
  else none

def aOpenBefore (nm m' m : Nat) (a : MA) : Option MA :=
  if lookupM m a.ms = some false then
    let pre := a.ms.takeWhile (fun e => e.1 != m)
    let post := (a.ms.dropWhile (fun e => e.1 != m)).tail
    if noOpened post && decide (m' < nm) && (m' == m || freeSlot m' pre) then
      some { a with ms := removeM m' pre ++ [(m', true)] }
    else none
  else none

def aSet (nl x : Nat) (e : Expr) (a : MA) : MA :=
  let fl := dropFlag x a.flags
  if decide (x < nl) then
    match e with
    | .lit 0 => { a with flags := (x, false) :: fl }
    | .lit 1 => { a with flags := (x, true) :: fl }
    | _ => { a with flags := fl }
  else { a with flags := fl }

def dstOk (d : Dst) (rk : RK) : Bool :=
  match d, rk with
  | .none, _ => true
  | .nat _, .nat => true
  | .mark _, .mark => true
  | .optMark _ _, .mark => true
  | .optMark _ _, .optMark => true
  | _, _ => false

/-- the caller's states after a call whose passed marks have been taken off (`rest`) -/
def aDst (nm nl : Nat) (rk : RK) (rest : List (Nat × Bool)) (flags : List (Nat × Bool)) :
    Dst → Option (List MA)
  | .none => some [⟨rest, flags⟩]
  | .nat x => some [⟨rest, dropFlag x flags⟩]
  | .mark m =>
    if decide (m < nm) && freeSlot m rest then some [⟨removeM m rest ++ [(m, false)], flags⟩] else none
  | .optMark m f =>
    if decide (m < nm) && decide (f < nl) && freeSlot m rest then
      some ((if rk = .mark then [] else [⟨removeM m rest, (f, false) :: dropFlag f flags⟩]) ++
            [⟨removeM m rest ++ [(m, false)], (f, true) :: dropFlag f flags⟩])
    else none

/-- split off the passed mark: `margs = []` passes nothing, `margs = [m]` must name the topmost live
mark; result = (remaining marks, state of the passed mark) -/
def splitTop (ms : List (Nat × Bool)) : List Nat → Option (List (Nat × Bool) × Option Bool)
  | [] => some (ms, none)
  | [m] =>
    match ms.getLast? with
    | some (y, s) => if y = m then some (ms.dropLast, some s) else none
    | none => none
  | _ => none

/-- `param = none`: inference mode, the state of the passed mark is only recorded -/
def aCall (nm nl : Nat) (param : Option (Option Bool)) (rk : RK) (margs : List Nat) (dst : Dst) (a : MA) :
    Option (List MA × Option Bool) :=
  match splitTop a.ms margs with
  | none => none
  | some (rest, st) =>
    if dstOk dst rk && (match param with | some ps => st == ps | none => true) then
      match aDst nm nl rk rest a.flags dst with
      | some r => some (r, st)
      | none => none
    else none

def aRet (rk : RK) (r : Ret) (a : MA) : Bool :=
  noOpened a.ms &&
    (match r, rk with
     | .unit, .unit => true
     | .nat _, .nat => true
     | .mark m, .mark => lookupM m a.ms == some false
     | .mark m, .optMark => lookupM m a.ms == some false
     | .noMark, .optMark => true
     | _, _ => false)

def mapAll {α β} (f : α → Option β) : List α → Option (List β)
  | [] => some []
  | x :: xs =>
    match f x with
    | none => none
    | some y =>
      match mapAll f xs with
      | none => none
      | some ys => some (y :: ys)

/-- abstract execution; `Γ` = summaries (`params = none` only while inferring), `nm`/`nl` = number of
mark slots / locals of the procedure, `rk` = shape of its result -/
def maexec (Γ : List (Option (Option Bool) × RK)) (nm nl : Nat) (rk : RK) : Stmt → List MA → Option MRes
  | .skip, as => some ⟨as, [], []⟩
  | .bump, as => some ⟨as, [], []⟩
  | .err _ _, as => some ⟨as, [], []⟩
  | .assert _, as => some ⟨as, [], []⟩
  | .open m, as =>
    match mapAll (aOpen nm m) as with
    | some r => some ⟨dedup r, [], []⟩
    | none => none
  | .openBefore m' m, as =>
    match mapAll (aOpenBefore nm m' m) as with
    | some r => some ⟨dedup r, [], []⟩
    | none => none
  | .close m _ dst, as =>
    match mapAll (aClose nm m dst) as with
    | some r => some ⟨dedup r, [], []⟩
    | none => none
  | .set x e, as => some ⟨dedup (as.map (aSet nl x e)), [], []⟩
  | .seq a b, as =>
    match maexec Γ nm nl rk a as with
    | none => none
    | some r1 =>
      match maexec Γ nm nl rk b r1.norm with
      | none => none
      | some r2 => some ⟨r2.norm, unionL r1.brk r2.brk, r1.calls ++ r2.calls⟩
  | .ite c t e, as =>
    match maexec Γ nm nl rk t (as.filter (fun a => condVal a.flags c != some false)) with
    | none => none
    | some r1 =>
      match maexec Γ nm nl rk e (as.filter (fun a => condVal a.flags c != some true)) with
      | none => none
      | some r2 => some ⟨unionL r1.norm r2.norm, unionL r1.brk r2.brk, r1.calls ++ r2.calls⟩
  | .loop b, as =>
    -- candidate invariant: the entry states and the body's normal exits from them
    match maexec Γ nm nl rk b as with
    | none => none
    | some r0 =>
      let S := unionL r0.norm as
      match maexec Γ nm nl rk b S with
      | none => none
      | some r => if r.norm.all (fun a => decide (a ∈ S)) then some ⟨r.brk, [], r.calls⟩ else none
  | .brk, as => some ⟨[], as, []⟩
  | .ret r, as => if as.all (aRet rk r) then some ⟨[], [], []⟩ else none
  | .call f _ margs dst, as =>
    match Γ[f]? with
    | none => none
    | some (param, frk) =>
      match mapAll (aCall nm nl param frk margs dst) as with
      | none => none
      | some rs => some ⟨dedup (rs.flatMap (·.1)), [], rs.map (fun r => (f, r.2))⟩

/-! ## procedures and programs -/

def initMA (param : Option Bool) : MA :=
  match param with
  | none => ⟨[], []⟩
  | some s => ⟨[(0, s)], []⟩

def toΓ (Γ : List MSumm) : List (Option (Option Bool) × RK) := Γ.map (fun s => (some s.param, s.rk))

/-- every exit of the body: nothing opened is left; falling off the end hands back `()` -/
def checkProc (Γ : List MSumm) (p : Proc) (s : MSumm) : Bool :=
  match maexec (toΓ Γ) p.nMarks p.nLocals s.rk p.body [initMA s.param] with
  | none => false
  | some r => r.brk.isEmpty && (r.norm.isEmpty || s.rk == .unit) && r.norm.all (fun a => noOpened a.ms)

def checkProcs (Γ : List MSumm) : List Proc → List MSumm → Bool
  | [], [] => true
  | p :: ps, s :: ss => checkProc Γ p s && checkProcs Γ ps ss
  | _, _ => false

def mcheckWith (Γ : List MSumm) (P : Prog) : Bool :=
  checkProcs Γ P.procs Γ &&
    (match Γ[P.main]? with
     | some s => s.param.isNone && s.rk == .unit
     | none => false)

/-! ## (untrusted) inference of the summaries -/

def rkJoin : RK → RK → RK
  | .unit, r => r
  | r, .unit => r
  | .optMark, _ => .optMark
  | _, .optMark => .optMark
  | r, _ => r

def rkOf : Stmt → RK
  | .ret (.nat _) => .nat
  | .ret (.mark _) => .mark
  | .ret .noMark => .optMark
  | .seq a b => rkJoin (rkOf a) (rkOf b)
  | .ite _ t e => rkJoin (rkOf t) (rkOf e)
  | .loop b => rkOf b
  | _ => .unit

def setNthO {α} (l : List (Option α)) (i : Nat) (v : α) : List (Option α) :=
  match l[i]? with
  | some none => setNth l i (some v)
  | _ => l

/-- one round: analyse every procedure whose parameter state is known and record the states its call
sites pass -/
def inferRound (P : Prog) (rks : List RK) (ps : List (Option (Option Bool))) : List (Option (Option Bool)) :=
  let Γ := ps.zip rks
  let calls := (P.procs.zip Γ).flatMap (fun (p, (par, rk)) =>
    match par with
    | none => []
    | some par =>
      match maexec Γ p.nMarks p.nLocals rk p.body [initMA par] with
      | some r => r.calls
      | none => [])
  calls.foldl (fun acc c => setNthO acc c.1 c.2) ps

def inferIter (P : Prog) (rks : List RK) : Nat → List (Option (Option Bool)) → List (Option (Option Bool))
  | 0, ps => ps
  | k + 1, ps =>
    let ps' := inferRound P rks ps
    if ps' == ps then ps else inferIter P rks k ps'

def minfer (P : Prog) : List MSumm :=
  let rks := P.procs.map (fun p => rkOf p.body)
  let ps0 := setNth (P.procs.map (fun _ => (none : Option (Option Bool)))) P.main (some none)
  let ps := inferIter P rks (P.procs.length + 1) ps0
  (ps.zip rks).map (fun (par, rk) => ⟨par.getD none, rk⟩)

def mcheck (P : Prog) : Bool := mcheckWith (minfer P) P

end Glas.MarkCheck
