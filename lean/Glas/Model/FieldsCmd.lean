import Glas.Model.Fields
import Glas.Model.Proto
/-! Driver commands `fields` (accessors of a custom type) and `moddot` (items offered after `module.`). -/
namespace Glas.FieldsCmd
open Glas.Fields Glas.Proto

def parseCtor (s : String) : Option Ctor :=
  if s == "-" then some [] else
  (s.splitOn ",").mapM (fun f =>
    match f.splitOn ":" with
    | [l, t] => (unhex t).map (fun ty => (l, String.ofList ty))
    | _ => none)

def parseDecl (s : String) : Option Decl :=
  match s.splitOn ":" with
  | [n, k, p] =>
    let kind : DeclKind := if k == "fn" then .function else if k == "variant" then .variant else if k == "adt" then .adt
      else if k == "alias" then .alias else if k == "const" then .const else .other
    some { name := n, kind := kind, pub := p == "1" }
  | _ => none

def insertSorted (x : String) : List String → List String
  | [] => [x]
  | y :: ys => if x < y then x :: y :: ys else if x = y then y :: ys else y :: insertSorted x ys

def sortU (l : List String) : List String := l.foldr insertSorted []

def showNames (l : List String) : String := if l.isEmpty then "empty" else ",".intercalate (sortU l)

def run (args : List String) : Option String :=
  match args with
  | ["fields", cs] =>
    let ctors : Option (List Ctor) := if cs == "none" then some [] else (cs.splitOn ";").mapM parseCtor
    ctors.map (fun cs => showNames ((commonFields cs).map (·.1)))
  | ["moddot", ds] =>
    let decls : Option (List Decl) := if ds == "-" then some [] else (ds.splitOn ";").mapM parseDecl
    decls.map (fun ds => showNames (moduleDot ds))
  | _ => none

end Glas.FieldsCmd
