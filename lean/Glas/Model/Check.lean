import Glas.Model.Dsl
/-!
# M-syntax, part 4: a certificate checker for "no `bump` at end of input, no failed `assert!`,
every loop iteration and every recursion cycle consumes a token"

`check : Prog → Bool` is an executable abstract interpreter over the DSL of `Glas/Model/Dsl.lean`.
It is split into an *untrusted* inference `infer : Prog → List Summ` (procedure summaries) and the
*checked* part `checkWith : List Summ → Prog → Bool`; soundness (`Glas/Lemmas/CheckSound*.lean`) is
proved for `checkWith Γ P = true` with an arbitrary `Γ`.

Abstract state at a program point (`AState`):
* `cur`   – a set over-approximating the *current token* `toks[pos]?` (`none` = end of input).  Kinds are
            arbitrary naturals, so the set is a finite or co-finite bit mask plus an "end of input" bit;
* `facts` – the locals known to hold `nth(0)` (the kind of the current token) since the last `bump`;
* `adv`   – "a token has been consumed since …": head = innermost enclosing loop head, last = procedure
            entry.
-/
namespace Glas.Check
open Glas.Dsl

/-! ## sets of current tokens -/

/-- a set of `Option Kind`: `e` = contains `none` (end of input); the kinds are those of mask `m`
(`neg = false`) or those *not* in mask `m` (`neg = true`) -/
structure Cur where
  e : Bool
  neg : Bool
  m : Nat
deriving DecidableEq, Repr, Inhabited

namespace Cur

def top : Cur := ⟨true, true, 0⟩
def endOnly : Cur := ⟨true, false, 0⟩
/-- the tokens on which `nth(0)` lies in the mask `S` -/
def ofMask (eofK S : Nat) : Cur := ⟨S.testBit eofK, false, S⟩

def mem (o : Option Nat) (c : Cur) : Bool :=
  match o with
  | none => c.e
  | some k => c.neg != c.m.testBit k

/-- mask difference `a \ b` -/
def msub (a b : Nat) : Nat := a ^^^ (a &&& b)

def inter (a b : Cur) : Cur :=
  { e := a.e && b.e
    neg := a.neg && b.neg
    m := match a.neg, b.neg with
      | false, false => a.m &&& b.m
      | false, true => msub a.m b.m
      | true, false => msub b.m a.m
      | true, true => a.m ||| b.m }

def diff (a b : Cur) : Cur :=
  { e := a.e && !b.e
    neg := a.neg && !b.neg
    m := match a.neg, b.neg with
      | false, false => msub a.m b.m
      | false, true => a.m &&& b.m
      | true, false => a.m ||| b.m
      | true, true => msub b.m a.m }

def isEmpty (c : Cur) : Bool := !c.e && !c.neg && c.m == 0

def sub (a b : Cur) : Bool := (a.diff b).isEmpty

def compl (c : Cur) : Cur := ⟨!c.e, !c.neg, c.m⟩
/-- (inference only) -/
def union (a b : Cur) : Cur := ((a.compl).diff b).compl

end Cur

/-! ## abstract states -/

structure AState where
  cur : Cur
  /-- locals holding `nth(0)` -/
  facts : List Nat
  /-- `(x, S)`: local `x` holds `b2n (nth(0) ∈ S)` -/
  bfacts : List (Nat × Nat)
  adv : List Bool
deriving DecidableEq, Repr, Inhabited

/-- procedure summary: `pre` = current tokens the procedure may be entered on; `prog` = current tokens
on which every normal return has consumed at least one token; `rank` = order of "may be called before
the caller has consumed anything" -/
structure Summ where
  pre : Cur
  prog : Cur
  rank : Nat
deriving DecidableEq, Repr, Inhabited

structure Res where
  norm : List AState
  brk : List AState
  ret : List AState
  /-- (inference only) procedures called in a state where nothing has been consumed since entry -/
  calls : List Nat
deriving Repr, Inhabited

def addNew (x : AState) (l : List AState) : List AState := if x ∈ l then l else x :: l
def unionL (a b : List AState) : List AState := a.foldr addNew b
def dedup (a : List AState) : List AState := unionL a []

def lastFlag : List Bool → Bool
  | [] => false
  | [b] => b
  | _ :: bs => lastFlag bs

def headFlag : List Bool → Bool
  | [] => false
  | b :: _ => b

def consume (a : AState) : AState :=
  { cur := Cur.top, facts := [], bfacts := [], adv := a.adv.map (fun _ => true) }
def pushF (a : AState) : AState := { a with adv := false :: a.adv }
def generic (a : AState) : AState :=
  { cur := Cur.top, facts := [], bfacts := [], adv := false :: a.adv.map (fun _ => true) }
def pop (a : AState) : AState := { a with adv := a.adv.tail }

/-! ## conditions -/

/-- does the expression denote `nth(0)`? -/
def isCurE (facts : List Nat) : Expr → Bool
  | .nth 0 => true
  | .var x => decide (x ∈ facts)
  | _ => false

def refCur (a : AState) (b : Cur) (t : Bool) : List AState :=
  let c := if t then a.cur.inter b else a.cur.diff b
  if c.isEmpty then [] else [{ a with cur := c }]

/-- the mask `S` such that the expression evaluates to `b2n (nth(0) ∈ S)` -/
def testOf (facts : List Nat) : Expr → Option Nat
  | .eq e (.lit K) => if isCurE facts e then some (1 <<< K) else none
  | .inSet S e => if isCurE facts e then some S else none
  | _ => none

def lookupB (x : Nat) : List (Nat × Nat) → Option Nat
  | [] => none
  | (y, S) :: l => if y = x then some S else lookupB x l

/-- refinement by a condition of the form "`nth(0) ∈ S`" -/
def refTest (eofK : Nat) (c : Expr) (t : Bool) (a : AState) : List AState :=
  match testOf a.facts c with
  | some S => refCur a (Cur.ofMask eofK S) t
  | none => [a]

/-- refinement by a boolean local -/
def refVar (eofK : Nat) (x : Nat) (t : Bool) (a : AState) : List AState :=
  match lookupB x a.bfacts with
  | some S => refCur a (Cur.ofMask eofK S) t
  | none => [a]

/-- the abstract states in which condition `c` may evaluate to `t` (empty = infeasible) -/
def refine (eofK : Nat) : Expr → Bool → AState → List AState
  | .eof, t, a => refCur a Cur.endOnly t
  | .not c, t, a => refine eofK c (!t) a
  | .and c d, true, a => (refine eofK c true a).flatMap (refine eofK d true)
  | .and c d, false, a => refine eofK c false a ++ (refine eofK c true a).flatMap (refine eofK d false)
  | .or c d, true, a => refine eofK c true a ++ (refine eofK c false a).flatMap (refine eofK d true)
  | .or c d, false, a => (refine eofK c false a).flatMap (refine eofK d false)
  | .var x, t, a => refVar eofK x t a
  | c, t, a => refTest eofK c t a

/-! ## transfer functions -/

def dropB (x : Nat) (l : List (Nat × Nat)) : List (Nat × Nat) := l.filter (fun p => p.1 != x)
def dropF (x : Nat) (l : List Nat) : List Nat := l.filter (fun y => y != x)

def setFact (nl x : Nat) (e : Expr) (a : AState) : AState :=
  if decide (x < nl) then
    if isCurE a.facts e then
      { a with facts := if x ∈ a.facts then a.facts else x :: a.facts, bfacts := dropB x a.bfacts }
    else
      match testOf a.facts e with
      | some S => { a with facts := dropF x a.facts, bfacts := (x, S) :: dropB x a.bfacts }
      | none => { a with facts := dropF x a.facts, bfacts := dropB x a.bfacts }
  else { a with facts := dropF x a.facts, bfacts := dropB x a.bfacts }

def dstLocal : Dst → Option Nat
  | .nat x => some x
  | .optMark _ f => some f
  | _ => none

def dropDst (d : Dst) (a : AState) : AState :=
  match dstLocal d with
  | some x => { a with facts := dropF x a.facts, bfacts := dropB x a.bfacts }
  | none => a

def callRes (s : Summ) (dst : Dst) (a : AState) : List AState :=
  consume a ::
    (if (a.cur.diff s.prog).isEmpty then []
     else [{ dropDst dst a with cur := a.cur.diff s.prog }])

def callOk (s : Summ) (self : Nat) (a : AState) : Bool :=
  a.cur.sub s.pre && (lastFlag a.adv || decide (s.rank < self))

/-- abstract execution of a statement from a list of abstract states; `none` = refused -/
def aexecL (Γ : List Summ) (eofK nl self : Nat) : Stmt → List AState → Option Res
  | .skip, as => some ⟨as, [], [], []⟩
  | .bump, as =>
    if as.all (fun a => !a.cur.e) then some ⟨dedup (as.map consume), [], [], []⟩ else none
  | .err _ _, as => some ⟨as, [], [], []⟩
  | .open _, as => some ⟨as, [], [], []⟩
  | .openBefore _ _, as => some ⟨as, [], [], []⟩
  | .close _ _ _, as => some ⟨as, [], [], []⟩
  | .assert c, as =>
    if as.all (fun a => (refine eofK c false a).isEmpty) then
      some ⟨dedup (as.flatMap (refine eofK c true)), [], [], []⟩
    else none
  | .set x e, as => some ⟨dedup (as.map (setFact nl x e)), [], [], []⟩
  | .seq a b, as =>
    match aexecL Γ eofK nl self a as with
    | none => none
    | some r1 =>
      match aexecL Γ eofK nl self b r1.norm with
      | none => none
      | some r2 => some ⟨r2.norm, unionL r1.brk r2.brk, unionL r1.ret r2.ret, r1.calls ++ r2.calls⟩
  | .ite c t e, as =>
    match aexecL Γ eofK nl self t (dedup (as.flatMap (refine eofK c true))) with
    | none => none
    | some r1 =>
      match aexecL Γ eofK nl self e (dedup (as.flatMap (refine eofK c false))) with
      | none => none
      | some r2 =>
        some ⟨unionL r1.norm r2.norm, unionL r1.brk r2.brk, unionL r1.ret r2.ret, r1.calls ++ r2.calls⟩
  | .loop b, as =>
    match aexecL Γ eofK nl self b (unionL (as.map pushF) (dedup (as.map generic))) with
    | none => none
    | some r =>
      if r.norm.all (fun a => headFlag a.adv) then
        some ⟨dedup (r.brk.map pop), [], dedup (r.ret.map pop), r.calls⟩
      else none
  | .brk, as => some ⟨[], as, [], []⟩
  | .ret _, as => some ⟨[], [], as, []⟩
  | .call f _ _ dst, as =>
    match Γ[f]? with
    | none => none
    | some s =>
      if as.all (callOk s self) then
        some ⟨dedup (as.flatMap (callRes s dst)), [], [],
              if as.any (fun a => !lastFlag a.adv) then [f] else []⟩
      else none

/-! ## procedures and programs -/

def initState (s : Summ) : AState := ⟨s.pre, [], [], [false]⟩

/-- a procedure exit is fine if something has been consumed since entry, or if the current token (then
still the one at entry) is not one on which progress is promised -/
def exitOk (s : Summ) (a : AState) : Bool := lastFlag a.adv || (a.cur.inter s.prog).isEmpty

def checkProc (Γ : List Summ) (eofK : Nat) (p : Proc) (s : Summ) : Bool :=
  match aexecL Γ eofK p.nLocals s.rank p.body [initState s] with
  | none => false
  | some r => r.brk.isEmpty && r.norm.all (exitOk s) && r.ret.all (exitOk s)

def checkProcs (Γ : List Summ) (eofK : Nat) : List Proc → List Summ → Bool
  | [], [] => true
  | p :: ps, s :: ss => checkProc Γ eofK p s && checkProcs Γ eofK ps ss
  | _, _ => false

def checkWith (Γ : List Summ) (P : Prog) : Bool :=
  checkProcs Γ P.eofKind P.procs Γ &&
    (match Γ[P.main]? with
     | some s => Cur.top.sub s.pre
     | none => false)

/-! ## (untrusted) inference of the summaries -/

def firstStmt : Stmt → Stmt
  | .seq a _ => firstStmt a
  | s => s

def inferPre (eofK : Nat) (p : Proc) : Cur :=
  match firstStmt p.body with
  | .assert c =>
    (match refine eofK c true ⟨Cur.top, [], [], []⟩ with
     | [a] => a.cur
     | _ => Cur.top)
  | _ => Cur.top

def stuckCur : List AState → Cur
  | [] => ⟨false, false, 0⟩
  | a :: as => if lastFlag a.adv then stuckCur as else a.cur.union (stuckCur as)

/-- rank used while inferring (never refuses a call) -/
def bigRank : Nat := 1000000

def inferStep (Γ : List Summ) (eofK : Nat) (p : Proc) (s : Summ) : Summ × List Nat :=
  match aexecL Γ eofK p.nLocals bigRank p.body [initState s] with
  | none => (s, [])
  | some r => ({ s with prog := s.pre.diff (stuckCur (r.norm ++ r.ret)) }, r.calls)

def inferRound (Γ : List Summ) (eofK : Nat) : List Proc → List Summ → List (Summ × List Nat)
  | p :: ps, s :: ss => inferStep Γ eofK p s :: inferRound Γ eofK ps ss
  | _, _ => []

def inferIter (P : Prog) : Nat → List Summ → List (Summ × List Nat)
  | 0, Γ => Γ.map (fun s => (s, []))
  | k + 1, Γ =>
    let R := inferRound Γ P.eofKind P.procs Γ
    let Γ' := R.map (·.1)
    if Γ' = Γ then R else inferIter P k Γ'

def maxL : List Nat → Nat
  | [] => 0
  | x :: xs => max x (maxL xs)

def rankRound (calls : List (List Nat)) (rk : List Nat) : List Nat :=
  calls.map (fun cs => maxL (cs.map (fun g => (rk[g]?).getD 0 + 1)))

def rankIter (calls : List (List Nat)) : Nat → List Nat → List Nat
  | 0, rk => rk
  | k + 1, rk => rankIter calls k (rankRound calls rk)

def setRanks : List Summ → List Nat → List Summ
  | s :: ss, r :: rs => { s with rank := r } :: setRanks ss rs
  | ss, _ => ss

def infer (P : Prog) : List Summ :=
  let Γ0 := P.procs.map (fun p => ({ pre := inferPre P.eofKind p, prog := Cur.top, rank := 0 } : Summ))
  let R := inferIter P 32 Γ0
  let calls := R.map (·.2)
  let rk := rankIter calls (P.procs.length + 1) (P.procs.map (fun _ => 0))
  setRanks (R.map (·.1)) rk

def check (P : Prog) : Bool := checkWith (infer P) P

/-! ## the fuel bound -/

def size : Stmt → Nat
  | .seq a b => 1 + size a + size b
  | .ite _ t e => 1 + size t + size e
  | .loop b => 1 + size b
  | _ => 1

/-- `S`: strictly above every body size -/
def bodyBound (P : Prog) : Nat := 1 + maxL (P.procs.map (fun p => size p.body))
/-- `R`: strictly above every rank -/
def rankBound (Γ : List Summ) : Nat := 1 + maxL (Γ.map (·.rank))
/-- `C`: fuel released by one consumed token -/
def tokCost (Γ : List Summ) (P : Prog) : Nat := 1 + bodyBound P + rankBound Γ * bodyBound P

def boundWith (Γ : List Summ) (P : Prog) (len : Nat) : Nat :=
  2 + bodyBound P + len * tokCost Γ P + rankBound Γ * bodyBound P

def bound (P : Prog) (len : Nat) : Nat := boundWith (infer P) P len

end Glas.Check
