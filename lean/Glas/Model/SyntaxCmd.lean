import Glas.Model.Dsl
import Glas.Model.Tree
import Glas.Model.Lexer
import Glas.Model.Proto
import Glas.Gen.Kind
import Glas.Gen.Lexer
import Glas.Gen.Parser
import Glas.Gen.Policy
import Glas.Model.Items
import Glas.Model.Check
import Glas.Model.LaCheck
/-! Driver commands for M-syntax: `lex`, `parse` (generated lexer rules, generated parser program,
generated tree-builder policy). -/
namespace Glas.SyntaxCmd
open Glas.Dsl Glas.Tree Glas.Lexer Glas.Proto Glas.Gen

def u8len (cs : List Char) : Nat := (cs.map (fun c => c.utf8Size)).sum

def lexText (s : List Char) : List RawTok := lex glasRules lexErrorKind s

/-- the complete model of `parse_module`: lex, filter trivia, run the program, build the tree -/
def parseModel (fuel : Nat) (s : List Char) : Except String (Tree × St × List RawTok) :=
  let raw := lexText s
  let toks := (raw.filter (fun t => !parserTrivia t.1)).map (fun t => t.1)
  match runMain glasProg fuel toks with
  | .oof => .error "OOF"
  | .panic w _ => .error ("PANIC " ++ (match w with
      | .bumpAtEof => "bumpAtEof" | .assertFailed => "assertFailed" | .stuck => "stuck"
      | .markMisuse => "markMisuse" | .leak => "leak" | .badProg => "badProg"))
  | .ok σ =>
    match buildTree glasPolicy σ.events raw with
    | .error p => .error ("PANIC builder:" ++ (match p with
        | .noToken => "noToken" | .finishNoParent => "finishNoParent" | .finishNotOne => "finishNotOne"))
    | .ok t => .ok (t, σ, raw)

mutual
  partial def showTree : Tree → String
    | .tok k t => s!"{k}:{u8len t}"
    | .node k cs => s!"({k}" ++ showTrees cs ++ ")"
  partial def showTrees : List Tree → String
    | [] => ""
    | c :: cs => " " ++ showTree c ++ showTrees cs
end

def kindName (k : Nat) : String := (kindNames[k]?).getD s!"?{k}"

/-- byte ranges of the non-trivia tokens -/
def tokRanges (raw : List RawTok) : List (Nat × Nat) :=
  let rec go : List RawTok → Nat → List (Nat × Nat)
    | [], _ => []
    | (k, t) :: r, off =>
      let e := off + u8len t
      if parserTrivia k then go r e else (off, e) :: go r e
  go raw 0

def showErr (ranges : List (Nat × Nat)) (total : Nat) (e : Nat × Nat × Nat) : String :=
  let name := (errorNames[e.1]?).getD "?"
  let name := if name == "ExpectToken" then name ++ "(" ++ kindName e.2.1 ++ ")" else name
  let (a, b) := (ranges[e.2.2]?).getD (total, total)
  s!"{name}@{a}-{b}"

/-- the constants of `Check.bound glasProg` (computed once per process): `bound glasProg len = fuelConsts.1 + len * fuelConsts.2` -/
def fuelConsts : Nat × Nat :=
  let Γ := Glas.Check.infer glasProg
  (2 + Glas.Check.bodyBound glasProg + Glas.Check.rankBound Γ * Glas.Check.bodyBound glasProg, Glas.Check.tokCost Γ glasProg)

/-- the fuel the driver runs the model with: `bound glasProg` of the number of characters - at least the bound for the
number of tokens (a token has at least one character), from which on the outcome no longer depends on the fuel
(`C02_result_stable`) -/
def modelFuel (s : List Char) : Nat := fuelConsts.1 + s.length * fuelConsts.2

def parseCmd (s : List Char) : String :=
  match parseModel (modelFuel s) s with
  | .error e => e
  | .ok (t, σ, raw) =>
    let rs := tokRanges raw
    let total := u8len s
    "ok " ++ showTree t ++ " |" ++ String.join (σ.errs.map (fun e => " " ++ showErr rs total e))

def lexCmd (s : List Char) : String :=
  " ".intercalate ((lexText s).map (fun t => s!"{t.1}:{u8len t.2}"))

/-- `parsestat`: outcome class, look-ahead high-water mark is not tracked; reports max call depth -/
def parseStat (s : List Char) : String :=
  match parseModel (modelFuel s) s with
  | .error e => e
  | .ok (_, σ, _) => s!"ok depth={σ.maxDepth} errs={σ.errs.length}"

/-- `items`: the module loop item by item (`Items.parseItems`, every item parsed from a fresh state): byte range of
each item from its first to its last token -/
def itemsCmd (s : List Char) : String :=
  let raw := lexText s
  let toks := (raw.filter (fun t => !parserTrivia t.1)).map (fun t => t.1)
  let rs := tokRanges raw
  match Glas.Items.parseItems glasProg I_statement (modelFuel s) toks (toks.length + 1) with
  | none => "none"
  | some items =>
    "items" ++ String.join (items.map (fun o =>
      let a := ((rs[o.start]?).getD (0, 0)).1
      let b := ((rs[o.stop - 1]?).getD (0, 0)).2
      s!" {a}-{b}"))

def triviaKinds : String :=
  " ".intercalate (((List.range 200).filter parserTrivia).map toString)

def run (args : List String) : Option String :=
  match args with
  | ["items", h] => (unhex h).map itemsCmd
  | ["trivia-kinds"] => some triviaKinds
  | ["la-peak"] => some s!"{Glas.LaCheck.laCheck glasProg} {(Glas.LaCheck.peak glasProg).getD 0} {glasProg.fuel}"
  | ["lex", h] => (unhex h).map lexCmd
  | ["parse", h] => (unhex h).map parseCmd
  | ["parsestat", h] => (unhex h).map parseStat
  | _ => none

end Glas.SyntaxCmd
