import Glas.Model.Scope
import Glas.Model.ScopeSpec
import Glas.Model.Proto
/-! Driver command `scope`: parse a function body term (S-expression) and answer, for every
variable occurrence, what `resolve_name` finds and which names `values_names_in_scope` offers. -/
namespace Glas.ScopeCmd
open Glas.Scope Glas.Proto

inductive SX where
  | atom (s : String)
  | list (xs : List SX)
deriving Inhabited

def tokenize (s : String) : List String :=
  let step (acc : List String × String) (c : Char) : List String × String :=
    let (toks, cur) := acc
    let flush := if cur.isEmpty then toks else cur :: toks
    if c == '(' then ("(" :: flush, "")
    else if c == ')' then (")" :: flush, "")
    else if c == ' ' then (flush, "")
    else (toks, cur.push c)
  let (toks, cur) := s.toList.foldl step ([], "")
  (if cur.isEmpty then toks else cur :: toks).reverse

partial def parseSX : List String → Option (SX × List String)
  | "(" :: rest =>
    let rec go (acc : List SX) (ts : List String) : Option (SX × List String) :=
      match ts with
      | ")" :: r => some (.list acc.reverse, r)
      | [] => none
      | _ => match parseSX ts with
        | some (x, r) => go (x :: acc) r
        | none => none
    go [] rest
  | ")" :: _ => none
  | t :: rest => some (.atom t, rest)
  | [] => none

mutual
  partial def toPat : SX → Option Pat
    | .list [.atom "pvar", .atom id, .atom name] => id.toNat?.map (fun i => Pat.var i name)
    | .list [.atom "pwild"] => some .wild
    | .list (.atom "pnode" :: ps) => (toPats ps).map Pat.node
    | _ => none
  partial def toPats : List SX → Option Pats
    | [] => some .nil
    | p :: ps => match toPat p, toPats ps with
      | some a, some b => some (.cons a b)
      | _, _ => none
end

mutual
  partial def toExpr : SX → Option Expr
    | .list [.atom "var", .atom occ, .atom name] => occ.toNat?.map (fun o => Expr.var o name)
    | .list [.atom "hole", .atom id] => id.toNat?.map Expr.hole
    | .list [.atom "leaf"] => some .leaf
    | .list (.atom "block" :: ss) => (toStmts ss).map Expr.block
    | .list (.atom "call" :: f :: args) => match toExpr f, toExprs args with
      | some f, some a => some (.call f a)
      | _, _ => none
    | .list (.atom "node" :: es) => (toExprs es).map Expr.node
    | .list (.atom "case" :: .list (.atom "subj" :: ss) :: cs) => match toExprs ss, toClauses cs with
      | some s, some c => some (.case_ s c)
      | _, _ => none
    | .list [.atom "lam", .list (.atom "params" :: ps), b] => match toPats ps, toExpr b with
      | some p, some b => some (.lam p b)
      | _, _ => none
    | _ => none
  partial def toExprs : List SX → Option Exprs
    | [] => some .nil
    | e :: es => match toExpr e, toExprs es with
      | some a, some b => some (.cons a b)
      | _, _ => none
  partial def toStmt : SX → Option Stmt
    | .list [.atom "let", p, e] => match toPat p, toExpr e with
      | some p, some e => some (.let_ p e)
      | _, _ => none
    | .list [.atom "use", .list (.atom "pats" :: ps), e] => match toPats ps, toExpr e with
      | some p, some e => some (.use_ p e)
      | _, _ => none
    | .list [.atom "expr", e] => (toExpr e).map Stmt.expr
    | _ => none
  partial def toStmts : List SX → Option Stmts
    | [] => some .nil
    | s :: ss => match toStmt s, toStmts ss with
      | some a, some b => some (.cons a b)
      | _, _ => none
  partial def toClauses : List SX → Option Clauses
    | [] => some .nil
    | .list [.atom "clause", .list (.atom "pats" :: ps), b] :: cs =>
      match toPats ps, toExpr b, toClauses cs with
      | some p, some b, some c => some (.cons (.mk p b) c)
      | _, _, _ => none
    | _ => none
end

def toFunction : SX → Option Function
  | .list [.atom "fn", .list (.atom "params" :: ps), b] => match toPats ps, toExpr b with
    | some p, some b => some { params := p, body := b }
    | _, _ => none
  | _ => none

def showDef : Def → String
  | .local_ p => s!"L{p}"
  | .modVal i => s!"M{i}"
  | .builtin => "B"

def parseDecls (s : String) : Option (List (Name × ValEntry)) :=
  if s = "-" then some [] else
  (s.splitOn ",").mapM (fun p => match p.splitOn ":" with
    | [n, "T"] => some (n, none)
    | [n, i] => i.toNat?.map (fun i => (n, some i))
    | _ => none)

/-- `scope <decls> <sexpr>` → per occurrence `occ=<def>[name=def,…]` -/
def scopeCmd (decls : List (Name × ValEntry)) (f : Function) : String :=
  let S := buildScopes f
  let values := buildValues decls
  let outs := (occNames f.body).map (fun on =>
    let sc := lookupAssoc S.byOcc on.1
    let r := match resolveName S values [] sc on.2 with
      | some d => showDef d
      | none => "-"
    let names := (namesInScope S values sc).map (fun p => p.1 ++ "=" ++ showDef p.2)
    s!"{on.1}={r}[" ++ ",".intercalate names ++ "]")
  if outs.isEmpty then "-" else " ".intercalate outs

def run (args : List String) : Option String :=
  match args with
  | ["scope", decls, sx] =>
    match parseDecls decls, parseSX (tokenize sx) with
    | some ds, some (x, []) => (toFunction x).map (scopeCmd ds)
    | _, _ => none
  | _ => none

end Glas.ScopeCmd
