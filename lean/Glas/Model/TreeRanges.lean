import Glas.Model.Tree
/-! Byte ranges of the nodes and tokens of a tree (for C20). -/
namespace Glas.Tree

def u8len (cs : List Char) : Nat := (cs.map (fun c => c.utf8Size)).sum

mutual
  def Tree.len : Tree → Nat
    | .tok _ t => u8len t
    | .node _ cs => lenList cs
  def lenList : List Tree → Nat
    | [] => 0
    | c :: cs => c.len + lenList cs
end

mutual
  /-- ranges `(start, stop)` of every node and token of `t` placed at byte offset `off`, pre-order -/
  def Tree.ranges : Tree → Nat → List (Nat × Nat)
    | .tok _ t, off => [(off, off + u8len t)]
    | .node _ cs, off => (off, off + lenList cs) :: rangesList cs off
  def rangesList : List Tree → Nat → List (Nat × Nat)
    | [], _ => []
    | c :: cs, off => c.ranges off ++ rangesList cs (off + c.len)
end

/-- byte offsets that are character boundaries of a text -/
def charBoundaries : List Char → Nat → List Nat
  | [], off => [off]
  | c :: cs, off => off :: charBoundaries cs (off + c.utf8Size)

end Glas.Tree
