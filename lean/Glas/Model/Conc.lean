import Glas.Model.ChoreoSpec
/-!
# M-conc: readers on snapshots, one writer, cancellation (C12) and the lock choreography of the
server's main loop against request tasks (C16)

salsa is trusted and modelled by its contract: a snapshot reads the inputs of the revision it was
taken at; a pending write (`synthetic_write`) makes every running query of an older snapshot unwind
with `Cancelled` at its next step; the write itself waits until every snapshot has been dropped.
-/
namespace Glas.Conc
open Glas.ChoreoSpec

inductive Status where
  /-- still computing; `left` more steps needed -/
  | running (left : Nat)
  /-- answered from the inputs of revision `rev` -/
  | done (rev : Nat)
  | cancelled
  /-- `Cancelled` escaped as a panic (no `Cancelled::catch`) -/
  | crashed
deriving Repr, DecidableEq, Inhabited

structure Reader where
  snapRev : Nat
  status : Status
deriving Repr, DecidableEq, Inhabited

structure Sys where
  flags : HostFlags
  rev : Nat
  cancelPending : Bool
  readers : List Reader
deriving Repr, DecidableEq, Inhabited

def isRunning (r : Reader) : Bool := match r.status with | .running _ => true | _ => false

inductive Act where
  | snapshot (work : Nat)
  | queryStep (i : Nat)
  | requestCancel
  | applyWrite
deriving Repr, DecidableEq, Inhabited

def stepReader (fl : HostFlags) (cancel : Bool) (r : Reader) : Reader :=
  match r.status with
  | .running left =>
    if cancel then { r with status := if fl.catchCancelled then .cancelled else .crashed }
    else match left with
      | 0 => { r with status := .done r.snapRev }
      | k + 1 => { r with status := .running k }
  | _ => r

def modifyNth {α} (f : α → α) : List α → Nat → List α
  | [], _ => []
  | x :: xs, 0 => f x :: xs
  | x :: xs, n + 1 => x :: modifyNth f xs n

/-- `none` = the action is not enabled (the writer blocks while a snapshot is alive) -/
def step (s : Sys) : Act → Option Sys
  | .snapshot work => some { s with readers := s.readers ++ [{ snapRev := s.rev, status := .running work }] }
  | .queryStep i =>
    match s.readers[i]? with
    | some r => if isRunning r then some { s with readers := modifyNth (stepReader s.flags s.cancelPending) s.readers i } else none
    | none => none
  | .requestCancel => some { s with cancelPending := s.flags.cancelIsSyntheticWrite }
  | .applyWrite =>
    if s.readers.any isRunning then none
    else some { s with rev := s.rev + 1, cancelPending := false }

/-- every running reader takes one step -/
def drain (s : Sys) : Sys := { s with readers := s.readers.map (stepReader s.flags s.cancelPending) }

/-- `AnalysisHost::apply_change` up to the point where the write can proceed -/
def beginApply (s : Sys) : Sys :=
  if s.flags.cancelBeforeApply then { s with cancelPending := s.flags.cancelIsSyntheticWrite } else s

def run (s : Sys) : List Act → Option Sys
  | [] => some s
  | a :: as => match step s a with
    | some s' => run s' as
    | none => none

/-! ## lock choreography (C16) -/

/-- flatten calls between the server's methods (fuel bounds the call depth) -/
def inline (methods : List (String × List Op)) : Nat → List Op → List Op
  | 0, ops => ops.filter (fun o => match o with | .call _ => false | _ => true)
  | fuel + 1, ops =>
    ops.flatMap (fun o => match o with
      | .call m => inline methods fuel ((methods.lookup m).getD [])
      | o => [o])

/-- the discipline: the loop thread never asks for the database write (which waits for request
tasks to drop their snapshots) while it holds the document-store lock, releases what it acquires,
and never takes a snapshot while holding the write guard -/
def disciplined : List Op → Bool → Bool
  | [], held => !held
  | .acqVfsW :: r, held => !held && disciplined r true
  | .acqVfsR :: r, held => !held && disciplined r true
  | .relVfs :: r, held => held && disciplined r false
  | .dbWrite :: r, held => !held && disciplined r held
  | .snap :: r, held => disciplined r held
  | .spawn :: r, held => disciplined r held
  | .call _ :: r, held => disciplined r held

/-- the second discipline of the loop thread: the document store is only written when no request
task can be alive, i.e. after a database write / cancellation (which waits for every snapshot) and
before the next spawn.  `q`: no task can be alive here; `held`: the guard is held. -/
def storeQuiet : List Op → Bool → Bool → Bool
  | [], _, _ => true
  | .dbWrite :: r, _, h => storeQuiet r true h
  | .spawn :: r, _, h => !h && storeQuiet r false h
  | .acqVfsW :: r, q, _ => q && storeQuiet r q true
  | .acqVfsR :: r, q, _ => q && storeQuiet r q true
  | .relVfs :: r, q, _ => storeQuiet r q false
  | .snap :: r, q, h => storeQuiet r q h
  | .call _ :: r, q, h => storeQuiet r q h

/-- a request task: holds an analysis snapshot from its creation until it ends; `held` counts the
read guards of the document store it currently holds -/
structure Task where
  prog : List TOp
  held : Nat
deriving Repr, DecidableEq, Inhabited

/-- discipline of a handler: never asks for a second read guard while holding one (a recursive
read deadlocks against a waiting writer), releases only what it holds, ends holding nothing -/
def taskDisciplined : List TOp → Nat → Bool
  | [], held => held == 0
  | .acqR :: r, held => held == 0 && taskDisciplined r 1
  | .relR :: r, held => held == 1 && taskDisciplined r 0
  | .query _ :: r, held => taskDisciplined r held

structure LockSys where
  mainOps : List Op
  mainHoldsVfs : Bool
  /-- the loop thread is parked in `vfs.write()`: std's RwLock then refuses new readers -/
  writerWaiting : Bool
  cancel : Bool
  tasks : List Task
  /-- the handlers a spawned task may run -/
  handlers : List (List TOp)
deriving Repr, DecidableEq, Inhabited

def taskAlive (t : Task) : Bool := !t.prog.isEmpty

inductive LAct where
  /-- the loop thread; `choice` selects the handler when the step is a spawn -/
  | main (choice : Nat)
  | task (i : Nat)
  /-- the task ends early (an `?` on an error, or a panic caught by the service layer): unwinding
  drops its guards and its snapshot.  Used to accept observed traces, never counted as progress. -/
  | exit (i : Nat)
deriving Repr, DecidableEq, Inhabited

def stepTask (mainHoldsVfs writerWaiting cancel : Bool) (t : Task) : Option Task :=
  match t.prog with
  | [] => none
  | .acqR :: r => if mainHoldsVfs || writerWaiting then none else some { prog := r, held := t.held + 1 }
  | .relR :: r => some { prog := r, held := t.held - 1 }
  | .query work :: r =>
    -- salsa checks the cancellation flag at every step; `Cancelled` unwinds the whole task
    if cancel then some { prog := [], held := 0 }
    else match work with
      | 0 => some { prog := r, held := t.held }
      | k + 1 => some { prog := .query k :: r, held := t.held }

def readersHeld (ts : List Task) : Bool := ts.any (fun t => t.held != 0)

def lstep (s : LockSys) : LAct → Option LockSys
  | .main choice =>
    match s.mainOps with
    | [] => none
    | .acqVfsW :: r | .acqVfsR :: r =>
      if readersHeld s.tasks then
        -- park; this is a step only the first time
        if s.writerWaiting then none else some { s with writerWaiting := true }
      else some { s with mainOps := r, mainHoldsVfs := true, writerWaiting := false }
    | .relVfs :: r => some { s with mainOps := r, mainHoldsVfs := false }
    | .dbWrite :: r =>
      -- apply_change: request cancellation, then wait until every snapshot is dropped
      if s.tasks.any taskAlive then
        if s.cancel then none else some { s with cancel := true }
      else some { s with mainOps := r, cancel := false }
    | .snap :: r => some { s with mainOps := r }
    | .spawn :: r => some { s with mainOps := r, tasks := s.tasks ++ [{ prog := (s.handlers[choice]?).getD [], held := 0 }] }
    | .call _ :: r => some { s with mainOps := r }
  | .task i =>
    match s.tasks[i]? with
    | none => none
    | some t =>
      match stepTask s.mainHoldsVfs s.writerWaiting s.cancel t with
      | none => none
      | some t' => some { s with tasks := modifyNth (fun _ => t') s.tasks i }
  | .exit i =>
    match s.tasks[i]? with
    | none => none
    | some t => if taskAlive t then some { s with tasks := modifyNth (fun _ => { prog := [], held := 0 }) s.tasks i } else none

def isProgress : LAct → Bool
  | .exit _ => false
  | _ => true

def finished (s : LockSys) : Bool := s.mainOps.isEmpty && !s.tasks.any taskAlive

def lrun (s : LockSys) : List LAct → Option LockSys
  | [] => some s
  | a :: as => match lstep s a with
    | some s' => lrun s' as
    | none => none

def initLock (ops : List Op) (handlers : List (List TOp)) (tasks : List Task) : LockSys :=
  { mainOps := ops, mainHoldsVfs := false, writerWaiting := false, cancel := false, tasks := tasks, handlers := handlers }

end Glas.Conc
