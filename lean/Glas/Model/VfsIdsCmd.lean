import Glas.Model.VfsIds
/-! Driver command `vfsids <script>`: the script language of the harness command of the same name. -/
namespace Glas.VfsIdsCmd
open Glas.VfsIds

def runOps (s : St) (k : Nat) (out : List String) : List String → Option (St × List String)
  | [] => some (s, out.reverse)
  | op :: ops =>
    match op.toList with
    | 's' :: r =>
      match (String.ofList r).toNat? with
      | some p => let (s', i) := setPath s p k; runOps s' (k + 1) (toString i :: out) ops
      | none => none
    | 'r' :: r =>
      match (String.ofList r).toNat? with
      | some p => let (s', b) := removePath s p; runOps s' (k + 1) ((if b then "ok" else "no") :: out) ops
      | none => none
    | _ => none

def run (args : List String) : Option String :=
  match args with
  | ["vfsids", script] =>
    match runOps init 0 [] ((script.splitOn ",").filter (· != "")) with
    | none => some "bad-op"
    | some (s, out) =>
      let table := (List.range 16).filterMap (fun p =>
        match lookup s p with
        | some (i, c) => some s!"{p}:{i}:c{c}"
        | none => none)
      some (",".intercalate out ++ " # " ++ ",".intercalate table)
  | _ => none

end Glas.VfsIdsCmd
