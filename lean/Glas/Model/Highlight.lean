/-!
# M-highlight: which identifier gets which semantic tag

`ide::semantic_highlighting::highlight` decides per token: the token's parent node, and — for a name
reference — what `classify_node` resolves it to.  The table (`Gen/Highlight.lean`) is regenerated from
the source on every run.
-/
namespace Glas.Highlight

/-- the parent node of the token -/
inductive Parent where
  /-- `ast::NameRef`: an identifier that refers to something -/
  | nameRef
  /-- `ast::Name` whose parent is an `ast::Variant`: a constructor's name in its declaration -/
  | variantName
  /-- any other `ast::Name` (a function's, parameter's, type's … own name) -/
  | otherName
  | other
deriving DecidableEq, Repr, Inhabited

structure Ctx where
  parent : Parent
  /-- the `Definition` variant a name reference resolves to (`none`: unresolved) -/
  defKind : Option String
  /-- for `Definition::Local`: its inferred type is a function -/
  localIsFn : Bool
deriving DecidableEq, Repr, Inhabited

def lookupRule (k : String) : List (String × String) → Option String
  | [] => none
  | (v, t) :: r => if v = k then some t else lookupRule k r

/-- `token_tag` -/
def tagOf (nameRef : List (String × String)) (localFn variantName : Option String) (c : Ctx) : Option String :=
  match c.parent with
  | .nameRef =>
    match c.defKind with
    | none => none
    | some k =>
      match lookupRule k nameRef with
      | some t => some t
      | none => if k = "Local" && c.localIsFn then localFn else none
  | .variantName => variantName
  | _ => none

end Glas.Highlight
