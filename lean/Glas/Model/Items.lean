import Glas.Model.Dsl
/-!
# M-syntax, part 5: top-level items one at a time (for C03)

`runItem` runs one iteration of the module loop (`statement(p)`) from a *fresh* state positioned at
token `pos`; `parseSeg` / `parseItems` iterate it.  C03's locality theorems are about `runItem` and
`parseSeg`.  (That `runMain` is this iteration - an item's parse does not depend on the events, errors and
identities accumulated before it - is not proved; the driver command `items` compares the two on every run.)
-/
namespace Glas.Items
open Glas.Dsl

structure ItemOut where
  start : Nat
  stop : Nat
  events : List Ev
  errs : List (Nat × Nat × Nat)
deriving Repr, Inhabited

inductive ItemRes where
  | ok (o : ItemOut)
  | panic (w : Why)
  | oof
deriving Repr, Inhabited

/-- one `statement` from token `pos`, in a fresh state -/
def runItem (P : Prog) (stmtProc : Nat) (n : Nat) (toks : List Kind) (pos : Nat) : ItemRes :=
  let σ0 : St := { initSt toks with pos := pos }
  match exec P n (.call stmtProc [] [] .none) σ0 { locals := [], marks := [] } with
  | .norm σ _ => .ok { start := pos, stop := σ.pos, events := σ.events, errs := σ.errs }
  | .panic w _ => .panic w
  | .oof => .oof
  | _ => .panic .badProg

/-- shift the token positions recorded in an item's result by `d` (events carry no positions) -/
def ItemOut.shift (o : ItemOut) (d : Nat) : ItemOut :=
  { o with start := o.start + d, stop := o.stop + d, errs := o.errs.map (fun e => (e.1, e.2.1, e.2.2 + d)) }

def ItemRes.shift : ItemRes → Nat → ItemRes
  | .ok o, d => .ok (o.shift d)
  | r, _ => r

/-- forget the model-only identities of events -/
def evKinds (evs : List Ev) : List (Option Kind) :=
  evs.map (fun e => match e with
    | .open k _ _ => some k
    | .close => some 0
    | .adv => none)

/-- largest look-ahead distance `nth k` used anywhere in an expression / statement -/
def exprMaxNth : Expr → Nat
  | .nth k => k
  | .inSet _ e => exprMaxNth e
  | .eq a b | .lt a b | .and a b | .or a b => max (exprMaxNth a) (exprMaxNth b)
  | .not a => exprMaxNth a
  | .tbl _ e => exprMaxNth e
  | _ => 0

def retMaxNth : Ret → Nat
  | .nat e => exprMaxNth e
  | _ => 0

def stmtMaxNth : Stmt → Nat
  | .assert c => exprMaxNth c
  | .set _ e => exprMaxNth e
  | .seq a b => max (stmtMaxNth a) (stmtMaxNth b)
  | .ite c t e => max (exprMaxNth c) (max (stmtMaxNth t) (stmtMaxNth e))
  | .loop b => stmtMaxNth b
  | .ret r => retMaxNth r
  | .call _ args _ _ => args.foldl (fun m e => max m (exprMaxNth e)) 0
  | _ => 0

/-- the module loop, item by item, from token `pos` until it stands exactly at token `b` (`none`: an item panics,
runs out of fuel, or the loop steps over `b`); `k` bounds the number of items -/
def parseSeg (P : Prog) (stmtProc n : Nat) (toks : List Kind) : Nat → Nat → Nat → Option (List ItemOut)
  | 0, _, _ => none
  | k + 1, pos, b =>
    if pos = b then some []
    else if b < pos then none
    else
      match runItem P stmtProc n toks pos with
      | .ok o => (parseSeg P stmtProc n toks k o.stop b).map (fun r => o :: r)
      | _ => none

/-- the whole module: from token 0 to the end of input (the loop `while !eof { statement }`) -/
def parseItems (P : Prog) (stmtProc n : Nat) (toks : List Kind) (k : Nat) : Option (List ItemOut) :=
  parseSeg P stmtProc n toks k 0 toks.length

def progMaxNth (P : Prog) : Nat := P.procs.foldl (fun m p => max m (stmtMaxNth p.body)) 0

end Glas.Items
