import Glas.Model.Text
/-!
# M-server: message-level model of the document handling of `glas/src/server.rs`

`on_did_open`, `on_did_change` (the per-change loop with its error path), `on_did_close` and the
position conversion every positional request starts with.  The document store maps a file URI to
the normalised text; a document that is not in the store makes notifications no-ops and requests
errors.  `crash` is the end of the process: a panic on the main loop (notification handlers run
unguarded); requests run under `catch_unwind`, a panic there is an error response.
-/
namespace Glas.Server
open Glas.Text

inductive Uri where
  /-- a `file:` URI, by identity -/
  | file (id : Nat)
  /-- `untitled:` and other non-file URIs -/
  | other (id : Nat)
deriving Repr, DecidableEq, Inhabited

structure Change where
  range : Option (Nat × Nat × Nat × Nat)
  text : List Char
deriving Repr, DecidableEq, Inhabited

inductive Msg where
  | didOpen (uri : Uri) (text : List Char)
  | didChange (uri : Uri) (changes : List Change)
  | didClose (uri : Uri)
  /-- any positional request (hover, definition, …) -/
  | request (id : Nat) (uri : Uri) (line col : Nat)
deriving Repr, DecidableEq, Inhabited

inductive Out where
  | none
  | response (id : Nat) (ok : Bool)
  | crash
deriving Repr, DecidableEq, Inhabited

/-- the document store: `(file id, normalised text)`, at most one entry per id -/
abbrev Docs := List (Nat × List Char)

def lookup : Docs → Nat → Option (List Char)
  | [], _ => none
  | (k, t) :: r, u => if k = u then some t else lookup r u

def remove : Docs → Nat → Docs
  | [], _ => []
  | (k, t) :: r, u => if k = u then remove r u else (k, t) :: remove r u

def set (d : Docs) (u : Nat) (t : List Char) : Docs := (u, t) :: remove d u

/-- `MAX_FILE_LEN` -/
def maxFileLen : Nat := 134217728

/-- the per-change loop of `on_did_change`: the first change that cannot be applied forgets the
document and ends the loop; `none` = a panic on the main loop -/
def applyChanges : List Char → List Change → Option (Option (List Char))
  | t, [] => some (some t)
  | t, c :: cs =>
    match applyChange t c.range c.text with
    | .ok t' => applyChanges t' cs
    | .err => some none
    | .panic => none

def step (d : Docs) : Msg → Docs × Out
  | .didOpen (.file u) text =>
    if u8sum text > maxFileLen then (d, .none) else (set d u (stripCR text), .none)
  | .didOpen (.other _) _ => (d, .none)
  | .didChange (.file u) changes =>
    match lookup d u with
    | none => (d, .none)
    | some t =>
      match applyChanges t changes with
      | some (some t') => (set d u t', .none)
      | some none => (remove d u, .none)
      | none => (d, .crash)
  | .didChange (.other _) _ => (d, .none)
  | .didClose _ => (d, .none)
  | .request id (.file u) line col =>
    match lookup d u with
    | none => (d, .response id false)
    | some t =>
      match (lineMap t).fromPos line col with
      | .ok _ => (d, .response id true)
      | _ => (d, .response id false)
  | .request id (.other _) _ _ => (d, .response id false)

/-- run a message sequence; stops at a crash -/
def run : Docs → List Msg → Docs × List Out
  | d, [] => (d, [])
  | d, m :: ms =>
    match step d m with
    | (_, .crash) => (d, [.crash])
    | (d', o) => let (d'', os) := run d' ms; (d'', o :: os)

/-! ## the session layer: which documents the editor holds open, and the files on disk

`on_did_open` records the document in `opened_files`, `on_did_close` removes it (the text stays in the
store: "the client ends its maintenance of the file, it does not delete it"); an edit that cannot be applied
removes the document from the store AND from `opened_files`.
`on_did_change_watched_files` handles one `FileEvent` at a time: events about documents the editor holds
open and about non-file URIs are skipped; CREATED / CHANGED re-reads the file (a file that is gone by then
counts as DELETED, anything that is not a readable regular file is ignored); DELETED removes the document
from the store.  The state of the file on disk at that moment is a parameter of the event.  `loaded` is
the side effect of the first contact with a package: its files are read into the store without being
opened. -/

structure Sess where
  docs : Docs
  /-- `opened_files` (file URIs; a non-file document is never recorded).  The table is keyed by the URL *string*, the
  document store by the decoded path: `(path, spelling)` - two spellings of one file's URI (`a.gleam`, `%61.gleam`) are two
  keys here and one document there -/
  opened : List (Nat × Nat)
deriving Repr, DecidableEq, Inhabited

inductive Disk where
  | absent
  | regular (text : List Char)
  /-- a directory, a FIFO, no permission, not UTF-8 … -/
  | unreadable
deriving Repr, DecidableEq, Inhabited

inductive Ev where
  /-- a message whose document URI is written in spelling `sp` -/
  | msg (sp : Nat) (m : Msg)
  /-- one `FileEvent` (URI in spelling `sp`): `deleted` = its type is DELETED (else CREATED or CHANGED) -/
  | watched (sp : Nat) (uri : Uri) (deleted : Bool) (disk : Disk)
  | loaded (u : Nat) (text : List Char)
deriving Repr, DecidableEq, Inhabited

def sstep (s : Sess) : Ev → Sess × Out
  | .msg sp m =>
    let r := step s.docs m
    let opened := match m with
      | .didOpen (.file u) text => if u8sum text > maxFileLen then s.opened else (u, sp) :: s.opened.filter (fun x => x != (u, sp))
      | .didClose (.file u) => s.opened.filter (fun x => x != (u, sp))
      | .didChange (.file u) changes =>
        -- "Clear file states to minimize pollution of the broken state": a document forgotten after an edit that
        -- cannot be applied is no longer recorded as open either
        match lookup s.docs u with
        | some t => if applyChanges t changes = some none then s.opened.filter (fun x => x != (u, sp)) else s.opened
        | none => s.opened
      | _ => s.opened
    ({ docs := r.1, opened := opened }, r.2)
  | .watched sp (.file u) deleted disk =>
    if s.opened.contains (u, sp) then (s, .none)
    else if deleted then ({ s with docs := remove s.docs u }, .none)
    else
      match disk with
      | .regular text => ({ s with docs := set s.docs u (stripCR text) }, .none)
      | .absent => ({ s with docs := remove s.docs u }, .none)
      | .unreadable => (s, .none)
  | .watched _ (.other _) _ _ => (s, .none)
  | .loaded u text => ({ s with docs := set s.docs u (stripCR text) }, .none)

/-- run a session; stops at a crash -/
def srun : Sess → List Ev → Sess × List Out
  | s, [] => (s, [])
  | s, e :: es =>
    match sstep s e with
    | (_, .crash) => (s, [.crash])
    | (s', o) => let (s'', os) := srun s' es; (s'', o :: os)

end Glas.Server
