import Glas.Model.Text
/-!
# M-server: message-level model of the document handling of `glas/src/server.rs`

`on_did_open`, `on_did_change` (the per-change loop with its error path), `on_did_close` and the
position conversion every positional request starts with.  The document store maps a file URI to
the normalised text; a document that is not in the store makes notifications no-ops and requests
errors.  `crash` is the end of the process: a panic on the main loop (notification handlers run
unguarded); requests run under `catch_unwind`, a panic there is an error response.
-/
namespace Glas.Server
open Glas.Text

inductive Uri where
  /-- a `file:` URI, by identity -/
  | file (id : Nat)
  /-- `untitled:` and other non-file URIs -/
  | other (id : Nat)
deriving Repr, DecidableEq, Inhabited

structure Change where
  range : Option (Nat × Nat × Nat × Nat)
  text : List Char
deriving Repr, DecidableEq, Inhabited

inductive Msg where
  | didOpen (uri : Uri) (text : List Char)
  | didChange (uri : Uri) (changes : List Change)
  | didClose (uri : Uri)
  /-- any positional request (hover, definition, …) -/
  | request (id : Nat) (uri : Uri) (line col : Nat)
deriving Repr, DecidableEq, Inhabited

inductive Out where
  | none
  | response (id : Nat) (ok : Bool)
  | crash
deriving Repr, DecidableEq, Inhabited

/-- the document store: `(file id, normalised text)`, at most one entry per id -/
abbrev Docs := List (Nat × List Char)

def lookup : Docs → Nat → Option (List Char)
  | [], _ => none
  | (k, t) :: r, u => if k = u then some t else lookup r u

def remove : Docs → Nat → Docs
  | [], _ => []
  | (k, t) :: r, u => if k = u then remove r u else (k, t) :: remove r u

def set (d : Docs) (u : Nat) (t : List Char) : Docs := (u, t) :: remove d u

/-- `MAX_FILE_LEN` -/
def maxFileLen : Nat := 134217728

/-- the per-change loop of `on_did_change`: the first change that cannot be applied forgets the
document and ends the loop; `none` = a panic on the main loop -/
def applyChanges : List Char → List Change → Option (Option (List Char))
  | t, [] => some (some t)
  | t, c :: cs =>
    match applyChange t c.range c.text with
    | .ok t' => applyChanges t' cs
    | .err => some none
    | .panic => none

def step (d : Docs) : Msg → Docs × Out
  | .didOpen (.file u) text =>
    if u8sum text > maxFileLen then (d, .none) else (set d u (stripCR text), .none)
  | .didOpen (.other _) _ => (d, .none)
  | .didChange (.file u) changes =>
    match lookup d u with
    | none => (d, .none)
    | some t =>
      match applyChanges t changes with
      | some (some t') => (set d u t', .none)
      | some none => (remove d u, .none)
      | none => (d, .crash)
  | .didChange (.other _) _ => (d, .none)
  | .didClose _ => (d, .none)
  | .request id (.file u) line col =>
    match lookup d u with
    | none => (d, .response id false)
    | some t =>
      match (lineMap t).fromPos line col with
      | .ok _ => (d, .response id true)
      | _ => (d, .response id false)
  | .request id (.other _) _ _ => (d, .response id false)

/-- run a message sequence; stops at a crash -/
def run : Docs → List Msg → Docs × List Out
  | d, [] => (d, [])
  | d, m :: ms =>
    match step d m with
    | (_, .crash) => (d, [.crash])
    | (d', o) => let (d'', os) := run d' ms; (d'', o :: os)

end Glas.Server
