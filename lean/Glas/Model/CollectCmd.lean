import Glas.Model.Collect
/-! Driver command `collect <script>`: the same script language as the hook `ide::verif_collect_script`. -/
namespace Glas.CollectCmd
open Glas.UF Glas.Collect

/-- `display::next_letter` -/
def letterName (uid : Nat) : String :=
  let rec go (fuel rest : Nat) (acc : List Char) : List Char :=
    match fuel with
    | 0 => acc
    | fuel + 1 =>
      let acc := Char.ofNat (rest % 26 + 97) :: acc
      if rest / 26 == 0 then acc else go fuel (rest / 26 - 1) acc
  String.ofList (go 8 uid [])

partial def showArgs (show1 : T → String) : T → List String
  | .acons h t => show1 h :: showArgs show1 t
  | _ => []

partial def showT : T → String
  | .unknown => "?"
  | .generic l => "'" ++ letterName l
  | .base 0 => "z" | .base 1 => "b" | .base 2 => "i" | .base 3 => "f" | .base 4 => "s" | .base _ => "y"
  | .result a b => s!"(r {showT a} {showT b})"
  | .list a => s!"(l {showT a})"
  | .tuple fs => s!"(t [{" ".intercalate (showArgs showT fs)}])"
  | .fn ps r => s!"(F [{" ".intercalate (showArgs showT ps)}] {showT r})"
  | .adt id ps => s!"(a{id} [{" ".intercalate (showArgs showT ps)}])"
  | .anil => "" | .acons _ _ => ""

def nums (s : String) : Option (List Nat) :=
  if s.isEmpty then some [] else (s.splitOn ",").mapM (·.toNat?)

def parseNode (rest : String) : Option N :=
  let (kind, args) := match rest.splitOn ":" with
    | [k] => (k, "")
    | [k, a] => (k, a)
    | _ => ("", "!")
  match nums args with
  | none => none
  | some args =>
    match kind.toList, args with
    | 'k' :: idx, [] => (String.ofList idx).toNat?.map N.unk
    | ['z'], [] => some (.base 0)
    | ['b'], [] => some (.base 1)
    | ['i'], [] => some (.base 2)
    | ['f'], [] => some (.base 3)
    | ['s'], [] => some (.base 4)
    | ['y'], [] => some (.base 5)
    | ['r'], [a, b] => some (.result a b)
    | ['l'], [a] => some (.list a)
    | ['t'], fs => some (.tuple fs)
    | ['F'], a :: as => some (.fn ((a :: as).dropLast) ((a :: as).getLast!))
    | 'a' :: id, ps => (String.ofList id).toNat?.map (fun id => N.adt id ps)
    | _, _ => none

inductive Op where
  | unify (a b : Nat)
  | coll (x : Nat)

def parse (ops : List String) (nodes : List N) (acc : List Op) : Option (List N × List Op) :=
  match ops with
  | [] => some (nodes.reverse, acc.reverse)
  | op :: rest =>
    match op.toList with
    | 'n' :: r =>
      match parseNode (String.ofList r) with
      | some n => parse rest (n :: nodes) acc
      | none => none
    | 'u' :: r =>
      match nums (String.ofList r) with
      | some [a, b] => parse rest nodes (.unify a b :: acc)
      | _ => none
    | 'c' :: r =>
      match nums (String.ofList r) with
      | some [x] => parse rest nodes (.coll x :: acc)
      | _ => none
    | _ => none

/-- the hook's `u`: union-find `unify`; the class keeps the left type unless that is an unknown -/
def applyUnify (t : Table N) (a b : Nat) : Table N :=
  let (t', r, rhs) := unify t a b
  match rhs, valOf t' r with
  | some v, some (.unk _) => setVal t' r (some v)
  | _, _ => t'

def run (args : List String) : Option String :=
  match args with
  | ["collect", script] =>
    match parse ((script.splitOn ";").filter (· != "")) [] [] with
    | none => some "bad-op"
    | some (nodes, ops) =>
      let len := nodes.length
      if nodes.any (fun n => n.children.any (· ≥ len)) ||
         ops.any (fun | .unify a b => a ≥ len || b ≥ len | .coll x => x ≥ len) then some "bad-op"
      else
        let t0 : Table N := nodes.foldl (fun t n => (push t n).1) []
        let t := ops.foldl (fun t op => match op with | .unify a b => applyUnify t a b | .coll _ => t) t0
        let xs := ops.filterMap (fun | .coll x => some x | _ => none)
        match collectAll t xs (initSt t) [] with
        | .ok ts _ => some (",".intercalate (ts.map showT))
        | .oof => some "OOF"
        | .bad => some "PANIC"
  | _ => none

end Glas.CollectCmd
