/-!
# M-diag: which diagnostics a document shows after the tasks have settled (C16)

Models the diagnostics path of `crates/glas/src/server.rs`: every change to the store starts one
calculation per open document (`spawn_update_all_diagnostics` → `spawn_update_diagnostics`), each
calculation works on a snapshot of the store, carries the document's generation number, may be
cancelled when its snapshot is no longer the current store, and hands its result to the main loop
(`CollectDiagnosticsEvent::Internal`), where `on_update_diagnostics` publishes it unless its
generation is not the document's latest.  Tasks finish and results are delivered in ANY order.
The four `Flags` say what the code does at the four places that matter; they are regenerated from
the source (Gen/Choreo.lean, `diagFlags`).
-/
namespace Glas.Diag

structure Flags where
  /-- `spawn_update_diagnostics` increments the document's generation and the result carries it -/
  genPerSpawn : Bool
  /-- `on_update_diagnostics` ignores a result whose generation is not the document's latest -/
  dropStale : Bool
  /-- a cancelled calculation hands nothing to the main loop (instead of an empty list) -/
  cancelledSilent : Bool
  /-- a change starts a calculation for EVERY open document, not only for the edited one -/
  respawnAll : Bool
deriving Repr, DecidableEq

def Flags.good : Flags := ⟨true, true, true, true⟩

/-- a running calculation -/
structure Task where
  doc : Nat
  gen : Nat
  /-- version of the store its snapshot was taken from -/
  snap : Nat
deriving Repr, DecidableEq

/-- a result waiting in the main loop's queue; `content = some v`: the diagnostics of store
version `v`; `none`: the empty list of a cancelled calculation (diagnostics of no version) -/
structure Msg where
  doc : Nat
  gen : Nat
  content : Option Nat
deriving Repr, DecidableEq

/-- what a document shows -/
inductive Shown where
  | nothing                 -- nothing published yet
  | ofVersion (v : Nat)     -- the diagnostics of store version `v`
  | wrong                   -- an empty list that belongs to no version
deriving Repr, DecidableEq

structure St where
  /-- number of open documents (fixed during a run) -/
  ndocs : Nat
  /-- version of the store: number of changes so far -/
  version : Nat
  /-- latest generation per document -/
  gens : List Nat
  running : List Task
  queue : List Msg
  shown : List Shown
deriving Repr, DecidableEq

def init (n : Nat) : St :=
  { ndocs := n, version := 0, gens := List.replicate n 0, running := [], queue := [], shown := List.replicate n .nothing }

inductive Ev where
  /-- a change to document `d` (didOpen / didChange / watched file): the store gets a new version -/
  | change (d : Nat)
  /-- the `i`-th running calculation finishes with the result of its snapshot -/
  | finishOk (i : Nat)
  /-- the `i`-th running calculation is cancelled (possible only when its snapshot is stale) -/
  | finishCancelled (i : Nat)
  /-- the main loop handles the `j`-th queued result -/
  | deliver (j : Nat)
deriving Repr, DecidableEq

def setAt {α} (l : List α) (i : Nat) (x : α) : List α := l.set i x

/-- start one calculation for document `d` on the current store -/
def spawn (fl : Flags) (s : St) (d : Nat) : St :=
  let g := s.gens.getD d 0
  let g' := if fl.genPerSpawn then g + 1 else g
  { s with gens := setAt s.gens d g', running := s.running ++ [{ doc := d, gen := g', snap := s.version }] }

def spawnAll (fl : Flags) (s : St) : List Nat → St
  | [] => s
  | d :: ds => spawnAll fl (spawn fl s d) ds

def step (fl : Flags) (s : St) : Ev → St
  | .change d =>
    let s1 := { s with version := s.version + 1 }
    if fl.respawnAll then spawnAll fl s1 (List.range s.ndocs)
    else if d < s.ndocs then spawn fl s1 d else s1
  | .finishOk i =>
    match s.running[i]? with
    | none => s
    | some t => { s with running := s.running.eraseIdx i, queue := s.queue ++ [{ doc := t.doc, gen := t.gen, content := some t.snap }] }
  | .finishCancelled i =>
    match s.running[i]? with
    | none => s
    | some t =>
      if t.snap < s.version then
        if fl.cancelledSilent then { s with running := s.running.eraseIdx i }
        else { s with running := s.running.eraseIdx i, queue := s.queue ++ [{ doc := t.doc, gen := t.gen, content := none }] }
      else s          -- a calculation on the current store is not cancelled
  | .deliver j =>
    match s.queue[j]? with
    | none => s
    | some m =>
      let s1 := { s with queue := s.queue.eraseIdx j }
      if fl.dropStale && m.gen != s.gens.getD m.doc 0 then s1
      else { s1 with shown := setAt s1.shown m.doc (match m.content with | some v => .ofVersion v | none => .wrong) }

def run (fl : Flags) (s : St) (evs : List Ev) : St := evs.foldl (step fl) s

/-- nothing is running and nothing waits to be handled -/
def Quiet (s : St) : Prop := s.running = [] ∧ s.queue = []

instance (s : St) : Decidable (Quiet s) := by unfold Quiet; infer_instance

end Glas.Diag
