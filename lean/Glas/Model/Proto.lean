/-! Line-protocol helpers shared by the driver commands (hex text, number parsing). -/
namespace Glas.Proto

def hexVal (c : Char) : Option Nat :=
  if '0' ≤ c ∧ c ≤ '9' then some (c.toNat - '0'.toNat)
  else if 'a' ≤ c ∧ c ≤ 'f' then some (c.toNat - 'a'.toNat + 10)
  else none

def hexBytes : List Char → Option (List UInt8)
  | [] => some []
  | [_] => none
  | a :: b :: rest =>
    match hexVal a, hexVal b, hexBytes rest with
    | some x, some y, some r => some (UInt8.ofNat (x * 16 + y) :: r)
    | _, _, _ => none

/-- hex-encoded UTF-8 → text (`-` is the empty text) -/
def unhex (s : String) : Option (List Char) :=
  if s = "-" then some [] else
  match hexBytes s.toList with
  | none => none
  | some bs =>
    match String.fromUTF8? (ByteArray.mk bs.toArray) with
    | some str => some str.toList
    | none => none

def hexDigit (n : Nat) : Char :=
  if n < 10 then Char.ofNat (n + '0'.toNat) else Char.ofNat (n - 10 + 'a'.toNat)

def hex (cs : List Char) : String :=
  if cs.isEmpty then "-" else
  let bs := (String.ofList cs).toUTF8
  String.ofList (bs.toList.flatMap (fun b => [hexDigit (b.toNat / 16), hexDigit (b.toNat % 16)]))

def nat? (s : String) : Option Nat := s.toNat?

def joinWith (sep : String) (xs : List String) : String := sep.intercalate xs

end Glas.Proto
