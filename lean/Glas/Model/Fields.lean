/-!
# M-fields: what is offered after a dot

`lower.rs::lower_custom_type` computes the *accessors* of a custom type: every constructor contributes a
`HashMap<label, TypeRef>` of its labelled fields (inserted in order, so a repeated label keeps its last
type), the first constructor's map is the start and every other constructor `retain`s the entries it has
with an equal type.  `complete_dot` offers these after `value.`; after `module.` it offers the module's
declarations that are not private and are a function or a constructor (a constructor has the visibility
of its type).
-/
namespace Glas.Fields

/-- a type reference, compared structurally (here: its printed form) -/
abbrev Ty := String

/-- the labelled fields of a constructor, in declaration order (unlabelled ones carry no accessor) -/
abbrev Ctor := List (String × Ty)

/-- `HashMap::insert` for every field in order, then `get`: the last field with the label -/
def getField (l : String) : Ctor → Option Ty
  | [] => none
  | (k, t) :: r =>
    match getField l r with
    | some t' => some t'
    | none => if k = l then some t else none

/-- the distinct labels, in order of first occurrence -/
def labels : Ctor → List String
  | [] => []
  | (k, _) :: r => k :: (labels r).filter (fun x => x != k)

/-- the map as a list of entries, one per label -/
def toMap (c : Ctor) : List (String × Ty) :=
  (labels c).filterMap (fun k => (getField k c).map (fun t => (k, t)))

/-- `common_fields.retain(|k, ty| other.get(k) == Some(ty))` -/
def retainStep (acc : List (String × Ty)) (o : Ctor) : List (String × Ty) :=
  acc.filter (fun e => getField e.1 o == some e.2)

/-- `lower_custom_type`: the first constructor's map, retained against every other constructor -/
def commonFields : List Ctor → List (String × Ty)
  | [] => []
  | c :: cs => cs.foldl retainStep (toMap c)

/-! ## after `module.` -/

inductive DeclKind where
  | function | variant | adt | alias | const | other
deriving DecidableEq, Repr, Inhabited

structure Decl where
  name : String
  kind : DeclKind
  pub : Bool
deriving DecidableEq, Repr, Inhabited

/-- `complete_dot`: declarations that are not private, functions and constructors only -/
def moduleDot (ds : List Decl) : List String :=
  (ds.filter (fun d => d.pub && (d.kind == .function || d.kind == .variant))).map (·.name)

end Glas.Fields
