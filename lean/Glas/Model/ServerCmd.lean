import Glas.Model.Server
import Glas.Model.Proto
/-! Driver command `server`: run a message sequence through M-server. -/
namespace Glas.ServerCmd
open Glas.Server Glas.Proto Glas.Text

def parseUri (s : String) : Option Uri :=
  if s.startsWith "f" then (s.drop 1).toString.toNat?.map Uri.file
  else if s.startsWith "o" then (s.drop 1).toString.toNat?.map Uri.other
  else none

def parseChange (s : String) : Option Change :=
  match s.splitOn "@" with
  | [r, h] =>
    match unhex h with
    | none => none
    | some t =>
      if r == "-" then some { range := none, text := t }
      else match (r.splitOn ",").mapM (fun x => x.toNat?) with
        | some [a, b, c, d] => some { range := some (a, b, c, d), text := t }
        | _ => none
  | _ => none

def parseMsg (s : String) : Option Msg :=
  match s.splitOn ":" with
  | ["open", u, h] => match parseUri u, unhex h with
    | some u, some t => some (.didOpen u t)
    | _, _ => none
  | ["change", u, cs] => match parseUri u, (if cs == "" then some [] else (cs.splitOn "|").mapM parseChange) with
    | some u, some cs => some (.didChange u cs)
    | _, _ => none
  | ["close", u] => (parseUri u).map Msg.didClose
  | ["req", id, u, l, c] => match id.toNat?, parseUri u, l.toNat?, c.toNat? with
    | some id, some u, some l, some c => some (.request id u l c)
    | _, _, _, _ => none
  | _ => none

/-- the spelling of a document key: `f1` = spelling 0, `f1~2` = spelling 2 of the same file's URI -/
def splitSp (u : String) : String × Nat :=
  match u.splitOn "~" with
  | [k, n] => (k, n.toNat?.getD 0)
  | _ => (u, 0)

/-- replace the document key of an event (second field) by its bare key, returning the spelling -/
def stripSp (s : String) : String × Nat :=
  match s.splitOn ":" with
  | tag :: u :: rest =>
    if tag == "req" then
      match rest with
      | u' :: rest' => let (k, n) := splitSp u'; (":".intercalate (tag :: u :: k :: rest'), n)
      | [] => (s, 0)
    else let (k, n) := splitSp u; (":".intercalate (tag :: k :: rest), n)
  | _ => (s, 0)

/-- `watch:<uri>:<0|1 deleted>:<A | U | R<hex text>>`, `load:<uri>:<hex text>`, or one of the messages; a document key may carry a
spelling (`f1~1`) -/
def parseEv (s0 : String) : Option Ev :=
  let (s, sp) := stripSp s0
  match s.splitOn ":" with
  | ["watch", u, del, disk] =>
    let d : Option Disk := if disk == "A" then some .absent else if disk == "U" then some .unreadable
      else if disk.startsWith "R" then (unhex (disk.drop 1).toString).map Disk.regular else none
    match parseUri u, d with
    | some u, some d => some (.watched sp u (del == "1") d)
    | _, _ => none
  | ["load", u, h] =>
    match parseUri u, unhex h with
    | some (.file u), some t => some (.loaded u t)
    | _, _ => none
  | _ => (parseMsg s).map (Ev.msg sp)

def showOut : Out → String
  | .none => "-"
  | .response id ok => s!"r{id}={if ok then "ok" else "err"}"
  | .crash => "CRASH"

def run (args : List String) : Option String :=
  match args with
  | ["server", msgs] =>
    match (msgs.splitOn " ").mapM parseEv with
    | none => none
    | some ms =>
      let (s, outs) := Server.srun ⟨[], []⟩ ms
      let docs := s.docs.map (fun p => s!"f{p.1}={hex p.2}")
      some (" ".intercalate (outs.map showOut) ++ " | " ++ " ".intercalate docs)
  | _ => none

end Glas.ServerCmd
