import Glas.Model.Server
import Glas.Model.Proto
/-! Driver command `server`: run a message sequence through M-server. -/
namespace Glas.ServerCmd
open Glas.Server Glas.Proto Glas.Text

def parseUri (s : String) : Option Uri :=
  if s.startsWith "f" then (s.drop 1).toString.toNat?.map Uri.file
  else if s.startsWith "o" then (s.drop 1).toString.toNat?.map Uri.other
  else none

def parseChange (s : String) : Option Change :=
  match s.splitOn "@" with
  | [r, h] =>
    match unhex h with
    | none => none
    | some t =>
      if r == "-" then some { range := none, text := t }
      else match (r.splitOn ",").mapM (fun x => x.toNat?) with
        | some [a, b, c, d] => some { range := some (a, b, c, d), text := t }
        | _ => none
  | _ => none

def parseMsg (s : String) : Option Msg :=
  match s.splitOn ":" with
  | ["open", u, h] => match parseUri u, unhex h with
    | some u, some t => some (.didOpen u t)
    | _, _ => none
  | ["change", u, cs] => match parseUri u, (if cs == "" then some [] else (cs.splitOn "|").mapM parseChange) with
    | some u, some cs => some (.didChange u cs)
    | _, _ => none
  | ["close", u] => (parseUri u).map Msg.didClose
  | ["req", id, u, l, c] => match id.toNat?, parseUri u, l.toNat?, c.toNat? with
    | some id, some u, some l, some c => some (.request id u l c)
    | _, _, _, _ => none
  | _ => none

def showOut : Out → String
  | .none => "-"
  | .response id ok => s!"r{id}={if ok then "ok" else "err"}"
  | .crash => "CRASH"

def run (args : List String) : Option String :=
  match args with
  | ["server", msgs] =>
    match (msgs.splitOn " ").mapM parseMsg with
    | none => none
    | some ms =>
      let (d, outs) := Server.run [] ms
      let docs := d.map (fun p => s!"f{p.1}={hex p.2}")
      some (" ".intercalate (outs.map showOut) ++ " | " ++ " ".intercalate docs)
  | _ => none

end Glas.ServerCmd
