import Glas.Model.Search
import Glas.Model.Proto
/-! Driver command `refs` for M-search. -/
namespace Glas.SearchCmd
open Glas.Search Glas.Proto

def parseTok (s : String) : Option Tok :=
  match s.splitOn ":" with
  | [f, a, b, c, cls, th] =>
    match f.toNat?, a.toNat?, b.toNat?, unhex th with
    | some f, some a, some b, some t =>
      some { file := f, start := a, stop := b, text := String.ofList t, castable := c == "1",
             cls := if cls == "-" then none else cls.toNat? }
    | _, _, _, _ => none
  | _ => none

def showRefs (rs : List Ref) : String :=
  if rs.isEmpty then "empty" else ";".intercalate (rs.map (fun r => s!"{r.1}:{r.2.1}-{r.2.2}"))

def run (args : List String) : Option String :=
  match args with
  | ["refs", did, name, scope, toks] =>
    let sn : Option (Option String) := if name == "none" then some none else (unhex name).map (fun t => some (String.ofList t))
    -- scope: `L:<own>` (a local), `G:<own>:<files of the package graph>` (anything else), or an explicit list of files
    let nats (t : String) : Option (List Nat) := if t == "" || t == "-" then some [] else (t.splitOn ",").mapM (fun x => x.toNat?)
    let sc : Option (List Nat) :=
      match scope.splitOn ":" with
      | ["L", own] => own.toNat?.map (fun o => searchScope [] true o)
      | ["G", own, files] =>
        match own.toNat?, nats files with
        | some o, some fs => some (searchScope fs false o)
        | _, _ => none
      | [l] => nats l
      | _ => none
    let ts : Option (List Tok) := if toks == "-" then some [] else (toks.splitOn ";").mapM parseTok
    match did.toNat?, sn, sc, ts with
    | some d, some n, some sc, some ts => some (showRefs (references ts { id := d, searchName := n, scope := sc }))
    | _, _, _, _ => none
  | _ => none

end Glas.SearchCmd
