import Glas.Model.Db
import Glas.Model.Proto
/-! Driver command `db`: fold a history of changes through M-db and dump the reachable view in the
format of the implementation hook `AnalysisHost::verif_inputs`. -/
namespace Glas.DbCmd
open Glas.Db Glas.Project Glas.Proto

def toPath (s : String) : Path := ((s.splitOn "/").filter (fun c => c != "")).map (fun c => c.toList)
def showPath (p : Path) : String := "/" ++ "/".intercalate (p.map String.ofList)

def parseGraph (s : String) : Option (Option (List Package)) :=
  if s == "none" then some none
  else if s == "" then some (some [])
  else
    let specs : List (List String) := (s.splitOn ";").map (fun (p : String) => p.splitOn ":")
    let names : List String := specs.map (fun (p : List String) => (p[0]?).getD "")
    (specs.mapM (fun (p : List String) => match p with
      | [n, t, l] => t.toNat?.map (fun t => ({ name := n.toList, toml := t, isLocal := l == "1", deps := [] } : Package))
      | [n, t, l, ds] => t.toNat?.map (fun t =>
          ({ name := n.toList, toml := t, isLocal := l == "1",
             deps := if ds == "" then [] else (ds.splitOn "+").filterMap (fun d => names.findIdx? (· == d)) } : Package))
      | _ => none)).map some

def parseRoots (s : String) : Option (Option (List Root)) :=
  if s == "none" then some none
  else if s == "" then some (some [])
  else
    ((s.splitOn ";").mapM (fun (spec : String) => match spec.splitOn "|" with
      | [path, files] =>
        let fs := if files == "" then some [] else (files.splitOn ",").mapM (fun (kv : String) => match kv.splitOn "=" with
          | [fid, fp] => fid.toNat?.map (fun f => (f, toPath fp))
          | _ => none)
        fs.map (fun fs => ({ path := toPath path, files := fs } : Root))
      | _ => none)).map some

def parseFiles (s : String) : Option (List (Nat × List Char)) :=
  if s == "-" then some []
  else (s.splitOn ",").mapM (fun (kv : String) => match kv.splitOn ":" with
    | [fid, h] => match fid.toNat?, unhex h with
      | some f, some t => some (f, t)
      | _, _ => none
    | _ => none)

def parseChange (s : String) : Option Change :=
  match s.splitOn "~" with
  | [g, r, f] => match parseGraph g, parseRoots r, parseFiles f with
    | some g, some r, some f => some { graph := g, roots := r, files := f }
    | _, _, _ => none
  | _ => none

def sortBy {α} (key : α → Nat) (xs : List α) : List α := (xs.toArray.qsort (fun a b => key a < key b)).toList

def hexOf (t : List Char) : String := if t.isEmpty then "" else hex t

def showView (v : View) : String :=
  let pk := v.graph.map (fun p =>
    let deps := (p.deps.filterMap (fun d => (v.graph[d]?).map (fun q => String.ofList q.name))).toArray.qsort (· < ·) |>.toList
    s!"{String.ofList p.name}:{p.toml}:{if p.isLocal then 1 else 0}:{"+".intercalate deps}")
  let roots := v.roots.map (fun r => ",".intercalate ((sortBy (·.1) r.files).map (fun f => s!"{f.1}={showPath f.2}")))
  let maps := v.moduleMaps.map (fun m => ",".intercalate ((sortBy (·.1) m).map (fun f => s!"{f.1}={String.ofList f.2}")))
  let files := (sortBy (·.1) v.files).eraseDups.map (fun f =>
    s!"{f.1}:{hexOf (f.2.1.getD [])}:{(f.2.2.map toString).getD "?"}")
  s!"graph:[{";".intercalate pk}] roots:[{";".intercalate roots}] mm:[{";".intercalate maps}] files:[{",".intercalate files}]"

def run (args : List String) : Option String :=
  match args with
  | ["db", specs, n] =>
    match (if specs == "" then some [] else (specs.splitOn " ").mapM parseChange), n.toNat? with
    | some cs, some n => some (showView (view (cs.foldl applyChange empty) n))
    | _, _ => none
  | _ => none

end Glas.DbCmd
