import Glas.Model.Project
/-!
# M-db: the input layer of the analysis database (`ide/src/base.rs`: `Change::apply`) — C11

The salsa inputs glas sets: file contents, the source root of every file, the source roots, the
per-root module map (derived from the root's files by `module_name` inside `Change::apply`), and
the package graph.  Queries are pure functions of what they can reach from these inputs; salsa
itself (memoisation, revisions) is trusted.
-/
namespace Glas.Db
open Glas.Project

structure Root where
  path : Path
  /-- `(file id, path)` -/
  files : List (Nat × Path)
deriving Repr, DecidableEq, Inhabited

structure Package where
  name : List Char
  toml : Nat
  isLocal : Bool
  deps : List Nat
deriving Repr, DecidableEq, Inhabited

structure Inputs where
  /-- `file_content`: last write wins -/
  content : List (Nat × List Char)
  /-- `file_source_root` -/
  fileRoot : List (Nat × Nat)
  /-- `source_root`, by root id -/
  roots : List Root
  /-- `module_map`, by root id: `(file, module name)` -/
  moduleMaps : List (List (Nat × Comp))
  graph : List Package
deriving Repr, DecidableEq, Inhabited

structure Change where
  graph : Option (List Package)
  roots : Option (List Root)
  files : List (Nat × List Char)
deriving Repr, DecidableEq, Inhabited

def setKey {α} (m : List (Nat × α)) (k : Nat) (v : α) : List (Nat × α) :=
  (k, v) :: m.filter (fun p => p.1 != k)

def getKey {α} : List (Nat × α) → Nat → Option α
  | [], _ => none
  | (k, v) :: r, x => if k = x then some v else getKey r x

/-- module map of one root: every file that `module_name` accepts -/
def moduleMapOf (r : Root) : List (Nat × Comp) :=
  r.files.filterMap (fun f => (moduleName r.path f.2).map (fun n => (f.1, n)))

/-- the `for (sid, root) in roots` loop: sets `file_source_root` of every file of every root -/
def setFileRoots (fr : List (Nat × Nat)) (roots : List Root) (sid : Nat) : List (Nat × Nat) :=
  match roots with
  | [] => fr
  | r :: rs => setFileRoots (r.files.foldl (fun acc f => setKey acc f.1 sid) fr) rs (sid + 1)

/-- `Change::apply` -/
def applyChange (i : Inputs) (c : Change) : Inputs :=
  let i1 := match c.graph with
    | some g => { i with graph := g }
    | none => i
  let i2 := match c.roots with
    | some rs =>
      -- roots beyond the new list keep their old `source_root` / `module_map` inputs (ids are never freed)
      { i1 with fileRoot := setFileRoots i1.fileRoot rs 0,
                roots := rs ++ i1.roots.drop rs.length,
                moduleMaps := rs.map moduleMapOf ++ i1.moduleMaps.drop rs.length }
    | none => i1
  { i2 with content := c.files.foldl (fun acc f => setKey acc f.1 f.2) i2.content }

def empty : Inputs := { content := [], fileRoot := [], roots := [], moduleMaps := [], graph := [] }

/-- what the server's document store looks like after a history: the workspace -/
structure Workspace where
  roots : List Root
  graph : List Package
  content : List (Nat × List Char)
deriving Repr, DecidableEq, Inhabited

/-- the single change a freshly started analysis receives for a workspace -/
def snapshotChange (w : Workspace) : Change :=
  { graph := some w.graph, roots := some w.roots, files := w.content }

/-- what queries can read from the inputs of a workspace with `n` live roots: the live roots and
their module maps, the graph, and for every file of a live root its content and its root -/
structure View where
  roots : List Root
  moduleMaps : List (List (Nat × Comp))
  graph : List Package
  files : List (Nat × Option (List Char) × Option Nat)
deriving Repr, DecidableEq, Inhabited

def liveFiles (roots : List Root) : List Nat := (roots.flatMap (fun r => r.files.map (fun f => f.1)))

def view (i : Inputs) (n : Nat) : View :=
  let rs := i.roots.take n
  { roots := rs, moduleMaps := i.moduleMaps.take n, graph := i.graph,
    files := (liveFiles rs).map (fun f => (f, getKey i.content f, getKey i.fileRoot f)) }

end Glas.Db
