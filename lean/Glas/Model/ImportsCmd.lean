import Glas.Model.Imports
/-! Driver command `imports <graph> <pkg index> <module name>`.
graph = packages separated by `;`, each `deps|modules`, deps = indices separated by `+` (or empty),
modules = `name=file` separated by `,` (or empty). -/
namespace Glas.ImportsCmd
open Glas.Imports

def parsePkg (s : String) : Option Pkg :=
  match s.splitOn "|" with
  | [ds, ms] =>
    let deps := if ds.isEmpty then some [] else (ds.splitOn "+").mapM (·.toNat?)
    let mods := if ms.isEmpty then some [] else (ms.splitOn ",").mapM (fun kv =>
      match kv.splitOn "=" with
      | [k, v] => v.toNat?.map (fun n => (k.toList, n))
      | _ => none)
    match deps, mods with
    | some d, some m => some { deps := d, modules := m }
    | _, _ => none
  | _ => none

def run : List String → Option String
  | ["imports", graph, i, m] =>
    match (graph.splitOn ";").mapM parsePkg, i.toNat? with
    | some g, some i => some (match resolve g i m.toList with | some f => s!"some {f}" | none => "none")
    | _, _ => some "bad-request"
  | _ => none

end Glas.ImportsCmd
