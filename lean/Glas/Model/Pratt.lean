/-!
# M-syntax, part 4: a shallow model of the Pratt loop of `expr_bp` (for C04's unbounded theorem)

Hand-written mirror of `fn expr_bp` restricted to atoms, prefix and infix operators (postfix chains,
which never interact with binding powers, and everything `expr_unit` parses are abstracted as
atoms).  Tied to the code (a) through the generated binding-power tables it is instantiated with and
(b) by the three-way differential: this model vs the generated DSL program vs `parse_module` on all
operator strings up to a length.
-/
namespace Glas.Pratt

inductive Tok where
  | atom (i : Nat)
  | op (k : Nat)
deriving Repr, DecidableEq, Inhabited

inductive Ast where
  | atom (i : Nat)
  | pre (k : Nat) (e : Ast)
  | bin (k : Nat) (l r : Ast)
deriving Repr, DecidableEq, Inhabited

structure Table where
  /-- `infix_bp`: `(left, right)` binding powers -/
  inf : Nat → Option (Nat × Nat)
  /-- `prefix_bp`: right binding power -/
  pref : Nat → Option Nat

def print : Ast → List Tok
  | .atom i => [.atom i]
  | .pre k e => .op k :: print e
  | .bin k l r => print l ++ .op k :: print r

mutual
  /-- `expr_bp(p, min_bp)`; `none` = no expression here, a dangling operator, or the
  non-associativity error (`lbp == min_bp`) -/
  def exprBp (T : Table) : Nat → Nat → List Tok → Option (Ast × List Tok)
    | 0, _, _ => none
    | f + 1, min, toks =>
      match toks with
      | [] => none
      | .atom i :: rest => infixLoop T f min (.atom i) rest
      | .op k :: rest =>
        match T.pref k with
        | none => none
        | some r =>
          match exprBp T f r rest with
          | none => none
          | some (e, rest') => infixLoop T f min (.pre k e) rest'
  /-- the second `loop` of `expr_bp` -/
  def infixLoop (T : Table) : Nat → Nat → Ast → List Tok → Option (Ast × List Tok)
    | 0, _, _, _ => none
    | f + 1, min, lhs, toks =>
      match toks with
      | .op k :: rest =>
        match T.inf k with
        | none => some (lhs, toks)
        | some (l, r) =>
          if l = min then none
          else if l < min then some (lhs, toks)
          else
            match exprBp T f r rest with
            | none => none
            | some (rhs, rest') => infixLoop T f min (.bin k lhs rhs) rest'
      | _ => some (lhs, toks)
end

/-- the reference grammar, stratified by precedence level (`level k` = index of the operator's
level, loosest = 0): `E_n ::= E_m op_m E_{m+1}` for `m ≥ n`, operands of a prefix operator are
prefix expressions or atoms -/
inductive Lvl (level : Nat → Option Nat) (isPre : Nat → Bool) : Nat → Ast → Prop where
  | atom (n i) : Lvl level isPre n (.atom i)
  | pre (n k e) (hk : isPre k = true) (he : ∀ m, Lvl level isPre m e) : Lvl level isPre n (.pre k e)
  | bin (n k m l r) (hk : level k = some m) (hm : n ≤ m) (hl : Lvl level isPre m l)
      (hr : Lvl level isPre (m + 1) r) : Lvl level isPre n (.bin k l r)

end Glas.Pratt
