import Glas.Model.TySpec
import Glas.Model.Infer
/-! Driver command `tycheck <program> <assignment>`: parses the s-expression encoding of a program
of the core language and an assignment (function schemes, local binder types), runs `checkFn` on
every function and prints the functions it rejects (`ok` if none).  Parsing is glue outside the
proved part. -/
namespace Glas.TySpecCmd
open Glas.TySpec

inductive SExp where
  | atom (s : String)
  | list (xs : List SExp)
deriving Repr, Inhabited

def tokenize (s : String) : List String :=
  let (toks, cur) := s.toList.foldl (fun (acc : List String × List Char) c =>
    let (toks, cur) := acc
    if c == '(' || c == ')' then ((String.ofList [c]) :: (if cur.isEmpty then toks else String.ofList cur.reverse :: toks), [])
    else if c == ' ' then ((if cur.isEmpty then toks else String.ofList cur.reverse :: toks), [])
    else (toks, c :: cur)) ([], [])
  (if cur.isEmpty then toks else String.ofList cur.reverse :: toks).reverse

partial def parseList : List String → List SExp → Option (List SExp × List String)
  | [], _ => none
  | ")" :: rest, acc => some (acc.reverse, rest)
  | "(" :: rest, acc => match parseList rest [] with
    | some (xs, rest') => parseList rest' (.list xs :: acc)
    | none => none
  | a :: rest, acc => parseList rest (.atom a :: acc)

def parseTop (toks : List String) : Option (List SExp) :=
  match parseList (toks ++ [")"]) [] with
  | some (xs, []) => some xs
  | _ => none

partial def toTy : SExp → Option Ty
  | .atom "I" => some .int | .atom "F" => some .float | .atom "S" => some .string
  | .atom "B" => some .bool | .atom "N" => some .nil
  | .list [.atom "L", t] => (toTy t).map .list
  | .list (.atom "T" :: ts) => (ts.mapM toTy).map .tuple
  | .list [.atom "R", a, b] => do some (.result (← toTy a) (← toTy b))
  | .list [.atom "Fn", .list ps, r] => do some (.fn (← ps.mapM toTy) (← toTy r))
  | .list (.atom "A" :: .atom n :: args) => (args.mapM toTy).map (.adt n)
  | .list [.atom "G", .atom n] => some (.gen n)
  | _ => none

def lab (s : String) : Option String := if s == "_" then none else some s

partial def toPat : SExp → Option Pat
  | .list [.atom "pv", .atom i] => i.toNat?.map .var
  | .atom "pd" => some .discard | .atom "pi" => some .int | .atom "pf" => some .float | .atom "ps" => some .string
  | .list (.atom "pt" :: ps) => (ps.mapM toPat).map .tuple
  | .list [.atom "pl", .list ps, tail] => do
    let ps ← ps.mapM toPat
    let t ← match tail with
      | .atom "n" => some PTail.none
      | .atom "d" => some PTail.discard
      | .list [.atom "b", .atom i] => i.toNat?.map PTail.bind
      | _ => none
    some (.list ps t)
  | .list (.atom "pc" :: .atom n :: args) => do
    let as ← args.mapM (fun a => match a with
      | .list [.atom l, p] => (toPat p).map (fun p => (lab l, p))
      | _ => none)
    some (.ctor n as)
  | .list [.atom "pa", p, .atom i] => do some (.as_ (← toPat p) (← i.toNat?))
  | _ => none

def toOp : String → Option Op
  | "ia" => some .intArith | "fa" => some .floatArith | "ic" => some .intCmp | "fc" => some .floatCmp
  | "eq" => some .eq | "cc" => some .concat | _ => none

partial def toExpr : SExp → Option Expr
  | .atom "i" => some .int | .atom "f" => some .float | .atom "s" => some .str
  | .list [.atom "v", .atom i] => i.toNat?.map .var
  | .list [.atom "fr", .atom n] => some (.fnref n)
  | .list [.atom "c", .atom n] => some (.ctor n)
  | .list (.atom "call" :: f :: args) => do
    let f ← toExpr f
    let as ← args.mapM (fun a => match a with
      | .list [.atom l, e] => (toExpr e).map (fun e => (lab l, e))
      | _ => none)
    some (.call f as)
  | .list [.atom "op", .atom o, l, r] => do some (.binop (← toOp o) (← toExpr l) (← toExpr r))
  | .list (.atom "t" :: es) => (es.mapM toExpr).map .tuple
  | .list [.atom "ix", e, .atom i] => do some (.index (← toExpr e) (← i.toNat?))
  | .list [.atom "l", .list es] => (es.mapM toExpr).map .list
  | .list [.atom "lt", .list es, tail] => do some (.listTail (← es.mapM toExpr) (← toExpr tail))
  | .list (.atom "case" :: .list subjects :: clauses) => do
    let ss ← subjects.mapM toExpr
    let cs ← clauses.mapM (fun c => match c with
      | .list [.list ps, body] => do some ((← ps.mapM toPat), (← toExpr body))
      | _ => none)
    some (.case ss cs)
  | .list [.atom "lam", .list ids, body] => do some (.lambda (← ids.mapM (fun i => match i with | .atom s => s.toNat? | _ => none)) (← toExpr body))
  | .list (.atom "blk" :: stmts) => do
    let ss ← stmts.mapM (fun s => match s with
      | .list [.atom "let", p, e] => do some (some (← toPat p), (← toExpr e))
      | .list [.atom "x", e] => do some (none, (← toExpr e))
      | _ => none)
    some (.block ss)
  | .list [.atom "fld", e, .atom l] => do some (.field (← toExpr e) l)
  | .list [.atom "pipe", l, r] => do some (.pipe (← toExpr l) (← toExpr r))
  | _ => none

def toAdt : SExp → Option Adt
  | .list (.atom "adt" :: .atom n :: .list ps :: vs) => do
    let params ← ps.mapM (fun p => match p with | .atom s => some s | _ => none)
    let variants ← vs.mapM (fun v => match v with
      | .list (.atom "variant" :: .atom vn :: fields) => do
        let fs ← fields.mapM (fun f => match f with
          | .list [.atom l, t] => (toTy t).map (fun t => (lab l, t))
          | _ => none)
        some ({ name := vn, fields := fs } : Variant)
      | _ => none)
    some { name := n, params := params, variants := variants }
  | _ => none

structure RawFn where
  name : String
  labels : List (Option String)
  params : List Nat
  paramAnn : List (Option Ty)
  retAnn : Option Ty
  body : Expr

def toAnn : SExp → Option (Option Ty)
  | .atom "_" => some none
  | t => (toTy t).map some

def toFn : SExp → Option RawFn
  | .list [.atom "fn", .atom n, .list ls, .list ids, .list anns, ret, body] => do
    let labels ← ls.mapM (fun l => match l with | .atom s => some (lab s) | _ => none)
    let ids ← ids.mapM (fun i => match i with | .atom s => s.toNat? | _ => none)
    some { name := n, labels := labels, params := ids, paramAnn := (← anns.mapM toAnn), retAnn := (← toAnn ret), body := (← toExpr body) }
  | _ => none

partial def showTy : Ty → String
  | .int => "Int" | .float => "Float" | .string => "String" | .bool => "Bool" | .nil => "Nil" | .bitArray => "BitArray"
  | .list t => "List(" ++ showTy t ++ ")"
  | .result a b => "Result(" ++ showTy a ++ ", " ++ showTy b ++ ")"
  | .tuple ts => "#(" ++ ", ".intercalate (ts.map showTy) ++ ")"
  | .fn ps r => "fn(" ++ ", ".intercalate (ps.map showTy) ++ ") -> " ++ showTy r
  | .adt n as => if as.isEmpty then n else n ++ "(" ++ ", ".intercalate (as.map showTy) ++ ")"
  | .gen n => n

def parseProgram (prog : String) : Option (List Adt × List RawFn) := do
  let p ← parseTop (tokenize prog)
  match p with
  | [.list (.atom "adts" :: as), .list (.atom "fns" :: fs)] => do some ((← as.mapM toAdt), (← fs.mapM toFn))
  | _ => none

def run (args : List String) : Option String :=
  match args with
  | ["tyinfer", prog, groups] =>
    some <| (do
      let (pr : List Adt × List RawFn) ← parseProgram prog
      let gs ← parseTop (tokenize groups)
      let groups ← gs.mapM (fun (g : SExp) => match g with
        | .list (.atom "g" :: names) => names.mapM (fun (n : SExp) => match n with
          | .atom s => (pr.2.find? (fun (f : RawFn) => f.name == s)).map (fun (f : RawFn) =>
              (({ name := f.name, params := f.params, paramAnn := f.paramAnn, retAnn := f.retAnn, body := f.body } : FnDef), f.labels))
          | _ => none)
        | _ => none)
      let r := Glas.Infer.inferProgram pr.1 groups
      -- the proved checker on the model's own result
      let sigs : List FnSig := pr.2.filterMap (fun (f : RawFn) => (r.fnTys.lookup f.name).map (fun t => { name := f.name, labels := f.labels, ty := t }))
      let D : Decls := { adts := pr.1, fns := sigs, locals := r.locals }
      let bad := pr.2.filter (fun (f : RawFn) => !checkFn D 200 { name := f.name, params := f.params, paramAnn := f.paramAnn.map (fun _ => none), retAnn := none, body := f.body })
      some ((if bad.isEmpty then "valid " else "invalid(" ++ ",".intercalate (bad.map (fun (f : RawFn) => f.name)) ++ ") ") ++ "fn " ++ ";".intercalate (r.fnTys.map (fun (x : String × Ty) => x.1 ++ "=" ++ showTy x.2)) ++ "|loc " ++
            ";".intercalate (r.locals.map (fun (x : Nat × Ty) => toString x.1 ++ "=" ++ showTy x.2)))).getD "bad-op"
  | ["tycheck", prog, assign] =>
    some <| (do
      let p ← parseTop (tokenize prog)
      let a ← parseTop (tokenize assign)
      let (pr : List Adt × List RawFn) ← match p with
        | [.list (.atom "adts" :: as), .list (.atom "fns" :: fs)] => do some ((← as.mapM toAdt), (← fs.mapM toFn))
        | _ => none
      let adts := pr.1
      let fns := pr.2
      let fnTys ← (a.filterMap (fun (x : SExp) => match x with
        | .list [.atom "fnty", .atom n, t] => some ((toTy t).map (fun t => (n, t)))
        | _ => none)).mapM id
      let locals ← (a.filterMap (fun (x : SExp) => match x with
        | .list [.atom "loc", .atom i, t] => some (do some ((← i.toNat?), (← toTy t)))
        | _ => none)).mapM id
      let sigs : List FnSig := fns.filterMap (fun (f : RawFn) => (fnTys.lookup f.name).map (fun t => { name := f.name, labels := f.labels, ty := t }))
      let D : Decls := { adts := adts, fns := sigs, locals := locals }
      let bad := fns.filter (fun (f : RawFn) => !checkFn D 200 { name := f.name, params := f.params, paramAnn := f.paramAnn, retAnn := f.retAnn, body := f.body })
      some (if bad.isEmpty then "ok" else "rejected " ++ ",".intercalate (bad.map (fun (f : RawFn) => f.name)))).getD "bad-op"
  | _ => none

end Glas.TySpecCmd
