import Glas.Model.Text
/-!
# Specification side of M-text: what an LSP client computes.

Nothing here mirrors glas code; these definitions state the LSP rules the properties C13, C14 and
C19 refer to (positions are `(line, UTF-16 column)`, line breaks are LF or CRLF, semantic tokens
are relative-encoded).
-/
namespace Glas.Text

/-- lexicographic order on `(line, column)` -/
def posLt (a b : Nat × Nat) : Prop := a.1 < b.1 ∨ (a.1 = b.1 ∧ a.2 < b.2)

/-- the character index an LSP client resolves a position to: the unique character boundary whose
`(line, column)` is the position -/
def clientOffset (t : List Char) (p : Nat × Nat) : Option Nat :=
  (List.range (t.length + 1)).find? (fun k => clientLineCol t k = p)

/-- `k` is a character boundary of the client document at which an editor can place a position:
not between the `'\r'` and the `'\n'` of a CRLF line break -/
def validIdx (c : List Char) (k : Nat) : Prop :=
  k ≤ c.length ∧ (k = 0 ∨ c[k - 1]? ≠ some '\r')

/-- one content change as the editor performs it on its own document (character indices) -/
inductive Edit where
  | full (ins : List Char)
  | range (j k : Nat) (ins : List Char)

def clientApply (c : List Char) : Edit → List Char
  | .full ins => ins
  | .range j k ins => c.take j ++ ins ++ c.drop k

/-- the same change as the server receives it (LSP positions computed on the client document)
and handles it (`on_did_change`) on its own text `s` -/
def serverApply (s c : List Char) : Edit → Res (List Char)
  | .full ins => applyChange s none ins
  | .range j k ins =>
    let pj := clientLineCol c j
    let pk := clientLineCol c k
    applyChange s (some (pj.1, pj.2, pk.1, pk.2)) ins

def clientRun (c : List Char) : List Edit → List Char
  | [] => c
  | e :: es => clientRun (clientApply c e) es

def serverRun (s c : List Char) : List Edit → Res (List Char)
  | [] => .ok s
  | e :: es =>
    match serverApply s c e with
    | .ok s' => serverRun s' (clientApply c e) es
    | .err => .err
    | .panic => .panic

def validEdit (c : List Char) : Edit → Prop
  | .full _ => True
  | .range j k _ => j ≤ k ∧ validIdx c j ∧ validIdx c k

/-- every edit of the history is valid on the document it is applied to, every intermediate
document uses LF/CRLF line breaks only and stays below the `u32` limit -/
def ValidHistory (c : List Char) : List Edit → Prop
  | [] => True
  | e :: es => validEdit c e ∧ wfCRLF (clientApply c e) = true ∧ u8sum (clientApply c e) < U32 ∧
      ValidHistory (clientApply c e) es

/-- LSP decoding of a relative-encoded semantic-token array to `(line, start, length, type)` -/
def decodeFrom : Nat → Nat → List SemTok → List (Nat × Nat × Nat × Nat)
  | _, _, [] => []
  | line, start, t :: ts =>
    let line' := line + t.deltaLine
    let start' := if t.deltaLine = 0 then start + t.deltaStart else t.deltaStart
    (line', start', t.length, t.type) :: decodeFrom line' start' ts

def decode (ts : List SemTok) : List (Nat × Nat × Nat × Nat) := decodeFrom 0 0 ts

/-- a highlight given by character indices `j < k` of `t` and a type index -/
abbrev Hl := Nat × Nat × Nat

/-- what the server's encoder is given: byte offsets -/
def hlBytes (t : List Char) (h : Hl) : Nat × Nat × Nat :=
  (u8sum (t.take h.1), u8sum (t.take h.2.1), h.2.2)

/-- what the client must decode: `(line, UTF-16 start, UTF-16 length, type)` -/
def hlExpected (t : List Char) (h : Hl) : Nat × Nat × Nat × Nat :=
  ((clientLineCol t h.1).1, (clientLineCol t h.1).2, u16sum ((t.drop h.1).take (h.2.1 - h.1)), h.2.2)

/-- non-empty, inside the text, on a single line -/
def hlOk (t : List Char) (h : Hl) : Prop :=
  h.1 < h.2.1 ∧ h.2.1 ≤ t.length ∧ ∀ c ∈ (t.drop h.1).take (h.2.1 - h.1), c ≠ '\n'

/-- sorted and pairwise disjoint -/
def hlSorted : List Hl → Prop
  | [] => True
  | [_] => True
  | a :: b :: rest => a.2.1 ≤ b.1 ∧ hlSorted (b :: rest)

/-- UTF-16 length of line `l` of `t` (without its line break) -/
def lineLen16 (t : List Char) (l : Nat) : Nat := u16sum ((splitLines t)[l]?.getD [])

end Glas.Text
