/-! Vocabulary of the rename decision table extracted from `ide/src/ide/rename.rs`. -/
namespace Glas.RenameSpec

inductive Rule where
  /-- `return Err(..)` whatever the name -/
  | refuse
  /-- the new name must be exactly one token of this kind -/
  | require (kind : Nat)
  /-- no constraint on the token kind -/
  | unchecked
deriving Repr, DecidableEq, Inhabited

structure Flags where
  /-- `rename` lexes the new name and demands exactly one token -/
  singleToken : Bool
  /-- `rename` refuses definitions outside the local packages -/
  renameChecksLocal : Bool
  /-- `prepare_rename` refuses definitions outside the local packages -/
  prepareChecksLocal : Bool
  /-- `find_def` refuses a token whose text differs from the definition's name (aliased spelling) -/
  aliasCheck : Bool
deriving Repr, DecidableEq, Inhabited

end Glas.RenameSpec
