import Glas.Model.Check
/-!
# M-syntax, part 6: a certificate checker for the look-ahead budget (`parser is stuck` is unreachable)

`Parser::nth` burns one unit of a budget of `P.fuel` (1024) look-aheads and panics with `parser is stuck`
when it is exhausted; `bump` and (since fix e83622f) `finish_node` refill it.  `laCheck` bounds the counter
`St.la` at every evaluation point of a DSL program.  It runs on the abstract states of `Check.lean`
(current-token sets, facts about locals, consumed-since flags) - without them `expect(K)` after
`assert!(at(K))` and the recovery loops guarded by `at_any(FIRST)` look as if they could go round without
a refill - and pairs each of them with

* `Bd`: `la ≤ e + off` as long as nothing has been consumed since the entry of the procedure (`e` = the
  counter at entry; `off = none`: not applicable), `la ≤ cst` otherwise.

A procedure summary `Sum` gives the high-water mark inside the procedure (`hi`) and the bound at its exits
(`out`), relative to the entry value; `Check`'s summaries (`pre`, `prog`) are used as annotations and
validated here again (`exitOk`).  A loop is analysed from its first-iteration states and a generic
later-iteration state whose bound `H` must be inductive.  The summaries and the `H`s are found by
iteration (untrusted); `checkWith` validates them.  Soundness: `Lemmas/LaSound.lean`.
-/
namespace Glas.LaCheck
open Glas.Dsl Glas.Check

/-- static upper bound of the look-aheads one evaluation of an expression performs -/
def exprCost : Expr → Nat
  | .nth _ => 1
  | .inSet _ e => exprCost e
  | .not e => exprCost e
  | .tbl _ e => exprCost e
  | .eq a b => exprCost a + exprCost b
  | .lt a b => exprCost a + exprCost b
  | .and a b => exprCost a + exprCost b
  | .or a b => exprCost a + exprCost b
  | _ => 0

def argsCost : List Expr → Nat
  | [] => 0
  | e :: es => exprCost e + argsCost es

structure Bd where
  off : Option Nat
  cst : Nat
deriving Repr, DecidableEq, Inhabited

def omax : Option Nat → Option Nat → Option Nat
  | none, y => y
  | some x, none => some x
  | some x, some y => some (max x y)

def ole : Option Nat → Option Nat → Bool
  | none, _ => true
  | some _, none => false
  | some x, some y => decide (x ≤ y)

namespace Bd
def bot : Bd := ⟨none, 0⟩
def entry : Bd := ⟨some 0, 0⟩
def add (b : Bd) (c : Nat) : Bd := ⟨b.off.map (· + c), b.cst + c⟩
def join (a b : Bd) : Bd := ⟨omax a.off b.off, max a.cst b.cst⟩
def le (a b : Bd) : Bool := ole a.off b.off && decide (a.cst ≤ b.cst)
/-- the bound `s`, relative to a callee's entry value, seen from a caller whose counter at the call obeys `b` -/
def compose (b s : Bd) : Bd :=
  ⟨match b.off, s.off with
    | some o, some so => some (o + so)
    | _, _ => none,
   max s.cst (match s.off with
    | some so => b.cst + so
    | none => 0)⟩
end Bd

structure LS where
  a : AState
  b : Bd
deriving Repr, DecidableEq, Inhabited

def addNewL (x : LS) (l : List LS) : List LS := if x ∈ l then l else x :: l
def unionLS (a b : List LS) : List LS := a.foldr addNewL b
def dedupLS (a : List LS) : List LS := unionLS a []

structure Sum where
  hi : Bd
  out : Bd
deriving Repr, DecidableEq, Inhabited

structure R where
  ok : Bool
  norm : List LS
  brk : List LS
  ret : List LS
  hi : Bd
deriving Repr, Inhabited

def joinAll : List LS → Bd
  | [] => Bd.bot
  | x :: l => x.b.join (joinAll l)

def addCost (c : Nat) (l : List LS) : List LS := l.map (fun x => ⟨x.a, x.b.add c⟩)

def refineL (eofK : Nat) (c : Expr) (t : Bool) (l : List LS) : List LS :=
  dedupLS (l.flatMap (fun x => (refine eofK c t x.a).map (fun a => (⟨a, x.b⟩ : LS))))

/-- the abstract states after a call: progress (the counter obeys the callee's exit bound after a refill), or no
progress (then the current token is not one on which the callee promises progress) -/
def callResL (s : Summ) (S : Sum) (dst : Dst) (x : LS) : List LS :=
  ⟨consume x.a, ⟨none, S.out.cst⟩⟩ ::
    (if (x.a.cur.diff s.prog).isEmpty then []
     else [⟨{ dropDst dst x.a with cur := x.a.cur.diff s.prog }, Bd.compose x.b S.out⟩])

def callHi (S : Sum) : List LS → Bd
  | [] => Bd.bot
  | x :: l => (Bd.compose x.b S.hi).join (callHi S l)

def loopEntry (as : List LS) (H : Nat) : List LS :=
  unionLS (as.map (fun x => (⟨pushF x.a, x.b⟩ : LS)))
    (dedupLS (as.map (fun x => (⟨generic x.a, ⟨none, H⟩⟩ : LS))))

/-- (untrusted) search for an inductive bound at the head of the later iterations -/
def findH (body : List LS → R) (as : List LS) : Nat → Nat → Nat
  | 0, H => H
  | k + 1, H =>
    let r := body (loopEntry as H)
    let H' := max H (joinAll r.norm).cst
    if H' = H then H else findH body as k H'

def aexec (Γ : List Summ) (Λ : List Sum) (eofK nl : Nat) : Stmt → List LS → R
  | .skip, as => ⟨true, as, [], [], Bd.bot⟩
  | .bump, as => ⟨true, dedupLS (as.map (fun x => ⟨consume x.a, Bd.bot⟩)), [], [], Bd.bot⟩
  | .err _ _, as => ⟨true, as, [], [], Bd.bot⟩
  | .open _, as => ⟨true, as, [], [], Bd.bot⟩
  | .openBefore _ _, as => ⟨true, as, [], [], Bd.bot⟩
  | .close _ _ _, as => ⟨true, dedupLS (as.map (fun x => ⟨x.a, Bd.bot⟩)), [], [], Bd.bot⟩
  | .assert c, as =>
    let as' := addCost (exprCost c) as
    ⟨true, refineL eofK c true as', [], [], joinAll as'⟩
  | .set x e, as =>
    let as' := addCost (exprCost e) as
    ⟨true, dedupLS (as'.map (fun y => ⟨setFact nl x e y.a, y.b⟩)), [], [], joinAll as'⟩
  | .seq a b, as =>
    let r1 := aexec Γ Λ eofK nl a as
    let r2 := aexec Γ Λ eofK nl b r1.norm
    ⟨r1.ok && r2.ok, r2.norm, unionLS r1.brk r2.brk, unionLS r1.ret r2.ret, r1.hi.join r2.hi⟩
  | .ite c t e, as =>
    let as' := addCost (exprCost c) as
    let r1 := aexec Γ Λ eofK nl t (refineL eofK c true as')
    let r2 := aexec Γ Λ eofK nl e (refineL eofK c false as')
    ⟨r1.ok && r2.ok, unionLS r1.norm r2.norm, unionLS r1.brk r2.brk, unionLS r1.ret r2.ret,
     (joinAll as').join (r1.hi.join r2.hi)⟩
  | .loop b, as =>
    let H := findH (aexec Γ Λ eofK nl b) as 8 0
    let r := aexec Γ Λ eofK nl b (loopEntry as H)
    ⟨r.ok && r.norm.all (fun x => headFlag x.a.adv && x.b.le ⟨none, H⟩),
     dedupLS (r.brk.map (fun x => ⟨pop x.a, x.b⟩)), [], dedupLS (r.ret.map (fun x => ⟨pop x.a, x.b⟩)), r.hi⟩
  | .brk, as => ⟨true, [], as, [], Bd.bot⟩
  | .ret r, as =>
    match r with
    | .nat e => let as' := addCost (exprCost e) as; ⟨true, [], [], as', joinAll as'⟩
    | _ => ⟨true, [], [], as, Bd.bot⟩
  | .call f args _ dst, as =>
    let as' := addCost (argsCost args) as
    match Γ[f]?, Λ[f]? with
    | some s, some S =>
      ⟨as'.all (fun x => x.a.cur.sub s.pre), dedupLS (as'.flatMap (callResL s S dst)), [], [],
       (joinAll as').join (callHi S as')⟩
    | _, _ => ⟨false, [], [], [], Bd.bot⟩

/-- the body of a procedure obeys its two summaries -/
def procOK (Γ : List Summ) (Λ : List Sum) (eofK : Nat) (p : Proc) (s : Summ) (S : Sum) : Bool :=
  let r := aexec Γ Λ eofK p.nLocals p.body [⟨initState s, Bd.entry⟩]
  r.ok && r.brk.isEmpty && r.hi.le S.hi &&
    (r.norm ++ r.ret).all (fun x => exitOk s x.a && x.b.le S.out)

def checkProcs (Γ : List Summ) (Λ : List Sum) (eofK : Nat) : List Proc → List Summ → List Sum → Bool
  | [], [], [] => true
  | p :: ps, s :: ss, S :: Ss => procOK Γ Λ eofK p s S && checkProcs Γ Λ eofK ps ss Ss
  | _, _, _ => false

/-- every counter value the bound allows fits the budget `F` when the entry value is `e` -/
def fitsB (F e : Nat) (b : Bd) : Bool :=
  (match b.off with
   | some o => decide (e + o ≤ F)
   | none => true) && decide (b.cst ≤ F)

def checkWith (Γ : List Summ) (Λ : List Sum) (P : Prog) : Bool :=
  checkProcs Γ Λ P.eofKind P.procs Γ Λ &&
    (match Γ[P.main]?, Λ[P.main]? with
     | some s, some S => Cur.top.sub s.pre && fitsB P.fuel 0 S.hi
     | _, _ => false)

/-! ## (untrusted) inference of the summaries -/

def inferStep (Γ : List Summ) (Λ : List Sum) (P : Prog) : List Sum :=
  ((P.procs.zip Γ).zip Λ).map (fun ((p, s), S) =>
    let r := aexec Γ Λ P.eofKind p.nLocals p.body [⟨initState s, Bd.entry⟩]
    (⟨S.hi.join r.hi, S.out.join (joinAll (r.norm ++ r.ret))⟩ : Sum))

def inferIter (Γ : List Summ) (P : Prog) : Nat → List Sum → List Sum
  | 0, Λ => Λ
  | k + 1, Λ =>
    let Λ' := inferStep Γ Λ P
    if Λ' = Λ then Λ else inferIter Γ P k Λ'

def infer (P : Prog) : List Sum :=
  inferIter (Check.infer P) P 40 (P.procs.map (fun _ => (⟨Bd.bot, Bd.bot⟩ : Sum)))

def laCheck (P : Prog) : Bool := checkWith (Check.infer P) (infer P) P

/-- the largest value the analysis allows the counter to take in a run of `P` (for the evidence) -/
def peak (P : Prog) : Option Nat :=
  ((infer P)[P.main]?).map (fun S => max S.hi.cst (S.hi.off.getD 0))

end Glas.LaCheck
