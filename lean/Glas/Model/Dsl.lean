/-!
# M-syntax, part 1: the parser DSL and its interpreter

`crates/syntax/src/parser.rs` is translated, on every run, by `xlate` into a `Prog` of this
deep-embedded language (`Glas/Gen/Parser.lean`).  `exec` is faithful to the Rust code's panics:
`bump` at end of input (`assert!(!self.eof())`), a failed `assert!`, look-ahead fuel exhausted
(`parser is stuck`), and to the raw-index semantics of marks (`MarkOpened{index}`,
`MarkClosed{index}`): events carry a model-only identity and a `done` flag, and using a mark whose
stored index no longer points at its own event is the outcome `markMisuse` (in Rust: a silently
overwritten event).  Values are natural numbers (bools 0/1, kinds by discriminant, `u8`s).
-/
namespace Glas.Dsl

abbrev Kind := Nat

inductive Ev where
  | open (kind : Kind) (id : Nat) (done : Bool)
  | close
  | adv
deriving Repr, DecidableEq, Inhabited

structure Mark where
  idx : Nat
  id : Nat
deriving Repr, DecidableEq, Inhabited

inductive Expr where
  | lit (n : Nat)
  | var (x : Nat)
  /-- `p.nth(k)`: kind of the k-th token ahead (EOF beyond the end); burns one unit of fuel -/
  | nth (k : Nat)
  | eof
  /-- bit `e` of the token-set mask `s` -/
  | inSet (s : Nat) (e : Expr)
  | eq (a b : Expr)
  | lt (a b : Expr)
  | not (a : Expr)
  | and (a b : Expr)
  | or (a b : Expr)
  /-- lookup in generated table `t` (binding powers), default 0 -/
  | tbl (t : Nat) (e : Expr)
deriving Repr, Inhabited, DecidableEq

inductive Ret where
  | unit
  | nat (e : Expr)
  | mark (m : Nat)
  | noMark
deriving Repr, Inhabited, DecidableEq

inductive Dst where
  | none
  | nat (x : Nat)
  | mark (m : Nat)
  | optMark (m : Nat) (flag : Nat)
deriving Repr, Inhabited, DecidableEq

inductive Stmt where
  | skip
  | bump
  | err (code arg : Nat)
  | open (m : Nat)
  | openBefore (m' m : Nat)
  | close (m : Nat) (k : Kind) (dst : Option Nat)
  | assert (c : Expr)
  | set (x : Nat) (e : Expr)
  | seq (a b : Stmt)
  | ite (c : Expr) (t e : Stmt)
  | loop (b : Stmt)
  | brk
  | ret (r : Ret)
  | call (f : Nat) (args : List Expr) (margs : List Nat) (dst : Dst)
deriving Repr, Inhabited, DecidableEq

structure Proc where
  name : String
  nLocals : Nat
  nMarks : Nat
  body : Stmt
deriving Repr, Inhabited

structure Prog where
  procs : List Proc
  tables : List (List Nat)
  /-- look-ahead fuel (`Cell::new(1024)`, refilled by `bump`) -/
  fuel : Nat
  eofKind : Kind
  errorKind : Kind
  main : Nat
deriving Repr, Inhabited

structure St where
  toks : List Kind
  pos : Nat
  /-- look-aheads since the last `bump` (Rust: `1024 - fuel`) -/
  la : Nat
  events : List Ev
  /-- `(error code, argument, token index)` in emission order -/
  errs : List (Nat × Nat × Nat)
  nextId : Nat
  depth : Nat
  maxDepth : Nat
deriving Repr, Inhabited

structure Frame where
  locals : List Nat
  marks : List (Option Mark)
deriving Repr, Inhabited

inductive Why where
  | bumpAtEof | assertFailed | stuck | markMisuse | leak | badProg
deriving Repr, DecidableEq, Inhabited

inductive RetV where
  | unit
  | nat (n : Nat)
  | mark (m : Mark)
  | noMark
deriving Repr, Inhabited

inductive Out where
  | norm (σ : St) (fr : Frame)
  | brk (σ : St) (fr : Frame)
  | ret (σ : St) (v : RetV)
  | panic (w : Why) (σ : St)
  | oof
deriving Repr, Inhabited

def b2n (b : Bool) : Nat := if b then 1 else 0

def kindAt (eofKind : Kind) (toks : List Kind) (i : Nat) : Kind := (toks[i]?).getD eofKind

/-- value and number of look-aheads performed (short-circuit `&&`/`||` as in Rust) -/
def evalE (P : Prog) (toks : List Kind) (pos : Nat) (locals : List Nat) : Expr → Nat × Nat
  | .lit n => (n, 0)
  | .var x => ((locals[x]?).getD 0, 0)
  | .nth k => (kindAt P.eofKind toks (pos + k), 1)
  | .eof => (b2n (pos == toks.length), 0)
  | .inSet s e =>
    let (v, c) := evalE P toks pos locals e
    (b2n (s.testBit v), c)
  | .eq a b =>
    let (x, c1) := evalE P toks pos locals a
    let (y, c2) := evalE P toks pos locals b
    (b2n (x == y), c1 + c2)
  | .lt a b =>
    let (x, c1) := evalE P toks pos locals a
    let (y, c2) := evalE P toks pos locals b
    (b2n (x < y), c1 + c2)
  | .not a =>
    let (x, c) := evalE P toks pos locals a
    (b2n (x == 0), c)
  | .and a b =>
    let (x, c1) := evalE P toks pos locals a
    if x == 0 then (0, c1) else
      let (y, c2) := evalE P toks pos locals b
      (b2n (y != 0), c1 + c2)
  | .or a b =>
    let (x, c1) := evalE P toks pos locals a
    if x != 0 then (1, c1) else
      let (y, c2) := evalE P toks pos locals b
      (b2n (y != 0), c1 + c2)
  | .tbl t e =>
    let (v, c) := evalE P toks pos locals e
    ((((P.tables[t]?).getD [])[v]?).getD 0, c)

/-- evaluate an expression in a state, burning fuel; `none` = `parser is stuck` -/
def evalIn (P : Prog) (σ : St) (fr : Frame) (e : Expr) : Option (Nat × St) :=
  let (v, c) := evalE P σ.toks σ.pos fr.locals e
  if σ.la + c > P.fuel then none else some (v, { σ with la := σ.la + c })

def evalArgs (P : Prog) (σ : St) (fr : Frame) : List Expr → Option (List Nat × St)
  | [] => some ([], σ)
  | e :: es =>
    match evalIn P σ fr e with
    | none => none
    | some (v, σ') =>
      match evalArgs P σ' fr es with
      | none => none
      | some (vs, σ'') => some (v :: vs, σ'')

def setNth {α} : List α → Nat → α → List α
  | [], _, _ => []
  | _ :: xs, 0, a => a :: xs
  | x :: xs, n + 1, a => x :: setNth xs n a

def insertAt {α} : List α → Nat → α → List α
  | xs, 0, a => a :: xs
  | [], _ + 1, a => [a]
  | x :: xs, n + 1, a => x :: insertAt xs n a

def getMark (fr : Frame) (m : Nat) : Option Mark := (fr.marks[m]?).getD none

def setMark (fr : Frame) (m : Nat) (v : Option Mark) : Frame :=
  { fr with marks := setNth fr.marks m v }

def setLocal (fr : Frame) (x : Nat) (v : Nat) : Frame :=
  { fr with locals := setNth fr.locals x v }

/-- move the marks named by `margs` out of the caller's frame -/
def takeMarks (fr : Frame) : List Nat → List (Option Mark) × Frame
  | [] => ([], fr)
  | m :: ms =>
    let v := getMark fr m
    let (vs, fr') := takeMarks (setMark fr m none) ms
    (v :: vs, fr')

def assignDst (fr : Frame) (d : Dst) (v : RetV) : Option Frame :=
  match d, v with
  | .none, _ => some fr
  | .nat x, .nat n => some (setLocal fr x n)
  | .mark m, .mark mk => some (setMark fr m (some mk))
  | .optMark m f, .mark mk => some (setLocal (setMark fr m (some mk)) f 1)
  | .optMark m f, .noMark => some (setLocal (setMark fr m none) f 0)
  | _, _ => none

def exec (P : Prog) : Nat → Stmt → St → Frame → Out
  | 0, _, _, _ => .oof
  | n + 1, s, σ, fr =>
    match s with
    | .skip => .norm σ fr
    | .bump =>
      if σ.pos < σ.toks.length then
        .norm { σ with pos := σ.pos + 1, la := 0, events := σ.events ++ [.adv] } fr
      else .panic .bumpAtEof σ
    | .err code arg => .norm { σ with errs := σ.errs ++ [(code, arg, σ.pos)] } fr
    | .open m =>
      let mk : Mark := { idx := σ.events.length, id := σ.nextId }
      .norm { σ with events := σ.events ++ [.open P.errorKind σ.nextId false], nextId := σ.nextId + 1 }
        (setMark fr m (some mk))
    | .openBefore m' m =>
      match getMark fr m with
      | none => .panic .markMisuse σ
      | some mk =>
        match σ.events[mk.idx]? with
        | some (.open _ id true) =>
          if id = mk.id then
            let mk' : Mark := { idx := mk.idx, id := σ.nextId }
            .norm { σ with events := insertAt σ.events mk.idx (.open P.errorKind σ.nextId false),
                           nextId := σ.nextId + 1 }
              (setMark (setMark fr m none) m' (some mk'))
          else .panic .markMisuse σ
        | _ => .panic .markMisuse σ
    | .close m k dst =>
      match getMark fr m with
      | none => .panic .markMisuse σ
      | some mk =>
        match σ.events[mk.idx]? with
        | some (.open _ id false) =>
          if id = mk.id then
            let σ' := { σ with events := setNth σ.events mk.idx (.open k id true) ++ [.close], la := 0 }
            let fr' := setMark fr m none
            match dst with
            | none => .norm σ' fr'
            | some d => .norm σ' (setMark fr' d (some mk))
          else .panic .markMisuse σ
        | _ => .panic .markMisuse σ
    | .assert c =>
      match evalIn P σ fr c with
      | none => .panic .stuck σ
      | some (v, σ') => if v != 0 then .norm σ' fr else .panic .assertFailed σ'
    | .set x e =>
      match evalIn P σ fr e with
      | none => .panic .stuck σ
      | some (v, σ') => .norm σ' (setLocal fr x v)
    | .seq a b =>
      match exec P n a σ fr with
      | .norm σ' fr' => exec P n b σ' fr'
      | o => o
    | .ite c t e =>
      match evalIn P σ fr c with
      | none => .panic .stuck σ
      | some (v, σ') => if v != 0 then exec P n t σ' fr else exec P n e σ' fr
    | .loop b =>
      match exec P n b σ fr with
      | .norm σ' fr' => exec P n (.loop b) σ' fr'
      | .brk σ' fr' => .norm σ' fr'
      | o => o
    | .brk => .brk σ fr
    | .ret r =>
      match r with
      | .unit => .ret σ .unit
      | .nat e =>
        match evalIn P σ fr e with
        | none => .panic .stuck σ
        | some (v, σ') => .ret σ' (.nat v)
      | .mark m =>
        match getMark fr m with
        | some mk => .ret σ (.mark mk)
        | none => .panic .markMisuse σ
      | .noMark => .ret σ .noMark
    | .call f args margs dst =>
      match P.procs[f]? with
      | none => .panic .badProg σ
      | some p =>
        match evalArgs P σ fr args with
        | none => .panic .stuck σ
        | some (vs, σ1) =>
          let (mvs, fr1) := takeMarks fr margs
          let callee : Frame :=
            { locals := vs ++ List.replicate (p.nLocals - vs.length) 0,
              marks := mvs ++ List.replicate (p.nMarks - mvs.length) none }
          let d := σ1.depth + 1
          let σ2 := { σ1 with depth := d, maxDepth := max σ1.maxDepth d }
          let fin (σ' : St) (v : RetV) : Out :=
            match assignDst fr1 dst v with
            | some fr2 => .norm { σ' with depth := σ'.depth - 1 } fr2
            | none => .panic .badProg σ'
          match exec P n p.body σ2 callee with
          | .norm σ' _ => fin σ' .unit
          | .ret σ' v => fin σ' v
          | .brk σ' _ => .panic .badProg σ'
          | o => o

def initSt (toks : List Kind) : St :=
  { toks := toks, pos := 0, la := 0, events := [], errs := [], nextId := 0, depth := 0, maxDepth := 0 }

def hasUndone : List Ev → Bool
  | [] => false
  | .open _ _ false :: _ => true
  | _ :: es => hasUndone es

inductive ParseOut where
  | ok (σ : St)
  | panic (w : Why) (σ : St)
  | oof
deriving Repr, Inhabited

/-- run the main procedure on a token-kind list; a mark that was never finished is `leak` -/
def runMain (P : Prog) (n : Nat) (toks : List Kind) : ParseOut :=
  match exec P n (.call P.main [] [] .none) (initSt toks) { locals := [], marks := [] } with
  | .norm σ _ => if hasUndone σ.events then .panic .leak σ else .ok σ
  | .ret σ _ => .panic .badProg σ
  | .brk σ _ => .panic .badProg σ
  | .panic w σ => .panic w σ
  | .oof => .oof

end Glas.Dsl
