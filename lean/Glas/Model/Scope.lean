/-!
# M-scope: model of `ide/src/def/scope.rs` (`ExprScopes`) and `ide/src/def/resolver.rs`

Function bodies as trees with numbered binders (pattern ids) and numbered variable occurrences.
`buildScopes` mirrors `ExprScopes::{expr_scopes_query, traverse_expr, traverse_expr_stmts,
add_bindings}`: an arena of scopes with parent pointers, entries pushed in traversal order, and a
map from expressions (here: variable occurrences and completion holes) to scopes.
`resolveName` mirrors `Resolver::resolve_name` (innermost scope first, first entry of a scope,
then the module's value table, then built-ins), `namesInScope` mirrors `values_names_in_scope`.
Pattern and expression forms that the Rust code treats identically for scoping are collapsed
(`Pat.node`: tuple / list / constructor fields / alternatives / `as` / concat all add the bindings
of their children in order; `Expr.node`: binary, pipe, tuple, list, spread, field access, tuple
index all traverse their children in the current scope).
-/
namespace Glas.Scope

abbrev Name := String

mutual
  inductive Pat where
    /-- `Pattern::Variable` / a named `Pattern::Spread`: binder with pattern id -/
    | var (id : Nat) (name : Name)
    /-- hole, literal, missing, unnamed spread -/
    | wild
    | node (ps : Pats)
  inductive Pats where
    | nil
    | cons (p : Pat) (ps : Pats)
end

mutual
  inductive Expr where
    | var (occ : Nat) (name : Name)
    /-- a completion point: an expression position whose visible names are asked for -/
    | hole (id : Nat)
    | leaf
    | block (ss : Stmts)
    /-- arguments are traversed before the callee -/
    | call (f : Expr) (args : Exprs)
    | node (es : Exprs)
    | case_ (subjects : Exprs) (clauses : Clauses)
    | lam (params : Pats) (body : Expr)
  inductive Exprs where
    | nil
    | cons (e : Expr) (es : Exprs)
  inductive Stmt where
    | let_ (p : Pat) (e : Expr)
    | use_ (ps : Pats) (e : Expr)
    | expr (e : Expr)
  inductive Stmts where
    | nil
    | cons (s : Stmt) (ss : Stmts)
  inductive Clause where
    | mk (pats : Pats) (body : Expr)
  inductive Clauses where
    | nil
    | cons (c : Clause) (cs : Clauses)
end

structure ScopeData where
  parent : Option Nat
  /-- `(name, pattern id)` in push order -/
  entries : List (Name × Nat)
deriving Repr, DecidableEq, Inhabited

structure Scopes where
  /-- the arena; a scope's id is its index -/
  arena : List ScopeData
  /-- variable occurrence ↦ scope -/
  byOcc : List (Nat × Nat)
  /-- completion hole ↦ scope -/
  byHole : List (Nat × Nat)
deriving Repr, DecidableEq, Inhabited

def Scopes.alloc (S : Scopes) (parent : Option Nat) : Nat × Scopes :=
  (S.arena.length, { S with arena := S.arena ++ [{ parent := parent, entries := [] }] })

def pushEntry : List ScopeData → Nat → Name × Nat → List ScopeData
  | [], _, _ => []
  | d :: ds, 0, e => { d with entries := d.entries ++ [e] } :: ds
  | d :: ds, n + 1, e => d :: pushEntry ds n e

def Scopes.push (S : Scopes) (scope : Nat) (e : Name × Nat) : Scopes :=
  { S with arena := pushEntry S.arena scope e }

mutual
  /-- `ExprScopes::add_bindings` -/
  def addBindings : Pat → Nat → Scopes → Scopes
    | .var id name, sc, S => S.push sc (name, id)
    | .wild, _, S => S
    | .node ps, sc, S => addBindingsList ps sc S
  def addBindingsList : Pats → Nat → Scopes → Scopes
    | .nil, _, S => S
    | .cons p ps, sc, S => addBindingsList ps sc (addBindings p sc S)
end

mutual
  /-- `ExprScopes::traverse_expr` -/
  def traverseExpr : Expr → Nat → Scopes → Scopes
    | .var occ _, sc, S => { S with byOcc := S.byOcc ++ [(occ, sc)] }
    | .hole id, sc, S => { S with byHole := S.byHole ++ [(id, sc)] }
    | .leaf, _, S => S
    | .block ss, sc, S => traverseStmts ss sc S
    | .call f args, sc, S => traverseExpr f sc (traverseExprs args sc S)
    | .node es, sc, S => traverseExprs es sc S
    | .case_ subjects clauses, sc, S => traverseClauses clauses sc (traverseExprs subjects sc S)
    | .lam params body, sc, S =>
      let (bodyScope, S1) := S.alloc (some sc)
      traverseExpr body bodyScope (addBindingsList params bodyScope S1)
  def traverseExprs : Exprs → Nat → Scopes → Scopes
    | .nil, _, S => S
    | .cons e es, sc, S => traverseExprs es sc (traverseExpr e sc S)
  /-- `ExprScopes::traverse_expr_stmts`: `let`/`use` open a new scope for the statements after them -/
  def traverseStmts : Stmts → Nat → Scopes → Scopes
    | .nil, _, S => S
    | .cons (.let_ p e) ss, sc, S =>
      let S1 := traverseExpr e sc S
      let (sc', S2) := S1.alloc (some sc)
      traverseStmts ss sc' (addBindings p sc' S2)
    | .cons (.use_ ps e) ss, sc, S =>
      let S1 := traverseExpr e sc S
      let (sc', S2) := S1.alloc (some sc)
      traverseStmts ss sc' (addBindingsList ps sc' S2)
    | .cons (.expr e) ss, sc, S => traverseStmts ss sc (traverseExpr e sc S)
  def traverseClauses : Clauses → Nat → Scopes → Scopes
    | .nil, _, S => S
    | .cons (.mk pats body) cs, sc, S =>
      let (clauseScope, S1) := S.alloc (some sc)
      traverseClauses cs sc (traverseExpr body clauseScope (addBindingsList pats clauseScope S1))
end

structure Function where
  params : Pats
  body : Expr

/-- `ExprScopes::expr_scopes_query` -/
def buildScopes (f : Function) : Scopes :=
  let S0 : Scopes := { arena := [{ parent := none, entries := [] }], byOcc := [], byHole := [] }
  traverseExpr f.body 0 (addBindingsList f.params 0 S0)

def lookupAssoc : List (Nat × Nat) → Nat → Option Nat
  | [], _ => none
  | (k, v) :: r, x => if k = x then some v else lookupAssoc r x

def findEntry : List (Name × Nat) → Name → Option Nat
  | [], _ => none
  | (n, id) :: r, x => if n = x then some id else findEntry r x

/-- `resolve_name_in_scope`: walk the scope chain (fuel = arena size; parents are older scopes) -/
def resolveChain (arena : List ScopeData) : Nat → Option Nat → Name → Option Nat
  | 0, _, _ => none
  | _, none, _ => none
  | fuel + 1, some sc, name =>
    match arena[sc]? with
    | none => none
    | some d =>
      match findEntry d.entries name with
      | some id => some id
      | none => resolveChain arena fuel d.parent name

inductive Def where
  | local_ (pat : Nat)
  /-- a module-level value: function / constant / constructor / unqualified import, by table index -/
  | modVal (idx : Nat)
  | builtin
deriving Repr, DecidableEq, Inhabited

/-- an entry of the module's value table (`ModuleScope::values`): a function / constant /
constructor (by declaration index), or — because unqualified value imports insert *every* public
declaration of the imported name — a type or type alias, which `resolve_name` and
`values_names_in_scope` skip -/
abbrev ValEntry := Option Nat

/-- `IndexMap::insert`: replaces the value of an existing key in place -/
def insertVal : List (Name × ValEntry) → Name → ValEntry → List (Name × ValEntry)
  | [], n, v => [(n, v)]
  | (k, w) :: r, n, v => if k = n then (k, v) :: r else (k, w) :: insertVal r n v

/-- the table after inserting the declarations in `module_scope_with_map_query`'s order
(unqualified imports, functions, constants, constructors) -/
def buildValues (decls : List (Name × ValEntry)) : List (Name × ValEntry) :=
  decls.foldl (fun acc d => insertVal acc d.1 d.2) []

def findVal : List (Name × ValEntry) → Name → Option ValEntry
  | [], _ => none
  | (n, v) :: r, x => if n = x then some v else findVal r x

/-- `Resolver::resolve_name` -/
def resolveName (S : Scopes) (values : List (Name × ValEntry)) (builtins : List Name) (scope : Option Nat)
    (name : Name) : Option Def :=
  match resolveChain S.arena S.arena.length scope name with
  | some id => some (.local_ id)
  | none =>
    match findVal values name with
    | some (some i) => some (.modVal i)
    | _ => if builtins.contains name then some .builtin else none

def resolveOcc (S : Scopes) (values : List (Name × ValEntry)) (builtins : List Name) (occ : Nat) (name : Name) :
    Option Def :=
  resolveName S values builtins (lookupAssoc S.byOcc occ) name

/-- entries of the scope chain, innermost first, in push order within a scope -/
def chainEntries (arena : List ScopeData) : Nat → Option Nat → List (Name × Nat)
  | 0, _ => []
  | _, none => []
  | fuel + 1, some sc =>
    match arena[sc]? with
    | none => []
    | some d => d.entries ++ chainEntries arena fuel d.parent

def addName (acc : List (Name × Def)) (n : Name) (d : Def) : List (Name × Def) :=
  if acc.any (fun p => p.1 = n) then acc else acc ++ [(n, d)]

/-- `Resolver::values_names_in_scope`: first occurrence of a name wins -/
def namesInScope (S : Scopes) (values : List (Name × ValEntry)) (scope : Option Nat) : List (Name × Def) :=
  let locals := (chainEntries S.arena S.arena.length scope).foldl (fun acc e => addName acc e.1 (.local_ e.2)) []
  values.foldl (fun acc v => match v.2 with
    | some i => addName acc v.1 (.modVal i)
    | none => acc) locals

end Glas.Scope
