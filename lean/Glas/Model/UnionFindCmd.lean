import Glas.Model.UnionFind
/-! Driver command `uf <script>`: the same script language as the hook `ide::verif_union_find_script`. -/
namespace Glas.UFCmd
open Glas.UF

def showTable (t : Table Nat) : String :=
  ",".intercalate (t.map (fun n => (match n.val with | some v => toString v | none => "-") ++ s!"|{n.parent}|{n.rank}"))

def nums (s : String) : Option (List Nat) := (s.splitOn ",").mapM (·.toNat?)

def runOps (t : Table Nat) (out : List String) : List String → Option (Table Nat × List String)
  | [] => some (t, out.reverse)
  | op :: ops =>
    match op.toList with
    | [] => runOps t out ops
    | k :: rest =>
      match k, nums (String.ofList rest) with
      | 'p', some [v] => let (t', i) := push t v; runOps t' (toString i :: out) ops
      | 'f', some [x] => if x < t.length then let (t', r) := find t x (fuelOf t); runOps t' (toString r :: out) ops else none
      | 'g', some [x] => if x < t.length then
          match get t x with
          | (t', some v) => runOps t' (toString v :: out) ops
          | (_, none) => none
        else none
      | 'u', some [a, b] => if a < t.length && b < t.length then
          let (t', r, v) := unify t a b
          runOps t' ((match v with | some v => s!"{r}/{v}" | none => s!"{r}/-") :: out) ops
        else none
      | _, _ => none

def run (args : List String) : Option String :=
  match args with
  | ["uf", script] =>
    match runOps [] [] ((script.splitOn ";").filter (· != "")) with
    | some (t, out) => some (",".intercalate out ++ " # " ++ showTable t)
    | none => some "bad-op"
  | _ => none

end Glas.UFCmd
