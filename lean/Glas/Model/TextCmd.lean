import Glas.Model.Text
import Glas.Model.Proto
/-! Driver commands for M-text (same commands as `harness/src/text.rs`). -/
namespace Glas.TextCmd
open Glas.Text Glas.Proto

def showLC : Option (Nat × Nat) → String
  | some (l, c) => s!"{l}:{c}"
  | none => "!"

def showPos : Option Nat → String
  | some p => toString p
  | none => "!"

def showRes' : Res Nat → String
  | .ok p => toString p
  | .err => "e"
  | .panic => "!"

def showRes : Res (List Char) → String
  | .ok t => "ok " ++ hex t
  | .err => "err"
  | .panic => "PANIC"

/-- `lcall <hex>`: normalised text, then line:col for every byte offset `0 ..= len+1` -/
def lcall (t : List Char) : String :=
  let s := stripCR t
  let m := lineMap s
  let outs := (List.range (u8sum s + 2)).map (fun p => showLC (m.lineColForPos p))
  hex s ++ " " ++ " ".intercalate outs

/-- `rangeall <hex>`: `convert::to_range` (= both ends through `lineColForPos`) for every ordered pair of
character boundaries -/
def rangeall (t : List Char) : String :=
  let s := stripCR t
  let m := lineMap s
  let bs := (List.range (u8sum s + 1)).filter (isBoundary s)
  let outs := bs.zipIdx.flatMap (fun (a, i) => (bs.drop i).map (fun b =>
    showLC (m.lineColForPos a) ++ "-" ++ showLC (m.lineColForPos b)))
  " ".intercalate outs

/-- `posall <hex> <maxline> <maxcol>`: pos for the whole grid -/
def posall (t : List Char) (ml mc : Nat) : String :=
  let m := lineMap (stripCR t)
  let outs := (List.range (ml + 1)).flatMap (fun l =>
    (List.range (mc + 1)).map (fun c => showRes' (m.fromPos l c)))
  " ".intercalate outs

def endcols (t : List Char) (ml : Nat) : String :=
  let m := lineMap (stripCR t)
  toString m.lastLine ++ " " ++
    " ".intercalate ((List.range (ml + 1)).map (fun l => showPos (m.endColForLine l)))

def parseRange (a b c d : String) : Option (Nat × Nat × Nat × Nat) :=
  match nat? a, nat? b, nat? c, nat? d with
  | some a, some b, some c, some d => some (a, b, c, d)
  | _, _, _, _ => none

def parseHl (s : String) : Option (Nat × Nat × Nat) :=
  match s.splitOn ":" with
  | [a, b, c] =>
    match nat? a, nat? b, nat? c with
    | some a, some b, some c => some (a, b, c)
    | _, _, _ => none
  | _ => none

def parseHls (s : String) : Option (List (Nat × Nat × Nat)) :=
  if s = "-" then some [] else (s.splitOn ",").mapM parseHl

def showToks : Option (List SemTok) → String
  | none => "PANIC"
  | some [] => "-"
  | some ts => ",".intercalate (ts.map (fun t => s!"{t.deltaLine}:{t.deltaStart}:{t.length}:{t.type}"))

def run (args : List String) : Option String :=
  match args with
  | ["lcall", h] => (unhex h).map lcall
  | ["rangeall", h] => (unhex h).map rangeall
  | ["posall", h, ml, mc] =>
    match unhex h, nat? ml, nat? mc with
    | some t, some ml, some mc => some (posall t ml mc)
    | _, _, _ => none
  | ["endcols", h, ml] =>
    match unhex h, nat? ml with
    | some t, some ml => some (endcols t ml)
    | _, _ => none
  | ["edit", h, a, b, c, d, ins] =>
    match unhex h, parseRange a b c d, unhex ins with
    | some t, some r, some i => some (showRes (applyChange (stripCR t) (some r) i))
    | _, _, _ => none
  | ["editlc", h, a, b, c, d, ins] =>
    match unhex h, parseRange a b c d, unhex ins with
    | some t, some r, some i =>
      some (match applyChange (stripCR t) (some r) i with
        | .ok t' => "ok " ++ lcall t'
        | .err => "err"
        | .panic => "PANIC")
    | _, _, _ => none
  | ["editfull", _h, ins] => (unhex ins).map (fun i => showRes (applyChange [] none i))
  | ["semtok", h, hls] =>
    match unhex h, parseHls hls with
    | some t, some hs => some (showToks (toSemanticTokens (lineMap (stripCR t)) hs (0, 0) []))
    | _, _ => none
  | _ => none

end Glas.TextCmd
