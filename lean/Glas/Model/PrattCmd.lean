import Glas.Model.Pratt
import Glas.Gen.Parser
/-! Driver command `pratt`: run the shallow Pratt model on an operator string and print the tree in
the format of the harness command `shape` (three-way differential for C04). -/
namespace Glas.PrattCmd
open Glas.Pratt Glas.Gen

def table : Table :=
  { inf := fun k => if S_INFIX_OPS.testBit k then some ((T_infixL[k]?).getD 0, (T_infixR[k]?).getD 0) else none,
    pref := fun k => if S_PREFIX_OPS.testBit k then some ((T_prefixR[k]?).getD 0) else none }

/-- tokens: `a:<name>` or `o:<kind>:<text>` -/
def parseTok (names : List String) (s : String) : Option (Tok × List String) :=
  match s.splitOn ":" with
  | ["a", n] => some (.atom names.length, names ++ [n])
  | ["o", k, t] => k.toNat?.map (fun k => (.op k, names ++ [t]))
  | _ => none

partial def showAst (atomNames : Nat → String) (opText : Nat → String) : Ast → String
  | .atom i => s!"(VARIABLE (NAME_REF '{atomNames i}'))"
  | .pre k e => s!"(UNARY_OP '{opText k}' {showAst atomNames opText e})"
  | .bin k l r =>
    let kind := if k == K_VBAR_GT then "PIPE" else "BINARY_OP"
    s!"({kind} {showAst atomNames opText l} '{opText k}' {showAst atomNames opText r})"

def run (args : List String) : Option String :=
  match args with
  | ["pratt", toks] =>
    let parts := toks.splitOn " "
    let step (acc : Option (List Tok × List String × List (Nat × String))) (p : String) :=
      match acc with
      | none => none
      | some (ts, atoms, ops) =>
        match p.splitOn ":" with
        | ["a", n] => some (ts ++ [.atom atoms.length], atoms ++ [n], ops)
        | ["o", k, t] => k.toNat?.map (fun k => (ts ++ [.op k], atoms, (k, t) :: ops))
        | _ => none
    match parts.foldl step (some ([], [], [])) with
    | none => none
    | some (ts, atoms, ops) =>
      let atomName := fun i => (atoms[i]?).getD "?"
      let opText := fun k => ((ops.find? (fun p => p.1 == k)).map (fun p => p.2)).getD "?"
      match exprBp table (4 * ts.length + 4) 0 ts with
      | some (e, []) => some (showAst atomName opText e)
      | some (_, _) => some "leftover"
      | none => some "none"
  | _ => none

end Glas.PrattCmd
