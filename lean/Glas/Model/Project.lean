/-!
# M-project: paths, module names, package roots (C17)

Paths are lists of components.  Models `ide::base::module_name`, the longest-prefix partition of
`Server::lower_vfs`, the locality rule of `Server::assemble_graph`, and
`server::find_gleam_project_parent` (the filesystem enters as the predicate `hasToml`).
-/
namespace Glas.Project

/-- a path component, as characters (string literals do not reduce in the kernel) -/
abbrev Comp := List Char
abbrev Path := List Comp

def isPrefix : Path → Path → Bool
  | [], _ => true
  | _ :: _, [] => false
  | a :: as, b :: bs => a == b && isPrefix as bs

def gleamExt : List Char := ['.', 'g', 'l', 'e', 'a', 'm']

/-- `stem` if the component is `stem ++ ".gleam"` with a non-empty stem -/
def stripGleam (s : Comp) : Option Comp :=
  if s.length > gleamExt.length && s.drop (s.length - gleamExt.length) == gleamExt then some (s.take (s.length - gleamExt.length)) else none

def joinSlash : List Comp → Comp
  | [] => []
  | [a] => a
  | a :: rest => a ++ '/' :: joinSlash rest

/-- `module_name(root, path)`: strip the root, require the `.gleam` extension, drop the first
component (`src` / `test`), join the rest with `/`.  `none` = not a module (other extension);
the Rust function panics when `path` is not under `root` — that case is `none` here and is never
exercised (files are assigned to roots that are their prefixes) -/
def moduleName (root path : Path) : Option Comp :=
  if !isPrefix root path then none else
  let rel := path.drop root.length
  match rel.reverse with
  | [] => none
  | last :: revInit =>
    match stripGleam last with
    | none => none
    | some stem => some (joinSlash ((revInit.reverse ++ [stem]).drop 1))

/-- `lower_vfs`: a file belongs to the longest root that is a prefix of its path -/
def assignRoot (roots : List Path) (path : Path) : Option Path :=
  let cands := roots.filter (fun r => isPrefix r path)
  cands.foldl (fun best r => match best with
    | none => some r
    | some b => if r.length > b.length then some r else some b) none

/-- `assemble_graph`: a package is external iff it sits in `…/build/packages/<name>` -/
def isLocal (root : Path) : Bool :=
  match root.reverse with
  | _ :: p :: g :: _ => !(p == "packages".toList && g == "build".toList)
  | _ => true

/-- `find_gleam_project_parent(path)`, the filesystem being `hasToml dir` ("dir/gleam.toml is a
file").  `directory` starts as the path itself; at each step `root := parent(directory)`. -/
def findParentLoop (hasToml : Path → Bool) : Nat → Path → Bool → Option Path
  | 0, _, _ => none
  | fuel + 1, directory, isModule =>
    match directory.reverse with
    | [] => none
    | last :: revRoot =>
      let root := revRoot.reverse
      if !hasToml root then findParentLoop hasToml fuel root isModule
      else if isModule && !(last == "test".toList || last == "src".toList) then findParentLoop hasToml fuel root isModule
      else
        match revRoot with
        | _ :: p :: g :: _ =>
          if p == "packages".toList && g == "build".toList then findParentLoop hasToml fuel root false
          else some root
        | _ => some root

def findProjectParent (hasToml : Path → Bool) (path : Path) : Option Path :=
  let isModule := match path.reverse with
    | last :: _ => last.drop (last.length - gleamExt.length) == gleamExt
    | [] => false
  findParentLoop hasToml (path.length + 1) path isModule

end Glas.Project
