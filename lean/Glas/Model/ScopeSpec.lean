import Glas.Model.Scope
/-!
# Gleam's scoping rules stated directly (specification side of C05 / C18)

An environment is a stack of frames, innermost first; a frame lists the binders one construct
introduces, in source order.  `let` and `use` extend the environment for the *following*
statements of their block only; the initialiser is resolved in the unextended environment;
clause patterns, lambda parameters and function parameters open a frame for their body only.
-/
namespace Glas.Scope

abbrev Frame := List (Name × Nat)
abbrev Env := List Frame

mutual
  def patBinders : Pat → Frame
    | .var id name => [(name, id)]
    | .wild => []
    | .node ps => patsBinders ps
  def patsBinders : Pats → Frame
    | .nil => []
    | .cons p ps => patBinders p ++ patsBinders ps
end

/-- innermost frame that binds the name; within a frame the first binder -/
def lookupEnv : Env → Name → Option Nat
  | [], _ => none
  | fr :: env, n =>
    match findEntry fr n with
    | some id => some id
    | none => lookupEnv env n

mutual
  /-- what every variable occurrence is bound to, in traversal order -/
  def specExpr : Expr → Env → List (Nat × Option Nat)
    | .var occ name, env => [(occ, lookupEnv env name)]
    | .hole _, _ => []
    | .leaf, _ => []
    | .block ss, env => specStmts ss env
    | .call f args, env => specExprs args env ++ specExpr f env
    | .node es, env => specExprs es env
    | .case_ subjects clauses, env => specExprs subjects env ++ specClauses clauses env
    | .lam params body, env => specExpr body (patsBinders params :: env)
  def specExprs : Exprs → Env → List (Nat × Option Nat)
    | .nil, _ => []
    | .cons e es, env => specExpr e env ++ specExprs es env
  def specStmts : Stmts → Env → List (Nat × Option Nat)
    | .nil, _ => []
    | .cons (.let_ p e) ss, env => specExpr e env ++ specStmts ss (patBinders p :: env)
    | .cons (.use_ ps e) ss, env => specExpr e env ++ specStmts ss (patsBinders ps :: env)
    | .cons (.expr e) ss, env => specExpr e env ++ specStmts ss env
  def specClauses : Clauses → Env → List (Nat × Option Nat)
    | .nil, _ => []
    | .cons (.mk pats body) cs, env => specExpr body (patsBinders pats :: env) ++ specClauses cs env
end

/-- names visible in an environment with the binder each denotes (innermost shadows outer) -/
def visible (env : Env) : List (Name × Nat) :=
  env.flatten.foldl (fun acc e => if acc.any (fun p => p.1 = e.1) then acc else acc ++ [e]) []

mutual
  /-- the local names visible at every completion hole -/
  def specHoles : Expr → Env → List (Nat × List (Name × Nat))
    | .var _ _, _ => []
    | .hole id, env => [(id, visible env)]
    | .leaf, _ => []
    | .block ss, env => specHolesStmts ss env
    | .call f args, env => specHolesExprs args env ++ specHoles f env
    | .node es, env => specHolesExprs es env
    | .case_ subjects clauses, env => specHolesExprs subjects env ++ specHolesClauses clauses env
    | .lam params body, env => specHoles body (patsBinders params :: env)
  def specHolesExprs : Exprs → Env → List (Nat × List (Name × Nat))
    | .nil, _ => []
    | .cons e es, env => specHoles e env ++ specHolesExprs es env
  def specHolesStmts : Stmts → Env → List (Nat × List (Name × Nat))
    | .nil, _ => []
    | .cons (.let_ p e) ss, env => specHoles e env ++ specHolesStmts ss (patBinders p :: env)
    | .cons (.use_ ps e) ss, env => specHoles e env ++ specHolesStmts ss (patsBinders ps :: env)
    | .cons (.expr e) ss, env => specHoles e env ++ specHolesStmts ss env
  def specHolesClauses : Clauses → Env → List (Nat × List (Name × Nat))
    | .nil, _ => []
    | .cons (.mk pats body) cs, env => specHoles body (patsBinders pats :: env) ++ specHolesClauses cs env
end

mutual
  /-- variable occurrences with their names, in traversal order -/
  def occNames : Expr → List (Nat × Name)
    | .var occ name => [(occ, name)]
    | .hole _ => []
    | .leaf => []
    | .block ss => occNamesStmts ss
    | .call f args => occNamesExprs args ++ occNames f
    | .node es => occNamesExprs es
    | .case_ subjects clauses => occNamesExprs subjects ++ occNamesClauses clauses
    | .lam _ body => occNames body
  def occNamesExprs : Exprs → List (Nat × Name)
    | .nil => []
    | .cons e es => occNames e ++ occNamesExprs es
  def occNamesStmts : Stmts → List (Nat × Name)
    | .nil => []
    | .cons (.let_ _ e) ss => occNames e ++ occNamesStmts ss
    | .cons (.use_ _ e) ss => occNames e ++ occNamesStmts ss
    | .cons (.expr e) ss => occNames e ++ occNamesStmts ss
  def occNamesClauses : Clauses → List (Nat × Name)
    | .nil => []
    | .cons (.mk _ body) cs => occNames body ++ occNamesClauses cs
end

mutual
  def holeIds : Expr → List Nat
    | .var _ _ => []
    | .hole id => [id]
    | .leaf => []
    | .block ss => holeIdsStmts ss
    | .call f args => holeIdsExprs args ++ holeIds f
    | .node es => holeIdsExprs es
    | .case_ subjects clauses => holeIdsExprs subjects ++ holeIdsClauses clauses
    | .lam _ body => holeIds body
  def holeIdsExprs : Exprs → List Nat
    | .nil => []
    | .cons e es => holeIds e ++ holeIdsExprs es
  def holeIdsStmts : Stmts → List Nat
    | .nil => []
    | .cons (.let_ _ e) ss => holeIds e ++ holeIdsStmts ss
    | .cons (.use_ _ e) ss => holeIds e ++ holeIdsStmts ss
    | .cons (.expr e) ss => holeIds e ++ holeIdsStmts ss
  def holeIdsClauses : Clauses → List Nat
    | .nil => []
    | .cons (.mk _ body) cs => holeIds body ++ holeIdsClauses cs
end

/-- what the implementation's data structures answer for every occurrence of a function -/
def implResolveAll (f : Function) : List (Nat × Option Nat) :=
  let S := buildScopes f
  (occNames f.body).map (fun on =>
    (on.1, resolveChain S.arena S.arena.length (lookupAssoc S.byOcc on.1) on.2))

/-- the local part of what `values_names_in_scope` offers at every hole -/
def implHolesAll (f : Function) : List (Nat × List (Name × Nat)) :=
  let S := buildScopes f
  (holeIds f.body).map (fun h =>
    (h, (chainEntries S.arena S.arena.length (lookupAssoc S.byHole h)).foldl
      (fun acc e => if acc.any (fun p => p.1 = e.1) then acc else acc ++ [e]) []))

end Glas.Scope
