/-!
# M-text: model of `glas/src/vfs.rs` (`LineMap`, `Vfs::change_file_content`) and of the position /
range / semantic-token conversions of `glas/src/convert.rs`.

Text is `List Char`; byte offsets are prefix sums of `Char.utf8Size`; UTF-16 columns are prefix
sums of `u16`.  `u32` arithmetic of the Rust code is modelled as *checked* (the server is built
with overflow checks in the dev profile): an underflow/overflow is `none`/`panic`, never a silent
wrap.  Hand-written; tied to the code by the exhaustive correspondence of `tools/text.py`.
-/
namespace Glas.Text

def u8 (c : Char) : Nat := c.utf8Size
def u16 (c : Char) : Nat := if c.val < 0x10000 then 1 else 2
def u8sum (cs : List Char) : Nat := (cs.map u8).sum
def u16sum (cs : List Char) : Nat := (cs.map u16).sum

def U32 : Nat := 4294967296

/-- `text.retain(|c| c != '\r')` -/
def stripCR (t : List Char) : List Char := t.filter (fun c => c != '\r')

/-- lines of a text, split at `'\n'` (the newline belongs to no line) -/
def splitLines : List Char → List (List Char)
  | [] => [[]]
  | c :: cs =>
    match splitLines cs with
    | [] => [[]]
    | l :: ls => if c = '\n' then [] :: l :: ls else (c :: l) :: ls

/-- byte offsets of the line starts, first line starting at `b` -/
def startsFrom : List (List Char) → Nat → List Nat
  | [], _ => []
  | l :: ls, b => b :: startsFrom ls (b + u8sum l + 1)

/-- per-line table of multi-byte characters `(byte position in line, utf8 − utf16 length)` -/
def diffsOf : List Char → Nat → List (Nat × Nat)
  | [], _ => []
  | c :: cs, b =>
    if 2 ≤ u8 c then (b, u8 c - u16 c) :: diffsOf cs (b + u8 c) else diffsOf cs (b + u8 c)

structure LineMap where
  lineStarts : List Nat
  charDiffs  : List (List (Nat × Nat))
  len        : Nat
deriving Repr, DecidableEq

/-- `LineMap::normalize` on an already CR-free text -/
def lineMap (t : List Char) : LineMap :=
  let ls := splitLines t
  { lineStarts := startsFrom ls 0, charDiffs := ls.map (fun l => diffsOf l 0), len := u8sum t }

def LineMap.lastLine (m : LineMap) : Nat := m.lineStarts.length - 1

/-- inner loop of `pos_for_line_col` -/
def posForCol (ds : List (Nat × Nat)) (col : Nat) : Nat :=
  ds.foldl (fun col pd => if pd.1 < col then col + pd.2 else col) col

/-- `LineMap::pos_for_line_col`; `none` = `u32` overflow panic -/
def LineMap.posForLineCol (m : LineMap) (line col : Nat) : Option Nat :=
  let pos := (m.lineStarts[line]?).getD 0
  let ds := (m.charDiffs[line]?).getD []
  let r := pos + posForCol ds col
  if r < U32 then some r else none

/-- `LineMap::line_col_for_pos`; `none` = `u32` underflow panic (offset inside a character) -/
def LineMap.lineColForPos (m : LineMap) (pos : Nat) : Option (Nat × Nat) :=
  let line := (m.lineStarts.takeWhile (fun i => i ≤ pos)).length - 1
  let col := pos - (m.lineStarts[line]?).getD 0
  let ds := (m.charDiffs[line]?).getD []
  let s := ((ds.takeWhile (fun d => d.1 < col)).map (fun d => d.2)).sum
  if s ≤ col then some (line, col - s) else none

/-- `LineMap::end_col_for_line`; `none` = index out of bounds or underflow -/
def LineMap.endColForLine (m : LineMap) (line : Nat) : Option Nat :=
  match m.lineStarts[line]? with
  | none => none
  | some st =>
    let len? : Option Nat :=
      if line + 1 ≥ m.lineStarts.length then
        (if st ≤ m.len then some (m.len - st) else none)
      else
        match m.lineStarts[line + 1]? with
        | none => none
        | some nx => if st + 1 ≤ nx then some (nx - st - 1) else none
    match len? with
    | none => none
    | some len =>
      let s := (((m.charDiffs[line]?).getD []).map (fun d => d.2)).sum
      if s ≤ len then some (len - s) else none

/-- `convert::to_range` -/
def LineMap.toRange (m : LineMap) (s e : Nat) : Option ((Nat × Nat) × (Nat × Nat)) :=
  match m.lineColForPos s, m.lineColForPos e with
  | some a, some b => some (a, b)
  | _, _ => none

inductive Res (α : Type) where
  | ok (a : α)
  | err
  | panic
deriving Repr, DecidableEq

/-- `convert::from_pos`: a line beyond the document is an error; a column beyond the end of the
line is clamped to the line end (LSP rule); then `pos_for_line_col` -/
def LineMap.fromPos (m : LineMap) (line col : Nat) : Res Nat :=
  if line > m.lastLine then .err
  else
    match m.endColForLine line with
    | none => .panic
    | some ec =>
      match m.posForLineCol line (min col ec) with
      | some p => .ok p
      | none => .panic

/-- `convert::from_range`: two `from_pos`; a reversed range is an error -/
def LineMap.fromRange (m : LineMap) (sl sc el ec : Nat) : Res (Nat × Nat) :=
  match m.fromPos sl sc with
  | .err => .err
  | .panic => .panic
  | .ok a =>
    match m.fromPos el ec with
    | .err => .err
    | .panic => .panic
    | .ok b => if a ≤ b then .ok (a, b) else .err

/-- split a text at a byte offset; `none` when the offset is not a character boundary or is
beyond the end (Rust: slicing panics) -/
def splitAtByte : List Char → Nat → Option (List Char × List Char)
  | cs, 0 => some ([], cs)
  | [], _ + 1 => none
  | c :: cs, n + 1 =>
    if u8 c ≤ n + 1 then
      match splitAtByte cs (n + 1 - u8 c) with
      | some (a, b) => some (c :: a, b)
      | none => none
    else none

/-- is the byte offset a character boundary of the text (`str::is_char_boundary`)? -/
def isBoundary (s : List Char) (n : Nat) : Bool := (splitAtByte s n).isSome

/-- `Vfs::change_file_content` with `Some(range)`; the text is the normalised stored text.  The two
`ensure!`s reject a range beyond the text or off a character boundary; slicing then cannot panic
(`change_never_panics`), the `.panic` branch is kept to mirror the code. -/
def changeFileContent (s : List Char) (a b : Nat) (ins : List Char) : Res (List Char) :=
  if b > u8sum s then .err
  else if !(isBoundary s a && isBoundary s b) then .err
  else
    match splitAtByte s a, splitAtByte s b with
    | some (pre, _), some (_, post) => .ok (stripCR (pre ++ ins ++ post))
    | _, _ => .panic

/-- one `TextDocumentContentChangeEvent` as `on_did_change` handles it -/
def applyChange (s : List Char) (range : Option (Nat × Nat × Nat × Nat)) (ins : List Char) :
    Res (List Char) :=
  match range with
  | none => .ok (stripCR ins)
  | some (sl, sc, el, ec) =>
    match (lineMap s).fromRange sl sc el ec with
    | .ok (a, b) => changeFileContent s a b ins
    | .err => .err
    | .panic => .panic

structure SemTok where
  deltaLine : Nat
  deltaStart : Nat
  length : Nat
  type : Nat
deriving Repr, DecidableEq

/-- the `for line in …` loop of `to_semantic_tokens` for one highlight; state = (prevLine, prevStart) -/
def semLines (m : LineMap) (r : (Nat × Nat) × (Nat × Nat)) (ty : Nat) :
    List Nat → (Nat × Nat) → List SemTok → Option ((Nat × Nat) × List SemTok)
  | [], st, acc => some (st, acc)
  | line :: rest, (prevLine, prevStart), acc =>
    let prevStart := if line != prevLine then 0 else prevStart
    match m.endColForLine line with
    | none => none
    | some ec =>
      let start := if line = r.1.1 then max 0 r.1.2 else 0
      let stop := if line = r.2.1 then min ec r.2.2 else ec
      if start = stop then semLines m r ty rest (prevLine, prevStart) acc
      else if line < prevLine ∨ start < prevStart ∨ stop < start then none
      else
        semLines m r ty rest (line, start)
          (acc ++ [{ deltaLine := line - prevLine, deltaStart := start - prevStart,
                     length := stop - start, type := ty }])

/-- `convert::to_semantic_tokens`; highlights are `(start, end, type index)`; `none` = panic -/
def toSemanticTokens (m : LineMap) :
    List (Nat × Nat × Nat) → (Nat × Nat) → List SemTok → Option (List SemTok)
  | [], _, acc => some acc
  | (s, e, ty) :: hls, st, acc =>
    match m.toRange s e with
    | none => none
    | some r =>
      let hi := min r.2.1 m.lastLine
      let lines := (List.range (hi + 1)).drop r.1.1
      match semLines m r ty lines st acc with
      | none => none
      | some (st', acc') => toSemanticTokens m hls st' acc'

/-! ## The LSP client's view (specification side) -/

/-- every `'\r'` is immediately followed by `'\n'` -/
def wfCRLF : List Char → Bool
  | [] => true
  | '\r' :: '\n' :: cs => wfCRLF cs
  | '\r' :: _ => false
  | _ :: cs => wfCRLF cs

/-- client lines: split at `'\n'`, a trailing `'\r'` of a line belongs to the line break -/
def clientLines (c : List Char) : List (List Char) :=
  (splitLines c).map (fun l => l.filter (fun ch => ch != '\r'))

/-- the `(line, UTF-16 column)` an LSP client computes for the character boundary after the
first `k` characters of `t` (a CR-free text) -/
def clientLineCol (t : List Char) (k : Nat) : Nat × Nat :=
  let pre := t.take k
  let ls := splitLines pre
  (ls.length - 1, u16sum (ls.getLast?.getD []))

end Glas.Text
