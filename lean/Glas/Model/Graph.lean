/-!
# M-graph: `Server::assemble_graph` (crates/glas/src/server.rs)

The package graph is assembled by a depth-first walk over the manifests: a package is registered under its name the
first time it is met (`seen`), every declared dependency that is already registered gets an edge at once, one that is
not is assembled first (its manifest read from the directory the layout gives it) and gets its edge afterwards; a
dependency whose manifest cannot be read is skipped (`continue`).  Names stand for directories here: the layout rule
(`build/packages/<name>`, `path = …`) is M-project's subject; a manifest's name is the name it was asked for.
-/
namespace Glas.Graph

/-- the manifests that can be read: package name ↦ declared dependency names in declaration order -/
abbrev Disk := List (Nat × List Nat)

def manifest : Disk → Nat → Option (List Nat)
  | [], _ => none
  | (k, ds) :: r, n => if k = n then some ds else manifest r n

structure G where
  /-- registered packages in registration order (`PackageId` = index) -/
  nodes : List Nat
  /-- `add_dep` calls in order: (package, dependency) -/
  edges : List (Nat × Nat)
deriving Repr, DecidableEq, Inhabited

def G.register (g : G) (n : Nat) : G := if n ∈ g.nodes then g else { g with nodes := g.nodes ++ [n] }
def G.addDep (g : G) (p d : Nat) : G := { g with edges := g.edges ++ [(p, d)] }

mutual
/-- `assemble_graph` for package `n`: `none` = its manifest cannot be read (the `?` on `read_to_string`) or the fuel ran out -/
def assemble (disk : Disk) : Nat → G → Nat → Option G
  | 0, _, _ => none
  | fuel + 1, g, n =>
    match manifest disk n with
    | none => none
    | some deps => some (depsLoop disk fuel (g.register n) n deps)

/-- the loop over the declared dependencies of `p` -/
def depsLoop (disk : Disk) : Nat → G → Nat → List Nat → G
  | _, g, _, [] => g
  | fuel, g, p, d :: ds =>
    if d ∈ g.nodes then depsLoop disk fuel (g.addDep p d) p ds
    else
      match assemble disk fuel g d with
      | some g' => depsLoop disk fuel (g'.addDep p d) p ds
      | none => depsLoop disk fuel g p ds
end

def empty : G := ⟨[], []⟩

/-- declared dependencies of a package (none: no readable manifest) -/
def declared (disk : Disk) (p : Nat) : List Nat := (manifest disk p).getD []

end Glas.Graph
