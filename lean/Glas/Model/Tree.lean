import Glas.Model.Dsl
/-!
# M-syntax, part 2: the tree builder (`Parser::build_tree`) over rowan's `GreenNodeBuilder`

The builder interleaves the raw token list (trivia included) with the event list.  What each
`Open` kind does before/after `start_node`, the predicate and the `+ 1` of `Advance`, the
`events.pop()` and the final flush are a *policy* that `xlate` extracts from the source
(`Glas/Gen/Policy.lean`).  rowan's builder is modelled as a stack of open nodes; its panics
(`finish_node` without a parent, `finish` with other than one root, `tokens.get(pos).unwrap()`)
are explicit.
-/
namespace Glas.Tree
open Glas.Dsl

/-- a raw token: kind and text -/
abbrev RawTok := Kind × List Char

inductive Tree where
  | tok (kind : Kind) (text : List Char)
  | node (kind : Kind) (children : List Tree)
deriving Repr, Inhabited

mutual
  def Tree.leaves : Tree → List RawTok
    | .tok k t => [(k, t)]
    | .node _ cs => leavesList cs
  def leavesList : List Tree → List RawTok
    | [] => []
    | c :: cs => c.leaves ++ leavesList cs
end

inductive Act where
  /-- `eat_token(n_tokens!(pred))` -/
  | eat (pred : Kind → Bool)
  /-- `builder.start_node(kind)` -/
  | start

structure Policy where
  /-- actions for `Event::Open { kind }` -/
  onOpen : Kind → List Act
  /-- predicate of the trivia run eaten before the token of `Event::Advance` -/
  advPred : Kind → Bool
  /-- `eat_token(n_trivias + advExtra)` -/
  advExtra : Nat
  /-- `events.pop()` before the loop -/
  popLast : Bool
  /-- predicate of the final flush, if any -/
  finalFlush : Option (Kind → Bool)
  /-- a trailing `builder.finish_node()` after the loop -/
  finalClose : Bool

inductive BPanic where
  | noToken | finishNoParent | finishNotOne
deriving Repr, DecidableEq, Inhabited

/-- builder state: stack of open nodes (innermost first) with their children so far (reversed),
top-level children (reversed), remaining raw tokens -/
structure B where
  stack : List (Kind × List Tree)
  top : List Tree
  rest : List RawTok
deriving Inhabited

def B.push (b : B) (t : Tree) : B :=
  match b.stack with
  | [] => { b with top := t :: b.top }
  | (k, cs) :: st => { b with stack := (k, t :: cs) :: st }

/-- `eat_token(n_tokens!(pred))`: move the maximal run of `pred` tokens into the tree -/
def eatWhile (pred : Kind → Bool) : Nat → B → B
  | 0, b => b
  | n + 1, b =>
    match b.rest with
    | (k, t) :: r => if pred k then eatWhile pred n ({ b with rest := r }.push (.tok k t)) else b
    | [] => b

def B.eatRun (b : B) (pred : Kind → Bool) : B := eatWhile pred b.rest.length b

/-- eat exactly `n` tokens (`tokens.get(pos).unwrap()`) -/
def eatN : Nat → B → Except BPanic B
  | 0, b => .ok b
  | n + 1, b =>
    match b.rest with
    | (k, t) :: r => eatN n ({ b with rest := r }.push (.tok k t))
    | [] => .error .noToken

def B.startNode (b : B) (k : Kind) : B := { b with stack := (k, []) :: b.stack }

def B.finishNode (b : B) : Except BPanic B :=
  match b.stack with
  | [] => .error .finishNoParent
  | (k, cs) :: st => .ok ({ b with stack := st }.push (.node k cs.reverse))

def runActs (k : Kind) : List Act → B → B
  | [], b => b
  | .eat p :: as, b => runActs k as (b.eatRun p)
  | .start :: as, b => runActs k as (b.startNode k)

def stepEv (π : Policy) (b : B) : Ev → Except BPanic B
  | .open k _ _ => .ok (runActs k (π.onOpen k) b)
  | .close => b.finishNode
  | .adv => eatN π.advExtra (b.eatRun π.advPred)

def runEvs (π : Policy) : List Ev → B → Except BPanic B
  | [], b => .ok b
  | e :: es, b =>
    match stepEv π b e with
    | .ok b' => runEvs π es b'
    | .error p => .error p

def buildTree (π : Policy) (evs : List Ev) (raw : List RawTok) : Except BPanic Tree :=
  let evs := if π.popLast then evs.dropLast else evs
  match runEvs π evs { stack := [], top := [], rest := raw } with
  | .error p => .error p
  | .ok b =>
    let b := match π.finalFlush with
      | some p => b.eatRun p
      | none => b
    let fin : Except BPanic B := if π.finalClose then b.finishNode else .ok b
    match fin with
    | .error p => .error p
    | .ok b =>
      match b.stack, b.top with
      | [], [t] => .ok t
      | _, _ => .error .finishNotOne

end Glas.Tree
