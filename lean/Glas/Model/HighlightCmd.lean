import Glas.Model.Highlight
import Glas.Gen.Highlight
/-! Driver command `hltag`: the tag the regenerated table gives an identifier. -/
namespace Glas.HighlightCmd
open Glas.Highlight Glas.Gen

def glasTag (c : Ctx) : Option String := tagOf hlNameRefRules hlLocalFnTag hlVariantNameTag c

def run (args : List String) : Option String :=
  match args with
  | ["hltag", parent, kind, isfn] =>
    let p : Option Parent := if parent == "nameref" then some .nameRef else if parent == "variantname" then some .variantName
      else if parent == "othername" then some .otherName else if parent == "other" then some .other else none
    p.map (fun p => (glasTag { parent := p, defKind := if kind == "-" then none else some kind, localIsFn := isfn == "1" }).getD "none")
  | _ => none

end Glas.HighlightCmd
