import Glas.Model.UnionFind
/-!
# M-collect: freezing the type variables of one inference run (crates/ide/src/ty/infer.rs, `Collector`)

After the functions of a recursion group are inferred, `finish_infer` turns every type variable of
the shared union-find table into an immutable type.  Unification has no occurs check, so the table
may describe a *cyclic* type; `Collector::collect` stays finite because it writes the placeholder
`Unknown` into its cache for the class it is working on *before* it descends into the children, and
a class met again on the way down answers with that placeholder.

The model keeps the table immutable (`find`'s path compression does not change any class, theorem
`find_spec`; the `mem::replace` of the entry under work is never observed, because the cache answers
first) and threads the collector's own state: cache, letters given to unknowns, next letter.
-/
namespace Glas.Collect
open Glas.UF

/-- a type of the inference table: children are type variables -/
inductive N where
  | unk (idx : Nat)
  | base (k : Nat)                      -- 0 Nil, 1 Bool, 2 Int, 3 Float, 4 String, 5 BitArray
  | result (ok err : Nat)
  | list (of : Nat)
  | tuple (fs : List Nat)
  | fn (ps : List Nat) (ret : Nat)
  | adt (id : Nat) (ps : List Nat)
deriving Repr, DecidableEq, Inhabited

/-- a frozen type.  Argument lists are spelt with `anil`/`acons` so that the type is not nested
(decidable equality, evaluation in the kernel) -/
inductive T where
  | unknown
  | generic (letter : Nat)
  | base (k : Nat)
  | result (ok err : T)
  | list (of : T)
  | tuple (fs : T)
  | fn (ps : T) (ret : T)
  | adt (id : Nat) (ps : T)
  | anil
  | acons (hd tl : T)
deriving Repr, DecidableEq, Inhabited

structure St where
  cache : List (Option T)       -- per class root
  env : List (Nat × Nat)        -- unknown idx ↦ letter
  uid : Nat
deriving Repr, DecidableEq, Inhabited

inductive Res (α : Type) where
  | ok (v : α) (st : St)
  | oof                          -- the model ran out of fuel
  | bad                          -- an index outside the table / a root without a value (a panic in Rust)
deriving Repr, DecidableEq, Inhabited

def N.children : N → List Nat
  | .result a b => [a, b]
  | .list a => [a]
  | .tuple fs => fs
  | .fn ps r => ps ++ [r]
  | .adt _ ps => ps
  | _ => []

def rootOf (tbl : Table N) (x : Nat) : Nat := root tbl x (fuelOf tbl)

def setCache (st : St) (i : Nat) (t : T) : St := { st with cache := st.cache.set i (some t) }

/-- the letter of an unknown: the one it already has, or the next one -/
def letterOf (st : St) (idx : Nat) : Nat × St :=
  match st.env.lookup idx with
  | some l => (l, st)
  | none => (st.uid, { st with env := (idx, st.uid) :: st.env, uid := st.uid + 1 })

/-- the children of a node, left to right, with the state threaded through -/
def collectList (rec : Nat → St → Res T) : List Nat → St → Res T
  | [], st => .ok .anil st
  | v :: vs, st =>
    match rec v st with
    | .ok t st1 =>
      match collectList rec vs st1 with
      | .ok ts st2 => .ok (.acons t ts) st2
      | .oof => .oof
      | .bad => .bad
    | .oof => .oof
    | .bad => .bad

/-- the arms of `collect_uncached`: the children are frozen left to right by `rec` (the collector itself) -/
def collectNode (rec : Nat → St → Res T) (node : N) (st1 : St) : Res T :=
  match node with
  | .unk idx => let (l, st2) := letterOf st1 idx; .ok (.generic l) st2
  | .base k => .ok (.base k) st1
  | .result a b =>
    match rec a st1 with
    | .ok ta st2 =>
      match rec b st2 with
      | .ok tb st3 => .ok (.result ta tb) st3
      | .oof => .oof
      | .bad => .bad
    | .oof => .oof
    | .bad => .bad
  | .list a =>
    match rec a st1 with
    | .ok ta st2 => .ok (.list ta) st2
    | .oof => .oof
    | .bad => .bad
  | .tuple fs =>
    match collectList rec fs st1 with
    | .ok ts st2 => .ok (.tuple ts) st2
    | .oof => .oof
    | .bad => .bad
  | .fn ps ret =>
    match collectList rec ps st1 with
    | .ok ts st2 =>
      match rec ret st2 with
      | .ok tr st3 => .ok (.fn ts tr) st3
      | .oof => .oof
      | .bad => .bad
    | .oof => .oof
    | .bad => .bad
  | .adt id ps =>
    match collectList rec ps st1 with
    | .ok ts st2 => .ok (.adt id ts) st2
    | .oof => .oof
    | .bad => .bad

/-- `Collector::collect` (and `collect_uncached`) -/
def collect (tbl : Table N) : Nat → Nat → St → Res T
  | 0, _, _ => .oof
  | fuel + 1, x, st =>
    if x < tbl.length then
      let i := rootOf tbl x
      match st.cache[i]? with
      | none => .bad
      | some (some t) => .ok t st
      | some none =>
        match valOf tbl i with
        | none => .bad
        | some node =>
          -- the placeholder goes into the cache first: prevent cycles
          match collectNode (collect tbl fuel) node (setCache st i .unknown) with
          | .ok t st' => .ok t (setCache st' i t)
          | .oof => .oof
          | .bad => .bad
    else .bad

/-- `Collector::new` -/
def initSt (tbl : Table N) : St := { cache := List.replicate tbl.length none, env := [], uid := 0 }

/-- the number of classes the collector has not started yet -/
def pending (st : St) : Nat := (st.cache.filter (· == none)).length

/-- every child mentioned by a value of the table is a variable of the table -/
def Closed (tbl : Table N) : Prop :=
  ∀ i n, valOf tbl i = some n → ∀ c ∈ n.children, c < tbl.length

/-- enough fuel for any table of this size -/
def fuelFor (tbl : Table N) : Nat := tbl.length + 1

/-- a run: collect the variables in the given order with one collector -/
def collectAll (tbl : Table N) : List Nat → St → List T → Res (List T)
  | [], st, acc => .ok acc.reverse st
  | x :: xs, st, acc =>
    match collect tbl (fuelFor tbl) x st with
    | .ok t st' => collectAll tbl xs st' (t :: acc)
    | .oof => .oof
    | .bad => .bad

end Glas.Collect
