/-!
# M-uf: the union-find table of type inference (crates/ide/src/ty/union_find.rs)

A table of `(value, parent, rank)`; `find` with path compression, `unify` = union by rank where
the surviving root keeps the value of the LEFT class and the value of the right class is handed
back to the caller (type unification then merges the two).
-/
namespace Glas.UF

structure Node (α : Type) where
  val : Option α
  parent : Nat
  rank : Nat
deriving Repr, DecidableEq, Inhabited

abbrev Table (α : Type) := List (Node α)

def parentOf {α} (t : Table α) (x : Nat) : Nat := (t[x]?.map (·.parent)).getD x
def rankOf {α} (t : Table α) (x : Nat) : Nat := (t[x]?.map (·.rank)).getD 0
def valOf {α} (t : Table α) (x : Nat) : Option α := (t[x]?.map (·.val)).getD none

def modifyAt {α} (f : Node α → Node α) : Table α → Nat → Table α
  | [], _ => []
  | n :: ns, 0 => f n :: ns
  | n :: ns, i + 1 => n :: modifyAt f ns i

def setParent {α} (t : Table α) (x p : Nat) : Table α := modifyAt (fun n => { n with parent := p }) t x
def setVal {α} (t : Table α) (x : Nat) (v : Option α) : Table α := modifyAt (fun n => { n with val := v }) t x
def bumpRank {α} (t : Table α) (x : Nat) : Table α := modifyAt (fun n => { n with rank := n.rank + 1 }) t x

def push {α} (t : Table α) (v : α) : Table α × Nat := (t ++ [{ val := some v, parent := t.length, rank := 0 }], t.length)

/-- the root of `x` without touching the table (specification of `find`) -/
def root {α} (t : Table α) (x : Nat) : Nat → Nat
  | 0 => x
  | fuel + 1 => let p := parentOf t x; if p == x then x else root t p fuel

/-- `UnionFind::find`: returns the root and compresses the path -/
def find {α} (t : Table α) (x : Nat) : Nat → Table α × Nat
  | 0 => (t, x)
  | fuel + 1 =>
    let p := parentOf t x
    if p == x then (t, x)
    else
      let (t', r) := find t p fuel
      (setParent t' x r, r)

def maxRank {α} (t : Table α) : Nat := t.foldl (fun m n => max m n.rank) 0

/-- enough fuel for every path: ranks strictly increase along parent pointers -/
def fuelOf {α} (t : Table α) : Nat := maxRank t + 1

/-- `UnionFind::unify`: (table, surviving root, value of the right class if the classes were distinct) -/
def unify {α} (t : Table α) (a b : Nat) : Table α × Nat × Option α :=
  let (t1, ra) := find t a (fuelOf t)
  let (t2, rb) := find t1 b (fuelOf t1)
  if ra == rb then (t2, ra, none)
  else
    let lhs := valOf t2 ra
    let rhs := valOf t2 rb
    let t3 := setVal (setVal t2 ra none) rb none
    if rankOf t3 ra < rankOf t3 rb then
      (setVal (setParent t3 ra rb) rb lhs, rb, rhs)
    else if rankOf t3 rb < rankOf t3 ra then
      (setVal (setParent t3 rb ra) ra lhs, ra, rhs)
    else
      (setVal (bumpRank (setParent t3 ra rb) rb) rb lhs, rb, rhs)

/-- `get_mut`: the value of `x`'s class -/
def get {α} (t : Table α) (x : Nat) : Table α × Option α :=
  let (t', r) := find t x (fuelOf t)
  (t', valOf t' r)

/-- well-formedness: parents are in range, ranks strictly increase towards the root, exactly the
roots carry a value -/
def WF {α} (t : Table α) : Prop :=
  ∀ i, i < t.length →
    parentOf t i < t.length ∧
    (parentOf t i ≠ i → rankOf t i < rankOf t (parentOf t i)) ∧
    (parentOf t i = i → (valOf t i).isSome = true)

end Glas.UF
