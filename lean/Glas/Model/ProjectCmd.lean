import Glas.Model.Project
/-! Driver commands for M-project. Paths are `/`-separated absolute paths. -/
namespace Glas.ProjectCmd
open Glas.Project

def toPath (s : String) : Path := ((s.splitOn "/").filter (fun c => c != "")).map (fun c => c.toList)
def showPath (p : Path) : String := "/" ++ "/".intercalate (p.map String.ofList)

def run (args : List String) : Option String :=
  match args with
  | ["modname", root, path] =>
    some (match moduleName (toPath root) (toPath path) with
      | some n => "some " ++ String.ofList n
      | none => "none")
  | ["assign", roots, path] =>
    let rs := (roots.splitOn ",").map toPath
    some (match assignRoot rs (toPath path) with
      | some r => showPath r
      | none => "none")
  | ["islocal", root] => some (if isLocal (toPath root) then "local" else "external")
  | ["projparent", tomls, path] =>
    let ts := if tomls == "-" then [] else (tomls.splitOn ",").map toPath
    some (match findProjectParent (fun d => ts.contains d) (toPath path) with
      | some r => showPath r
      | none => "none")
  | _ => none

end Glas.ProjectCmd
