import Glas.Model.Project
import Glas.Model.Graph
/-! Driver commands for M-project. Paths are `/`-separated absolute paths. -/
namespace Glas.ProjectCmd
open Glas.Project

def toPath (s : String) : Path := ((s.splitOn "/").filter (fun c => c != "")).map (fun c => c.toList)
def showPath (p : Path) : String := "/" ++ "/".intercalate (p.map String.ofList)

def run (args : List String) : Option String :=
  match args with
  | ["modname", root, path] =>
    some (match moduleName (toPath root) (toPath path) with
      | some n => "some " ++ String.ofList n
      | none => "none")
  | ["assign", roots, path] =>
    let rs := (roots.splitOn ",").map toPath
    some (match assignRoot rs (toPath path) with
      | some r => showPath r
      | none => "none")
  | ["islocal", root] => some (if isLocal (toPath root) then "local" else "external")
  | ["projparent", tomls, path] =>
    let ts := if tomls == "-" then [] else (tomls.splitOn ",").map toPath
    some (match findProjectParent (fun d => ts.contains d) (toPath path) with
      | some r => showPath r
      | none => "none")
  | ["graph", root, spec] =>
    -- spec: `n:d,d;n:;…` (package number : declared dependency numbers); answer: `n:[d,d] …` for the registered packages
    let parseOne (e : String) : Option (Nat × List Nat) :=
      match e.splitOn ":" with
      | [n, ds] => match n.toNat?, (if ds == "" then some [] else (ds.splitOn ",").mapM (fun x => x.toNat?)) with
        | some n, some ds => some (n, ds)
        | _, _ => none
      | _ => none
    match root.toNat?, (if spec == "-" then some [] else (spec.splitOn ";").mapM parseOne) with
    | some r, some disk =>
      some (match Glas.Graph.assemble disk (disk.length + 2) Glas.Graph.empty r with
        | none => "err"
        | some g =>
          let insertSorted (x : Nat) (l : List Nat) : List Nat := (l.filter (· < x)) ++ [x] ++ (l.filter (fun y => !(y < x)))
          let sortN (l : List Nat) : List Nat := l.foldr insertSorted []
          "ok " ++ " ".intercalate ((sortN g.nodes).map (fun n =>
            s!"{n}:[{",".intercalate ((sortN ((g.edges.filter (fun e => e.1 == n)).map (·.2))).map toString)}]")))
    | _, _ => none
  | _ => none

end Glas.ProjectCmd
