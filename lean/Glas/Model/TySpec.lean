/-!
# M-tyspec: Gleam's typing rules for the supported core, and a checker for type assignments

`HasType` is the declarative rule set ("the type Gleam assigns") for a core language: literals,
operators, tuples and indexing, lists and spreads, the Result/Bool/Nil built-ins, custom types
with generic parameters, field access, labelled arguments in any order, lambdas, pipelines, case
with several subjects, calls of polymorphic functions.  An *assignment* gives every top-level
function a type scheme and every local binder (let / pattern / parameter variable) a type.
`checkFn` decides whether a function body is well typed under an assignment; its soundness with
respect to `HasType` is proved in Props/C09.lean.  The checker is run on the assignments glas
displays (hover) and on the assignments the generator expects.
-/
namespace Glas.TySpec

inductive Ty where
  | int | float | string | bool | nil | bitArray
  | list (t : Ty)
  | result (ok err : Ty)
  | tuple (ts : List Ty)
  | fn (ps : List Ty) (ret : Ty)
  | adt (name : String) (args : List Ty)
  | gen (name : String)
deriving Repr, Inhabited

mutual
def Ty.beq : Ty → Ty → Bool
  | .int, .int | .float, .float | .string, .string | .bool, .bool | .nil, .nil | .bitArray, .bitArray => true
  | .list a, .list b => Ty.beq a b
  | .result a b, .result c d => Ty.beq a c && Ty.beq b d
  | .tuple as, .tuple bs => Ty.beqs as bs
  | .fn ps r, .fn qs s => Ty.beqs ps qs && Ty.beq r s
  | .adt n as, .adt m bs => n == m && Ty.beqs as bs
  | .gen n, .gen m => n == m
  | _, _ => false
def Ty.beqs : List Ty → List Ty → Bool
  | [], [] => true
  | a :: as, b :: bs => Ty.beq a b && Ty.beqs as bs
  | _, _ => false
end

abbrev Subst := List (String × Ty)

mutual
/-- does the type mention a variable that `bound` does not list -/
def Ty.openVar (bound : List String) : Ty → Bool
  | .gen n => !bound.contains n
  | .list t => Ty.openVar bound t
  | .result a b => Ty.openVar bound a || Ty.openVar bound b
  | .tuple ts => Ty.openVars bound ts
  | .fn ps r => Ty.openVars bound ps || Ty.openVar bound r
  | .adt _ as => Ty.openVars bound as
  | _ => false
def Ty.openVars (bound : List String) : List Ty → Bool
  | [] => false
  | t :: ts => Ty.openVar bound t || Ty.openVars bound ts
end

def substTy (σ : Subst) : Ty → Ty
  | .gen n => (σ.lookup n).getD (.gen n)
  | .list t => .list (substTy σ t)
  | .result a b => .result (substTy σ a) (substTy σ b)
  | .tuple ts => .tuple (ts.map (substTy σ))
  | .fn ps r => .fn (ps.map (substTy σ)) (substTy σ r)
  | .adt n as => .adt n (as.map (substTy σ))
  | t => t

/-- one-way matching of a scheme against a type: only a heuristic for finding an instantiation,
nothing is proved about it (the checker re-checks under the instantiation found) -/
def matchTy : Nat → Ty → Ty → Subst → Option Subst
  | 0, _, _, _ => none
  | fuel + 1, pat, tgt, σ =>
    let rec go (ps ts : List Ty) (σ : Subst) : Option Subst :=
      match ps, ts with
      | [], [] => some σ
      | p :: ps, t :: ts => match matchTy fuel p t σ with
        | some σ' => go ps ts σ'
        | none => none
      | _, _ => none
    match pat, tgt with
    | .gen n, t => match σ.lookup n with
      | some t' => if Ty.beq t' t then some σ else none
      | none => some ((n, t) :: σ)
    | .list a, .list b => matchTy fuel a b σ
    | .result a b, .result c d => match matchTy fuel a c σ with
      | some σ' => matchTy fuel b d σ'
      | none => none
    | .tuple as, .tuple bs => go as bs σ
    | .fn ps r, .fn qs s => match go ps qs σ with
      | some σ' => matchTy fuel r s σ'
      | none => none
    | .adt n as, .adt m bs => if n == m then go as bs σ else none
    | a, b => if Ty.beq a b then some σ else none

/-! Heuristics for finding the type of a `case` or a list whose members determine it only jointly
(`Ok(1)` in one branch, `Error("e")` in another).  Nothing is proved about them: whatever type they
propose is re-checked against every member. -/

def isWild (n : String) : Bool := n.startsWith "?"

mutual
/-- rename the variables of a scheme that an instantiation leaves open to wildcards -/
def Ty.wilden (bound : List String) : Ty → Ty
  | .gen n => if bound.contains n then .gen n else .gen ("?" ++ n)
  | .list t => .list (Ty.wilden bound t)
  | .result a b => .result (Ty.wilden bound a) (Ty.wilden bound b)
  | .tuple ts => .tuple (Ty.wildens bound ts)
  | .fn ps r => .fn (Ty.wildens bound ps) (Ty.wilden bound r)
  | .adt n as => .adt n (Ty.wildens bound as)
  | t => t
def Ty.wildens (bound : List String) : List Ty → List Ty
  | [] => []
  | t :: ts => Ty.wilden bound t :: Ty.wildens bound ts
end

mutual
def Ty.hasWild : Ty → Bool
  | .gen n => isWild n
  | .list t => Ty.hasWild t
  | .result a b => Ty.hasWild a || Ty.hasWild b
  | .tuple ts => Ty.hasWilds ts
  | .fn ps r => Ty.hasWilds ps || Ty.hasWild r
  | .adt _ as => Ty.hasWilds as
  | _ => false
def Ty.hasWilds : List Ty → Bool
  | [] => false
  | t :: ts => Ty.hasWild t || Ty.hasWilds ts
end

/-- merge two partial types: a wildcard gives way to the other side -/
def joinTy : Nat → Ty → Ty → Option Ty
  | 0, _, _ => none
  | fuel + 1, a, b =>
    let rec go (as bs : List Ty) : Option (List Ty) :=
      match as, bs with
      | [], [] => some []
      | x :: xs, y :: ys => match joinTy fuel x y, go xs ys with
        | some z, some zs => some (z :: zs)
        | _, _ => none
      | _, _ => none
    match a, b with
    | .gen n, t => if isWild n then some t else (match t with
        | .gen m => if isWild m || n == m then some (.gen n) else none
        | _ => none)
    | t, .gen m => if isWild m then some t else none
    | .list x, .list y => (joinTy fuel x y).map .list
    | .result x y, .result z w => match joinTy fuel x z, joinTy fuel y w with
      | some p, some q => some (.result p q)
      | _, _ => none
    | .tuple xs, .tuple ys => (go xs ys).map .tuple
    | .fn ps r, .fn qs s => match go ps qs, joinTy fuel r s with
      | some zs, some z => some (.fn zs z)
      | _, _ => none
    | .adt n xs, .adt m ys => if n == m then (go xs ys).map (.adt n) else none
    | x, y => if Ty.beq x y then some x else none

def joinAll (ts : List Ty) : Option Ty :=
  match ts with
  | [] => none
  | t :: rest => rest.foldl (fun acc u => match acc with
      | some a => (match joinTy 64 a u with | some j => some j | none => some a)
      | none => none) (some t)

inductive Op where
  | intArith | floatArith | intCmp | floatCmp | eq | concat
deriving Repr, DecidableEq, Inhabited

inductive PTail where
  | none | discard | bind (id : Nat)
deriving Repr, DecidableEq, Inhabited

inductive Pat where
  | var (id : Nat)
  | discard
  | int | float | string
  | tuple (ps : List Pat)
  | list (ps : List Pat) (tail : PTail)
  | ctor (name : String) (args : List (Option String × Pat))
  | as_ (p : Pat) (id : Nat)
deriving Repr, Inhabited

inductive Expr where
  | int | float | str
  | var (id : Nat)
  | fnref (name : String)
  | ctor (name : String)
  | call (f : Expr) (args : List (Option String × Expr))
  | binop (op : Op) (l r : Expr)
  | tuple (es : List Expr)
  | index (e : Expr) (i : Nat)
  | list (es : List Expr)
  | listTail (es : List Expr) (tail : Expr)
  | case (subjects : List Expr) (clauses : List (List Pat × Expr))
  | lambda (params : List Nat) (body : Expr)
  /-- statements: `(some p, e)` is `let p = e`, `(none, e)` an expression statement; the value
  is the one of the last statement -/
  | block (stmts : List (Option Pat × Expr))
  | field (e : Expr) (label : String)
  | pipe (l r : Expr)
deriving Repr, Inhabited

structure Variant where
  name : String
  fields : List (Option String × Ty)
deriving Repr, Inhabited

structure Adt where
  name : String
  params : List String
  variants : List Variant
deriving Repr, Inhabited

structure FnSig where
  name : String
  labels : List (Option String)
  /-- the scheme: a function type whose `gen`s are the quantified variables -/
  ty : Ty
deriving Repr, Inhabited

structure Decls where
  adts : List Adt
  fns : List FnSig
  locals : List (Nat × Ty)
deriving Repr, Inhabited

def Decls.local? (D : Decls) (id : Nat) : Option Ty := D.locals.lookup id
def Decls.fn? (D : Decls) (name : String) : Option FnSig := D.fns.find? (·.name == name)

/-- labels, field types and result type of a constructor (built-ins included) -/
def ctorScheme (D : Decls) (name : String) : Option (List (Option String) × List Ty × Ty) :=
  if name == "Ok" then some ([none], [.gen "a"], .result (.gen "a") (.gen "b"))
  else if name == "Error" then some ([none], [.gen "b"], .result (.gen "a") (.gen "b"))
  else if name == "Nil" then some ([], [], .nil)
  else if name == "True" || name == "False" then some ([], [], .bool)
  else
    (D.adts.findSome? (fun a => (a.variants.find? (·.name == name)).map (fun v => (a, v)))).map
      (fun (a, v) => (v.fields.map (·.1), v.fields.map (·.2), .adt a.name (a.params.map .gen)))

/-- type of field `label` of a custom type (looked up in its first variant carrying the label),
over the type's parameters -/
def fieldTy (D : Decls) (adt label : String) : Option (List String × Ty) :=
  (D.adts.find? (·.name == adt)).bind (fun a =>
    (a.variants.findSome? (fun v => (v.fields.find? (fun f => f.1 == some label)).map (·.2))).map (fun t => (a.params, t)))

/-- labels a callee declares for its parameters (`[]`: none known, positional call) -/
def labelsOf (D : Decls) : Expr → List (Option String)
  | .fnref n => ((D.fn? n).map (·.labels)).getD []
  | .ctor n => ((ctorScheme D n).map (·.1)).getD []
  | _ => []

/-- put labelled arguments into the declared order: a labelled argument goes to the slot of its
label, unlabelled ones fill the remaining slots from the left.  `none` if a label is unknown, a
slot is filled twice or the count is wrong. -/
def placeLabelled {α} (labels : List (Option String)) (slots : List (Option α)) : List (Option String × α) → Option (List (Option α))
  | [] => some slots
  | (none, _) :: rest => placeLabelled labels slots rest
  | (some l, a) :: rest =>
    match labels.findIdx? (· == some l) with
    | none => none
    | some i => match slots[i]? with
      | some none => placeLabelled labels (slots.set i (some a)) rest
      | _ => none

def fillPositional {α} : List (Option α) → List α → Option (List α)
  | [], [] => some []
  | [], _ :: _ => none
  | some a :: slots, pos => (fillPositional slots pos).map (a :: ·)
  | none :: slots, p :: pos => (fillPositional slots pos).map (p :: ·)
  | none :: _, [] => none

def orderArgs {α} (labels : List (Option String)) (n : Nat) (args : List (Option String × α)) : Option (List α) :=
  if args.all (·.1.isNone) then (if args.length == n then some (args.map (·.2)) else none)
  else
    let labels := labels ++ List.replicate (n - labels.length) none
    match placeLabelled labels (List.replicate n none) args with
    | none => none
    | some slots => fillPositional slots ((args.filter (·.1.isNone)).map (·.2))

/-! ## declarative typing -/

inductive PatOk (D : Decls) : Pat → Ty → Prop where
  | var (i : Nat) (t : Ty) : D.local? i = some t → PatOk D (.var i) t
  | discard (t : Ty) : PatOk D .discard t
  | int : PatOk D .int .int
  | float : PatOk D .float .float
  | string : PatOk D .string .string
  | tuple (ps : List Pat) (ts : List Ty) : ps.length = ts.length →
      (∀ (i : Nat) p t, ps[i]? = some p → ts[i]? = some t → PatOk D p t) → PatOk D (.tuple ps) (.tuple ts)
  | list (ps : List Pat) (tail : PTail) (t : Ty) : (∀ p, p ∈ ps → PatOk D p t) →
      (∀ i, tail = .bind i → D.local? i = some (.list t)) → PatOk D (.list ps tail) (.list t)
  | ctor (name : String) (args : List (Option String × Pat)) (labels : List (Option String)) (fts : List Ty) (r : Ty)
      (σ : Subst) (ps : List Pat) :
      ctorScheme D name = some (labels, fts, r) → orderArgs labels fts.length args = some ps →
      (∀ (i : Nat) p t, ps[i]? = some p → fts[i]? = some t → PatOk D p (substTy σ t)) →
      PatOk D (.ctor name args) (substTy σ r)
  | as_ (p : Pat) (i : Nat) (t : Ty) : PatOk D p t → D.local? i = some t → PatOk D (.as_ p i) t

def opTypes : Op → Option (Ty × Ty)
  | .intArith => some (.int, .int)
  | .floatArith => some (.float, .float)
  | .intCmp => some (.int, .bool)
  | .floatCmp => some (.float, .bool)
  | .concat => some (.string, .string)
  | .eq => none

inductive HasType (D : Decls) : Expr → Ty → Prop where
  | int : HasType D .int .int
  | float : HasType D .float .float
  | str : HasType D .str .string
  | var (i : Nat) (t : Ty) : D.local? i = some t → HasType D (.var i) t
  | fnref (n : String) (sig : FnSig) (σ : Subst) : D.fn? n = some sig → HasType D (.fnref n) (substTy σ sig.ty)
  | ctorConst (n : String) (labels : List (Option String)) (r : Ty) (σ : Subst) :
      ctorScheme D n = some (labels, [], r) → HasType D (.ctor n) (substTy σ r)
  | ctorFn (n : String) (labels : List (Option String)) (fts : List Ty) (r : Ty) (σ : Subst) :
      ctorScheme D n = some (labels, fts, r) → fts ≠ [] → HasType D (.ctor n) (substTy σ (.fn fts r))
  | call (f : Expr) (args : List (Option String × Expr)) (ps : List Ty) (r : Ty) (es : List Expr) :
      HasType D f (.fn ps r) → orderArgs (labelsOf D f) ps.length args = some es →
      (∀ (i : Nat) e t, es[i]? = some e → ps[i]? = some t → HasType D e t) → HasType D (.call f args) r
  | binop (op : Op) (l r : Expr) (a b : Ty) : opTypes op = some (a, b) → HasType D l a → HasType D r a →
      HasType D (.binop op l r) b
  | eq (l r : Expr) (t : Ty) : HasType D l t → HasType D r t → HasType D (.binop .eq l r) .bool
  | tuple (es : List Expr) (ts : List Ty) : es.length = ts.length →
      (∀ (i : Nat) e t, es[i]? = some e → ts[i]? = some t → HasType D e t) → HasType D (.tuple es) (.tuple ts)
  | index (e : Expr) (i : Nat) (ts : List Ty) (t : Ty) : HasType D e (.tuple ts) → ts[i]? = some t → HasType D (.index e i) t
  | list (es : List Expr) (t : Ty) : (∀ e, e ∈ es → HasType D e t) → HasType D (.list es) (.list t)
  | listTail (es : List Expr) (tail : Expr) (t : Ty) : (∀ e, e ∈ es → HasType D e t) → HasType D tail (.list t) →
      HasType D (.listTail es tail) (.list t)
  | case (subjects : List Expr) (clauses : List (List Pat × Expr)) (ts : List Ty) (t : Ty) :
      subjects.length = ts.length →
      (∀ (i : Nat) e u, subjects[i]? = some e → ts[i]? = some u → HasType D e u) →
      (∀ ps body, (ps, body) ∈ clauses → ps.length = ts.length) →
      (∀ ps body, (ps, body) ∈ clauses → ∀ (i : Nat) p u, ps[i]? = some p → ts[i]? = some u → PatOk D p u) →
      (∀ ps body, (ps, body) ∈ clauses → HasType D body t) →
      HasType D (.case subjects clauses) t
  | lambda (params : List Nat) (body : Expr) (ts : List Ty) (r : Ty) : params.length = ts.length →
      (∀ (i : Nat) p t, params[i]? = some p → ts[i]? = some t → D.local? p = some t) → HasType D body r →
      HasType D (.lambda params body) (.fn ts r)
  | blockLast (p : Option Pat) (e : Expr) (t : Ty) : HasType D e t → (∀ q, p = some q → PatOk D q t) →
      HasType D (.block [(p, e)]) t
  | blockCons (p : Option Pat) (e : Expr) (u : Ty) (rest : List (Option Pat × Expr)) (t : Ty) :
      HasType D e u → (∀ q, p = some q → PatOk D q u) → rest ≠ [] → HasType D (.block rest) t →
      HasType D (.block ((p, e) :: rest)) t
  | field (e : Expr) (label adt : String) (args : List Ty) (params : List String) (ft : Ty) :
      HasType D e (.adt adt args) → fieldTy D adt label = some (params, ft) →
      HasType D (.field e label) (substTy (params.zip args) ft)
  | pipeCall (l f : Expr) (args : List (Option String × Expr)) (t : Ty) :
      HasType D (.call f ((none, l) :: args)) t → HasType D (.pipe l (.call f args)) t
  | pipeFn (l r : Expr) (a t : Ty) : HasType D r (.fn [a] t) → HasType D l a → HasType D (.pipe l r) t

/-! ## the checker -/

def checkPat (D : Decls) : Nat → Pat → Ty → Bool
  | 0, _, _ => false
  | fuel + 1, p, t =>
    match p, t with
    | .var i, t => match D.local? i with | some u => Ty.beq u t | none => false
    | .discard, _ => true
    | .int, .int | .float, .float | .string, .string => true
    | .tuple ps, .tuple ts => ps.length == ts.length && (ps.zip ts).all (fun (p, t) => checkPat D fuel p t)
    | .list ps tail, .list u =>
      ps.all (fun p => checkPat D fuel p u) &&
      (match tail with
        | .bind i => (match D.local? i with | some v => Ty.beq v (.list u) | none => false)
        | _ => true)
    | .ctor name args, t =>
      match ctorScheme D name with
      | none => false
      | some (labels, fts, r) =>
        match matchTy 64 r t [], orderArgs labels fts.length args with
        | some σ, some ps => Ty.beq (substTy σ r) t && ps.length == fts.length &&
            (ps.zip fts).all (fun (p, ft) => checkPat D fuel p (substTy σ ft))
        | _, _ => false
    | .as_ p i, t => checkPat D fuel p t && (match D.local? i with | some u => Ty.beq u t | none => false)
    | _, _ => false

mutual
/-- the type of `e` when it can be read off bottom-up -/
def synth (D : Decls) : Nat → Expr → Option Ty
  | 0, _ => none
  | fuel + 1, e =>
    match e with
    | .int => some .int
    | .float => some .float
    | .str => some .string
    | .var i => D.local? i
    -- a scheme with variables has no type of its own: its instantiation comes from the context (`check`)
    | .fnref n => (D.fn? n).bind (fun sig => if Ty.openVar [] sig.ty then none else some sig.ty)
    | .ctor n => (ctorScheme D n).bind (fun (_, fts, r) =>
        let s := if fts.isEmpty then r else .fn fts r
        if Ty.openVar [] s then none else some s)
    | .call f args =>
      match calleeScheme D fuel f with
      | some (ps, r, inst) =>
        match orderArgs (labelsOf D f) ps.length args with
        | some es =>
          -- find an instantiation from the arguments that can be read off, then re-check everything under it
          let σ := if inst then (es.zip ps).foldl (fun σ (a, p) => match synth D fuel a with
            | some ta => (matchTy 64 p ta σ).getD σ
            | none => σ) [] else []
          -- an instantiation that leaves a variable of the result undetermined is not a type read off bottom-up
          if es.length == ps.length && !(inst && Ty.openVar (σ.map (·.1)) r) &&
              (es.zip ps).all (fun (a, p) => check D fuel a (substTy σ p)) then some (substTy σ r) else none
        | none => none
      | none => none
    | .binop .eq l r =>
      match synth D fuel l with
      | some t => if check D fuel r t then some .bool else none
      | none => match synth D fuel r with
        | some t => if check D fuel l t then some .bool else none
        | none => none
    | .binop op l r =>
      match opTypes op with
      | some (a, b) => if check D fuel l a && check D fuel r a then some b else none
      | none => none
    | .tuple es => (es.mapM (synth D fuel)).map .tuple
    | .index e i => match synth D fuel e with
      | some (.tuple ts) => ts[i]?
      | _ => none
    | .list es => match joinAll (es.filterMap (synthLoose D fuel)) with
      | some t => if !Ty.hasWild t && es.all (fun e => check D fuel e t) then some (.list t) else none
      | none => none
    | .listTail es tail => match synth D fuel tail with
      | some (.list t) => if es.all (fun e => check D fuel e t) then some (.list t) else none
      | _ => match es.findSome? (synth D fuel) with
        | some t => if es.all (fun e => check D fuel e t) && check D fuel tail (.list t) then some (.list t) else none
        | none => none
    | .case subjects clauses =>
      match subjects.mapM (synth D fuel) with
      | some ts =>
        match joinAll (clauses.filterMap (fun c => synthLoose D fuel c.2)) with
        | some t => if !Ty.hasWild t && clausesOk D fuel clauses ts t then some t else none
        | none => none
      | none => none
    | .lambda params body =>
      match params.mapM D.local?, synth D fuel body with
      | some ts, some r => some (.fn ts r)
      | _, _ => none
    | .block stmts => synthBlock D fuel stmts
    | .field e label => match synth D fuel e with
      | some (.adt adt args) => (fieldTy D adt label).map (fun (params, ft) => substTy (params.zip args) ft)
      | _ => none
    | .pipe l (.call f args) => synth D fuel (.call f ((none, l) :: args))
    | .pipe l r => match synth D fuel r, synth D fuel l with
      | some (.fn [a] t), some a' => if Ty.beq a a' then some t else none
      | _, _ => none

/-- like `synth`, but an instantiation may stay partial: open variables become wildcards -/
def synthLoose (D : Decls) : Nat → Expr → Option Ty
  | 0, _ => none
  | fuel + 1, e =>
    match synth D fuel e with
    | some t => some t
    | none =>
      match e with
      | .ctor n => (ctorScheme D n).map (fun (_, fts, r) => Ty.wilden [] (if fts.isEmpty then r else .fn fts r))
      | .call f args =>
        (match calleeScheme D fuel f with
        | some (ps, r, true) =>
          (match orderArgs (labelsOf D f) ps.length args with
          | some es =>
            let σ := (es.zip ps).foldl (fun σ (a, p) => match synth D fuel a with
              | some ta => (matchTy 64 p ta σ).getD σ
              | none => σ) []
            some (substTy σ (Ty.wilden (σ.map (·.1)) r))
          | none => none)
        | _ => none)
      | _ => none

/-- parameter and result types of a callee, and whether its type is a scheme that may be
instantiated (a top-level function or a constructor named directly) or a fixed type (any other
expression, e.g. a local of function type whose variables are rigid) -/
def calleeScheme (D : Decls) : Nat → Expr → Option (List Ty × Ty × Bool)
  | 0, _ => none
  | fuel + 1, f =>
    match f with
    | .fnref n => (match D.fn? n with
      | some sig => (match sig.ty with | .fn ps r => some (ps, r, true) | _ => none)
      | none => none)
    | .ctor n => (match ctorScheme D n with
      | some (_, fts, r) => if fts.isEmpty then none else some (fts, r, true)
      | none => none)
    | f => (match synth D fuel f with
      | some (.fn ps r) => some (ps, r, false)
      | _ => none)

def clausesOk (D : Decls) : Nat → List (List Pat × Expr) → List Ty → Ty → Bool
  | 0, _, _, _ => false
  | fuel + 1, clauses, ts, t =>
    clauses.all (fun c => c.1.length == ts.length && (c.1.zip ts).all (fun (p, u) => checkPat D 64 p u) && check D fuel c.2 t)

def synthBlock (D : Decls) : Nat → List (Option Pat × Expr) → Option Ty
  | 0, _ => none
  | _, [] => none
  | fuel + 1, (p, e) :: rest =>
    let te := match synth D fuel e with
      | some t => some t
      | none => match p with
        | some (.var i) => (D.local? i).bind (fun t => if check D fuel e t then some t else none)
        | _ => none
    match te with
    | none => none
    | some u =>
      if (match p with | some q => checkPat D 64 q u | none => true) then
        (if rest.isEmpty then some u else synthBlock D fuel rest)
      else none

/-- does `e` have type `t` (expected type known: instantiations are found from it) -/
def check (D : Decls) : Nat → Expr → Ty → Bool
  | 0, _, _ => false
  | fuel + 1, e, t =>
    match e, t with
    | .fnref n, t => (match D.fn? n with
      | some sig => (match matchTy 64 sig.ty t [] with | some σ => Ty.beq (substTy σ sig.ty) t | none => false)
      | none => false)
    | .ctor n, t => (match ctorScheme D n with
      | some (_, fts, r) =>
        let s := if fts.isEmpty then r else .fn fts r
        (match matchTy 64 s t [] with | some σ => Ty.beq (substTy σ s) t | none => false)
      | none => false)
    | .call f args, t =>
      (match calleeScheme D fuel f with
      | some (ps, r, inst) =>
        (match orderArgs (labelsOf D f) ps.length args with
        | some es =>
          let σ0 := (matchTy 64 r t []).getD []
          let σ := if inst then (es.zip ps).foldl (fun σ (a, p) => match synth D fuel a with
            | some ta => (matchTy 64 p ta σ).getD σ
            | none => σ) σ0 else []
          es.length == ps.length && Ty.beq (substTy σ r) t && (es.zip ps).all (fun (a, p) => check D fuel a (substTy σ p))
        | none => false)
      | none => false)
    | .tuple es, .tuple ts => es.length == ts.length && (es.zip ts).all (fun (e, u) => check D fuel e u)
    | .list es, .list u => es.all (fun e => check D fuel e u)
    | .listTail es tail, .list u => es.all (fun e => check D fuel e u) && check D fuel tail (.list u)
    | .case subjects clauses, t =>
      (match subjects.mapM (synth D fuel) with
      | some ts => clausesOk D fuel clauses ts t
      | none => false)
    | .lambda params body, .fn ts r =>
      (match params.mapM D.local? with
      | some us => Ty.beqs us ts && check D fuel body r
      | none => false)
    | .block stmts, t => checkBlock D fuel stmts t
    | .pipe l (.call f args), t => check D fuel (.call f ((none, l) :: args)) t
    | e, t => (match synth D fuel e with | some u => Ty.beq u t | none => false)

def checkBlock (D : Decls) : Nat → List (Option Pat × Expr) → Ty → Bool
  | 0, _, _ => false
  | _, [], _ => false
  | fuel + 1, [(p, e)], t =>
    check D fuel e t && (match p with | some q => checkPat D 64 q t | none => true)
  | fuel + 1, (p, e) :: rest, t =>
    let te := match synth D fuel e with
      | some u => some u
      | none => match p with
        | some (.var i) => (D.local? i).bind (fun u => if check D fuel e u then some u else none)
        | _ => none
    match te with
    | none => false
    | some u => (match p with | some q => checkPat D 64 q u | none => true) && checkBlock D fuel rest t
end

/-- a top-level function: its parameters are local binders, its scheme comes from the assignment;
the annotations the source gives (monomorphic ones) must be what the assignment says -/
structure FnDef where
  name : String
  params : List Nat
  paramAnn : List (Option Ty)
  retAnn : Option Ty
  body : Expr
deriving Repr, Inhabited

def annOk : List Ty → List (Option Ty) → Bool
  | _, [] => true
  | [], _ :: _ => false
  | t :: ts, a :: as => (match a with | some u => Ty.beq t u | none => true) && annOk ts as

/-- the function is well typed under the assignment: the declared scheme is a function type over
the parameters' types, agrees with the annotations, and the body has the result type.  The
scheme's own variables are rigid inside the body (they are plain `gen` constants there). -/
def checkFn (D : Decls) (fuel : Nat) (f : FnDef) : Bool :=
  match D.fn? f.name with
  | some sig =>
    (match sig.ty with
    | .fn ps r => (match f.params.mapM D.local? with
      | some us => Ty.beqs us ps && annOk ps f.paramAnn && (match f.retAnn with | some a => Ty.beq r a | none => true) &&
          check D fuel f.body r
      | none => false)
    | _ => false)
  | none => false

def FnOk (D : Decls) (f : FnDef) : Prop :=
  ∃ sig ps r, D.fn? f.name = some sig ∧ sig.ty = .fn ps r ∧
    f.params.length = ps.length ∧ (∀ (i : Nat) p t, f.params[i]? = some p → ps[i]? = some t → D.local? p = some t) ∧
    (∀ (i : Nat) t a, ps[i]? = some t → f.paramAnn[i]? = some (some a) → t = a) ∧
    (∀ a, f.retAnn = some a → r = a) ∧
    HasType D f.body r

end Glas.TySpec
