import Glas.Model.Dsl
import Glas.Model.Tree
import Glas.Model.Lexer
/-! Specification-side definitions for the syntax properties (C01–C03): event counting, what a
well-formed main procedure and a sound tree-builder policy are, token ranges. -/
namespace Glas.SyntaxSpec
open Glas.Dsl Glas.Tree

def advCount : List Ev → Nat
  | [] => 0
  | .adv :: es => advCount es + 1
  | _ :: es => advCount es

def closeCount : List Ev → Nat
  | [] => 0
  | .close :: es => closeCount es + 1
  | _ :: es => closeCount es

def openCount : List Ev → Nat
  | [] => 0
  | .open _ _ _ :: es => openCount es + 1
  | _ :: es => openCount es

/-- the main procedure is `open; while !eof { call f }; close k` (no other exit from the loop) -/
def MainShape (P : Prog) : Prop :=
  ∃ f k, (P.procs[P.main]?).map (fun p => p.body) =
    some (.seq (.open 0) (.seq (.loop (.ite (.not .eof) (.call f [] [] .none) .brk)) (.close 0 k none)))

/-- the tree builder's policy never skips a non-trivia token and never leaves one behind:
`triv` is the predicate the parser filtered its token list with -/
structure PolicyOK (π : Policy) (triv : Kind → Bool) : Prop where
  pop : π.popLast = true
  fin : π.finalClose = true
  flush : ∃ f, π.finalFlush = some f ∧ ∀ k, f k = triv k
  extra : π.advExtra = 1
  adv : ∀ k, π.advPred k = triv k
  opens : ∀ k p k', Act.eat p ∈ π.onOpen k → p k' = true → triv k' = true
  oneStart : ∀ k, ((π.onOpen k).filter (fun a => match a with | .start => true | _ => false)).length = 1

def u8len (cs : List Char) : Nat := (cs.map (fun c => c.utf8Size)).sum

/-- byte ranges of consecutive tokens starting at offset `off` -/
def ranges : List RawTok → Nat → List (Nat × Nat)
  | [], _ => []
  | (_, t) :: r, off => (off, off + u8len t) :: ranges r (off + u8len t)

/-- ranges are non-empty, contiguous, start at `off` and end at `stop` -/
def Tiles : List (Nat × Nat) → Nat → Nat → Prop
  | [], off, stop => off = stop
  | (a, b) :: r, off, stop => a = off ∧ a < b ∧ Tiles r b stop

end Glas.SyntaxSpec
