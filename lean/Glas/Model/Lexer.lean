import Glas.Model.Dsl
/-!
# M-syntax, part 3: the lexer

`logos` derives an automaton from the `#[token]` / `#[regex]` attributes of `SyntaxKind`; that
automaton is *modelled* as: at every position take the longest match over all rules, break ties
by logos' rule priority, run the rule's callback (`lex_string`), and when nothing matches emit a
one-character `ERROR` token.  The rule table (`Glas/Gen/Lexer.lean`) is generated from the
attributes on every run; this reading of logos is validated by the differential against
`GleamLexer`.
-/
namespace Glas.Lexer
open Glas.Dsl

inductive Re where
  | eps
  /-- character class: list of inclusive code-point ranges, possibly negated -/
  | cls (ranges : List (Nat × Nat)) (neg : Bool)
  | seq (a b : Re)
  | alt (a b : Re)
  | star (a : Re)
deriving Repr, Inhabited

def inRanges (rs : List (Nat × Nat)) (c : Char) : Bool :=
  rs.any (fun r => r.1 ≤ c.toNat && c.toNat ≤ r.2)

def dedup : List Nat → List Nat
  | [] => []
  | x :: xs => if xs.contains x then dedup xs else x :: dedup xs

/-- all `n` such that the first `n` characters of `s` match `r` (fuel bounds star iteration) -/
def Re.lens : Nat → Re → List Char → List Nat
  | _, .eps, _ => [0]
  | _, .cls rs neg, s =>
    match s with
    | [] => []
    | c :: _ => if inRanges rs c != neg then [1] else []
  | f, .seq a b, s =>
    dedup ((Re.lens f a s).flatMap (fun n => (Re.lens f b (s.drop n)).map (fun m => n + m)))
  | f, .alt a b, s => dedup (Re.lens f a s ++ Re.lens f b s)
  | 0, .star _, _ => [0]
  | f + 1, .star a, s =>
    dedup (0 :: ((Re.lens f a s).filter (fun n => 0 < n)).flatMap
      (fun n => (Re.lens f (.star a) (s.drop n)).map (fun m => n + m)))
termination_by f r _ => (f, r)

def maxOf : List Nat → Option Nat
  | [] => none
  | x :: xs => match maxOf xs with
    | none => some x
    | some y => some (max x y)

/-- length of the longest non-empty prefix of `s` matching `r`; `fuel` bounds the star iterations
and is at least the length of `s` wherever this is used -/
def Re.longest (fuel : Nat) (r : Re) (s : List Char) : Option Nat :=
  match maxOf ((Re.lens fuel r s).filter (fun n => 0 < n)) with
  | some n => some n
  | none => none

inductive Callback where
  | none
  /-- `lexer::lex_string` -/
  | lexString
deriving Repr, DecidableEq, Inhabited

structure Rule where
  kind : Kind
  re : Re
  prio : Nat
  cb : Callback
deriving Repr, Inhabited

/-- `lex_string` on the remainder after the opening quote: number of characters up to and
including the closing unescaped quote -/
def scanString : List Char → Bool → Nat → Option Nat
  | [], _, _ => none
  | c :: cs, escaped, n =>
    if c = '\\' then scanString cs (!escaped) (n + 1)
    else if c = '"' ∧ !escaped then some (n + 1)
    else scanString cs false (n + 1)

/-- best rule at the head of `s`: longest match, ties by priority (later rule wins a full tie,
which logos rejects at compile time) -/
def bestRule (fuel : Nat) : List Rule → List Char → Option (Rule × Nat) → Option (Rule × Nat)
  | [], _, best => best
  | r :: rs, s, best =>
    match r.re.longest fuel s with
    | none => bestRule fuel rs s best
    | some n =>
      match best with
      | none => bestRule fuel rs s (some (r, n))
      | some (r0, n0) =>
        if n > n0 ∨ (n = n0 ∧ r.prio > r0.prio) then bestRule fuel rs s (some (r, n))
        else bestRule fuel rs s best

/-- one token at the head of a non-empty `s`: `(kind, length)`, length ≥ 1 -/
def nextToken (fuel : Nat) (rules : List Rule) (errorKind : Kind) (s : List Char) : Kind × Nat :=
  match bestRule fuel rules s none with
  | none => (errorKind, 1)
  | some (r, n) =>
    match r.cb with
    | .none => (r.kind, n)
    | .lexString =>
      match scanString (s.drop n) false 0 with
      | some m => (r.kind, n + m)
      | none => (errorKind, n)

def lexFuel (rules : List Rule) (errorKind : Kind) : Nat → List Char → List (Kind × List Char)
  | 0, _ => []
  | _, [] => []
  | f + 1, s =>
    let (k, n) := nextToken (f + 1) rules errorKind s
    let n := if n = 0 then 1 else n
    (k, s.take n) :: lexFuel rules errorKind f (s.drop n)

def lex (rules : List Rule) (errorKind : Kind) (s : List Char) : List (Kind × List Char) :=
  lexFuel rules errorKind s.length s

end Glas.Lexer
