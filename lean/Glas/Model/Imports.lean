/-!
# M-imports: which module an `import` reaches (C17)

Models `Package::dependencies` / `Package::visible_modules` (crates/ide/src/def/hir.rs) over the
inputs of the database: the package graph (per package: its direct dependencies in declaration
order) and the module map of every package (module name → file).  `visible_modules` fills one
`ModuleMap` — a hash map keyed by module name, a later insertion overwrites an earlier one — with
the module maps of the direct dependencies in declaration order and then with the package's own.
Module names are lists of characters, files are numbers.
-/
namespace Glas.Imports

abbrev Name := List Char

structure Pkg where
  /-- indices (into the graph) of the direct dependencies, in declaration order -/
  deps : List Nat
  /-- the package's own module map: module name → file -/
  modules : List (Name × Nat)
deriving Repr, Inhabited

abbrev Graph := List Pkg

/-- the entries in the order `visible_modules` inserts them: dependencies first, own modules last -/
def inserted (g : Graph) (p : Pkg) : List (Name × Nat) :=
  (p.deps.flatMap (fun d => match g[d]? with | some q => q.modules | none => [])) ++ p.modules

/-- a hash map keyed by name after the insertions: the LAST entry of a name is the one that stays -/
def lastOf (m : Name) : List (Name × Nat) → Option Nat
  | [] => none
  | (k, f) :: rest =>
    match lastOf m rest with
    | some f' => some f'
    | none => if k = m then some f else none

/-- `visible_modules(pkg).file_for_module_name(m)` for the package at index `i` -/
def resolve (g : Graph) (i : Nat) (m : Name) : Option Nat :=
  match g[i]? with
  | none => none
  | some p => lastOf m (inserted g p)

/-- the module named `m` with file `f` belongs to package `p` -/
def Has (p : Pkg) (m : Name) (f : Nat) : Prop := (m, f) ∈ p.modules

/-- `q` is the package at a direct-dependency index of `p` -/
def DirectDep (g : Graph) (p q : Pkg) : Prop := ∃ d ∈ p.deps, g[d]? = some q

/-- module names are unique inside the package (one file per name: the C11 collision finding is
about packages where this fails) -/
def UniqueNames (p : Pkg) : Prop := p.modules.Pairwise (fun a b => a.1 ≠ b.1)

end Glas.Imports
