import Glas.Model.Conc
import Glas.Gen.Choreo
/-! Driver commands for M-conc.

`conc-run <acts>`: run the reader/writer/cancellation system (flags as extracted from the source)
from the empty state.  acts, `;`-separated: `s<work>` snapshot, `q<i>` query step of reader i,
`c` request cancellation, `b` begin apply_change (cancel-before-apply as the flags say), `w` the write.
Output: `blocked@<k>` or `rev=<n> cancel=<0|1> readers=<r<left>|d<rev>|c|x>,…`

`lock-run <entry methods ,-separated> <acts>`: run the lock choreography of the given main-loop
entry points (inlined from the extracted method table) with the extracted handler table.
acts: `m<choice>` loop thread, `t<i>` task i, `x<i>` early exit of task i.
Output: `blocked@<k>` or `ops=<remaining> holds=<0|1> waiting=<0|1> cancel=<0|1> tasks=<len(prog)/held>,… enabled=<acts>`
-/
namespace Glas.ConcCmd
open Glas.Conc Glas.ChoreoSpec

def parseAct (s : String) : Option Act :=
  match s.toList with
  | 's' :: r => (String.ofList r).toNat?.map Act.snapshot
  | 'q' :: r => (String.ofList r).toNat?.map Act.queryStep
  | ['c'] => some .requestCancel
  | ['w'] => some .applyWrite
  | _ => none

def showStatus : Status → String
  | .running l => s!"r{l}"
  | .done v => s!"d{v}"
  | .cancelled => "c"
  | .crashed => "x"

def concRun (s : Sys) : List String → Nat → String
  | [], _ =>
    let rs := ",".intercalate (s.readers.map (fun r => showStatus r.status))
    s!"rev={s.rev} cancel={if s.cancelPending then 1 else 0} readers={rs}"
  | a :: as, k =>
    if a == "b" then concRun (beginApply s) as (k + 1)
    else match parseAct a with
      | none => "bad-op"
      | some act => match step s act with
        | none => s!"blocked@{k}"
        | some s' => concRun s' as (k + 1)

def parseLAct (s : String) : Option LAct :=
  match s.toList with
  | 'm' :: r => (String.ofList r).toNat?.map LAct.main
  | 't' :: r => (String.ofList r).toNat?.map LAct.task
  | 'x' :: r => (String.ofList r).toNat?.map LAct.exit
  | _ => none

def showLock (s : LockSys) : String :=
  let ts := ",".intercalate (s.tasks.map (fun t => s!"{t.prog.length}/{t.held}"))
  let en := (if (lstep s (.main 0)).isSome then ["m"] else []) ++
    ((List.range s.tasks.length).filter (fun i => (lstep s (.task i)).isSome)).map (fun i => s!"t{i}")
  s!"ops={s.mainOps.length} holds={if s.mainHoldsVfs then 1 else 0} waiting={if s.writerWaiting then 1 else 0} cancel={if s.cancel then 1 else 0} tasks={ts} enabled={",".intercalate en}"

def lockRun (s : LockSys) : List String → Nat → String
  | [], _ => showLock s
  | a :: as, k =>
    match parseLAct a with
    | none => "bad-op"
    | some act => match lstep s act with
      | none => s!"blocked@{k} {showLock s}"
      | some s' => lockRun s' as (k + 1)

def splitNE (s : String) (sep : String) : List String := (s.splitOn sep).filter (· != "")

def run (args : List String) : Option String :=
  match args with
  | ["conc-run", acts] =>
    some (concRun { flags := Glas.Gen.hostFlags, rev := 0, cancelPending := false, readers := [] } (splitNE acts ";") 0)
  | ["lock-run", entries, acts] =>
    let ops := inline Glas.Gen.serverMethods 4 ((splitNE entries ",").map Op.call)
    let handlers := Glas.Gen.handlerTasks.map (·.2)
    some (lockRun (initLock ops handlers []) (splitNE acts ";") 0)
  | ["lock-handlers"] =>
    some (";".intercalate (Glas.Gen.handlerTasks.map (fun h => h.1 ++ "=" ++ ",".intercalate (h.2.map (fun o => match o with
      | .acqR => "a" | .relR => "r" | .query _ => "q")))))
  | ["lock-ops", entries] =>
    let ops := inline Glas.Gen.serverMethods 4 ((splitNE entries ",").map Op.call)
    some (",".intercalate (ops.map (fun o => match o with
      | .acqVfsW => "W" | .acqVfsR => "R" | .relVfs => "r" | .dbWrite => "D" | .snap => "s" | .spawn => "S" | .call m => "call:" ++ m)))
  | _ => none

end Glas.ConcCmd
