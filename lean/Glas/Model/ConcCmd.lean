import Glas.Model.Conc
import Glas.Gen.Choreo
/-! Driver commands for M-conc.

`conc-run <acts>`: run the reader/writer/cancellation system (flags as extracted from the source)
from the empty state.  acts, `;`-separated: `s<work>` snapshot, `q<i>` query step of reader i,
`c` request cancellation, `b` begin apply_change (cancel-before-apply as the flags say), `w` the write.
Output: `blocked@<k>` or `rev=<n> cancel=<0|1> readers=<r<left>|d<rev>|c|x>,…`

`lock-run <entry methods ,-separated> <acts>`: run the lock choreography of the given main-loop
entry points (inlined from the extracted method table) with the extracted handler table.
acts: `m<choice>` loop thread, `t<i>` task i, `x<i>` early exit of task i.
Output: `blocked@<k>` or `ops=<remaining> holds=<0|1> waiting=<0|1> cancel=<0|1> tasks=<len(prog)/held>,… enabled=<acts>`
-/
namespace Glas.ConcCmd
open Glas.Conc Glas.ChoreoSpec

def parseAct (s : String) : Option Act :=
  match s.toList with
  | 's' :: r => (String.ofList r).toNat?.map Act.snapshot
  | 'q' :: r => (String.ofList r).toNat?.map Act.queryStep
  | ['c'] => some .requestCancel
  | ['w'] => some .applyWrite
  | _ => none

def showStatus : Status → String
  | .running l => s!"r{l}"
  | .done v => s!"d{v}"
  | .cancelled => "c"
  | .crashed => "x"

def concRun (s : Sys) : List String → Nat → String
  | [], _ =>
    let rs := ",".intercalate (s.readers.map (fun r => showStatus r.status))
    s!"rev={s.rev} cancel={if s.cancelPending then 1 else 0} readers={rs}"
  | a :: as, k =>
    if a == "b" then concRun (beginApply s) as (k + 1)
    else match parseAct a with
      | none => "bad-op"
      | some act => match step s act with
        | none => s!"blocked@{k}"
        | some s' => concRun s' as (k + 1)

def parseLAct (s : String) : Option LAct :=
  match s.toList with
  | 'm' :: r => (String.ofList r).toNat?.map LAct.main
  | 't' :: r => (String.ofList r).toNat?.map LAct.task
  | 'x' :: r => (String.ofList r).toNat?.map LAct.exit
  | _ => none

def showLock (s : LockSys) : String :=
  let ts := ",".intercalate (s.tasks.map (fun t => s!"{t.prog.length}/{t.held}"))
  let en := (if (lstep s (.main 0)).isSome then ["m"] else []) ++
    ((List.range s.tasks.length).filter (fun i => (lstep s (.task i)).isSome)).map (fun i => s!"t{i}")
  s!"ops={s.mainOps.length} holds={if s.mainHoldsVfs then 1 else 0} waiting={if s.writerWaiting then 1 else 0} cancel={if s.cancel then 1 else 0} tasks={ts} enabled={",".intercalate en}"

def lockRun (s : LockSys) : List String → Nat → String
  | [], _ => showLock s
  | a :: as, k =>
    match parseLAct a with
    | none => "bad-op"
    | some act => match lstep s act with
      | none => s!"blocked@{k} {showLock s}"
      | some s' => lockRun s' as (k + 1)

/-! ### replay of an observed lock trace (hook `verif_sched`) on the lock model

events: `N<entry>` the loop enters a notification handler; `W` write guard acquired; `r` about to be
released; `B`/`E` apply_change begins / returns; `s` snapshot taken; `S<tid>=<handler>` task spawned;
`a<tid>` / `l<tid>` a task acquired / is about to release the read guard; `e<tid>` the task ended.
Queries are not observable: a task's query steps are taken as early as possible; operations of
the extracted program that the run skipped (branches not taken) are skipped, never applied. -/

structure Tr where
  sys : LockSys
  tids : List Nat
  skipped : Nat

def skipTo (p : Op → Bool) : List Op → Nat → Option (List Op × Nat)
  | [], _ => none
  | o :: r, n => if p o then some (o :: r, n) else skipTo p r (n + 1)

def headIsQuery (t : Task) : Bool := match t.prog with | .query _ :: _ => true | _ => false

def advance (s : LockSys) (i : Nat) : Nat → LockSys
  | 0 => s
  | fuel + 1 =>
    match s.tasks[i]? with
    | some t => if headIsQuery t then
        match lstep s (.task i) with
        | some s' => advance s' i fuel
        | none => s
      else s
    | none => s

def isAcq : Op → Bool | .acqVfsW => true | .acqVfsR => true | _ => false
def isRel : Op → Bool | .relVfs => true | _ => false
def isDb : Op → Bool | .dbWrite => true | _ => false
def isSnap : Op → Bool | .snap => true | _ => false
def isSpawn : Op → Bool | .spawn => true | _ => false

def opsOf (entry : String) : List Op := inline Glas.Gen.serverMethods 6 [.call entry]

def mainEvent (t : Tr) (p : Op → Bool) (choice : Nat) (what : String) : Except String Tr :=
  match skipTo p t.sys.mainOps 0 with
  | none => .error s!"{what}: the extracted program of this entry point has no such operation left"
  | some (ops, n) =>
    match lstep { t.sys with mainOps := ops } (.main choice) with
    | none => .error s!"{what}: not enabled in the model"
    | some s' => .ok { t with sys := s', skipped := t.skipped + n }

def taskIndex (t : Tr) (tid : Nat) : Except String Nat :=
  match t.tids.findIdx? (· == tid) with
  | some i => .ok i
  | none => .error s!"unknown task {tid}"

def traceEvent (t : Tr) (ev : String) : Except String Tr :=
  match ev.toList with
  | 'N' :: r =>
    if t.sys.mainHoldsVfs then .error "entered a handler while holding the document-store guard"
    else .ok { t with sys := { t.sys with mainOps := opsOf (String.ofList r) }, skipped := t.skipped + t.sys.mainOps.length }
  | ['W'] => do
    let t' ← mainEvent t isAcq 0 "write guard"
    if t'.sys.mainHoldsVfs then .ok t' else .error "write guard acquired while a request task holds a read guard"
  | ['r'] => mainEvent t isRel 0 "release"
  | ['B'] =>
    match skipTo isDb t.sys.mainOps 0 with
    | none => .error "apply_change: not in the extracted program"
    | some (ops, n) =>
      if t.sys.mainHoldsVfs then .error "apply_change requested while the loop thread holds the document-store guard"
      else
        -- `B` is logged before the call: the cancellation flag is raised at an unobservable later
        -- moment, so the replay leaves it to `E` (tasks that were cancelled show up as early exits)
        .ok { t with sys := { t.sys with mainOps := ops }, skipped := t.skipped + n }
  | ['E'] =>
    match t.sys.mainOps with
    | .dbWrite :: _ =>
      if t.sys.tasks.any taskAlive then .error "apply_change returned while a snapshot was alive"
      else match lstep t.sys (.main 0) with
        | some s' => .ok { t with sys := s' }
        | none => .error "apply_change end: not enabled"
    | _ => .error "apply_change returned but was not begun"
  | ['s'] =>
    match skipTo isSnap t.sys.mainOps 0 with
    | some _ => mainEvent t isSnap 0 "snapshot"
    | none =>
      if t.sys.mainHoldsVfs then .error "request dispatched while holding the document-store guard"
      else mainEvent { t with sys := { t.sys with mainOps := opsOf "spawn_with_snapshot" }, skipped := t.skipped + t.sys.mainOps.length } isSnap 0 "snapshot"
  | 'S' :: r =>
    match (String.ofList r).splitOn "=" with
    | [a, b] => match a.toNat?, b.toNat? with
      | some tid, some h => do
        let t' ← mainEvent t isSpawn h "spawn"
        let i := t'.sys.tasks.length - 1
        .ok { t' with sys := advance t'.sys i 64, tids := t'.tids ++ [tid] }
      | _, _ => .error "bad spawn event"
    | _ => .error "bad spawn event"
  | 'a' :: r => match (String.ofList r).toNat? with
    | none => .error "bad event"
    | some tid => do
      let i ← taskIndex t tid
      match t.sys.tasks[i]? with
      | some tk => match tk.prog with
        | .acqR :: _ =>
          match lstep t.sys (.task i) with
          | some s' => .ok { t with sys := advance s' i 64 }
          | none => .error s!"task {tid} acquired a read guard while the loop thread holds (or waits for) the write guard"
        | _ => .error s!"task {tid} acquired a read guard where its handler program has none"
      | none => .error "bad task index"
  | 'l' :: r => match (String.ofList r).toNat? with
    | none => .error "bad event"
    | some tid => do
      let i ← taskIndex t tid
      match t.sys.tasks[i]? with
      | some tk => match tk.prog with
        | .relR :: _ =>
          match lstep t.sys (.task i) with
          | some s' => .ok { t with sys := advance s' i 64 }
          | none => .error "release not enabled"
        | _ => .error s!"task {tid} released a read guard where its handler program has none"
      | none => .error "bad task index"
  | 'e' :: r => match (String.ofList r).toNat? with
    | none => .error "bad event"
    | some tid => do
      let i ← taskIndex t tid
      match t.sys.tasks[i]? with
      | some tk =>
        if tk.prog.isEmpty then .ok t
        else match lstep t.sys (.exit i) with
          | some s' => .ok { t with sys := s' }
          | none => .error "exit not enabled"
      | none => .error "bad task index"
  | _ => .error s!"unknown event {ev}"

def traceRun (t : Tr) : List String → Nat → String
  | [], _ => s!"ok tasks={t.sys.tasks.length} alive={(t.sys.tasks.filter taskAlive).length} holds={if t.sys.mainHoldsVfs then 1 else 0} skipped={t.skipped}"
  | e :: es, k =>
    match traceEvent t e with
    | .ok t' => traceRun t' es (k + 1)
    | .error msg => s!"reject@{k} {e}: {msg}"

def splitNE (s : String) (sep : String) : List String := (s.splitOn sep).filter (· != "")

def run (args : List String) : Option String :=
  match args with
  | ["conc-run", acts] =>
    some (concRun { flags := Glas.Gen.hostFlags, rev := 0, cancelPending := false, readers := [] } (splitNE acts ";") 0)
  | ["lock-run", entries, acts] =>
    let ops := inline Glas.Gen.serverMethods 6 ((splitNE entries ",").map Op.call)
    let handlers := Glas.Gen.handlerTasks.map (·.2)
    some (lockRun (initLock ops handlers []) (splitNE acts ";") 0)
  | ["lock-trace", evs] =>
    some (traceRun { sys := initLock [] (Glas.Gen.handlerTasks.map (·.2)) [], tids := [], skipped := 0 } (splitNE evs ";") 0)
  | ["lock-handlers"] =>
    some (";".intercalate (Glas.Gen.handlerTasks.map (fun h => h.1 ++ "=" ++ ",".intercalate (h.2.map (fun o => match o with
      | .acqR => "a" | .relR => "r" | .query _ => "q")))))
  | ["lock-ops", entries] =>
    let ops := inline Glas.Gen.serverMethods 6 ((splitNE entries ",").map Op.call)
    some (",".intercalate (ops.map (fun o => match o with
      | .acqVfsW => "W" | .acqVfsR => "R" | .relVfs => "r" | .dbWrite => "D" | .snap => "s" | .spawn => "S" | .call m => "call:" ++ m)))
  | _ => none

end Glas.ConcCmd
