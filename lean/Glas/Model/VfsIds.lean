/-!
# M-vfs-ids: which `FileId` a path gets (crates/glas/src/vfs.rs: `Vfs::set_path_content`, `Vfs::remove_uri`)

`Vfs` keeps the loaded files in a `Slab` (text and line table per `FileId`) and the paths in a `FileSet`
(path ↔ `FileId`).  A new path takes the slab's vacant key - the slot freed last, or a new one at the end -,
a known path keeps its id, a removed file frees its slot.  Every answer of the server is converted with the
line table stored under the document's `FileId`: two loaded paths with one id would read each other's text.
Paths and contents are numbers here.
-/
namespace Glas.VfsIds

structure St where
  /-- `FileSet`: path ↦ id, most recent first -/
  ids : List (Nat × Nat)
  /-- the slab: content per id, `none` = vacant -/
  slots : List (Option Nat)
  /-- the slab's chain of vacant keys, the one `vacant_entry` hands out first -/
  free : List Nat
deriving Repr, DecidableEq, Inhabited

def init : St := ⟨[], [], []⟩

def idOf : List (Nat × Nat) → Nat → Option Nat
  | [], _ => none
  | (k, v) :: rest, p => if k = p then some v else idOf rest p

def del : List (Nat × Nat) → Nat → List (Nat × Nat)
  | [], _ => []
  | (k, v) :: rest, p => if k = p then del rest p else (k, v) :: del rest p

/-- what the server holds for a path: its id and the content stored under that id -/
def lookup (s : St) (p : Nat) : Option (Nat × Nat) :=
  match idOf s.ids p with
  | none => none
  | some i =>
    match s.slots[i]? with
    | some (some c) => some (i, c)
    | _ => none

/-- `set_path_content`: (new state, the id) -/
def setPath (s : St) (p c : Nat) : St × Nat :=
  match idOf s.ids p with
  | some i => ({ s with slots := s.slots.set i (some c) }, i)
  | none =>
    match s.free with
    | i :: rest => ({ ids := (p, i) :: s.ids, slots := s.slots.set i (some c), free := rest }, i)
    | [] => ({ ids := (p, s.slots.length) :: s.ids, slots := s.slots ++ [some c], free := [] }, s.slots.length)

/-- `remove_uri`: (new state, whether the file was loaded) -/
def removePath (s : St) (p : Nat) : St × Bool :=
  match idOf s.ids p with
  | some i => ({ ids := del s.ids p, slots := s.slots.set i none, free := i :: s.free }, true)
  | none => (s, false)

inductive Op where
  | set (p c : Nat)
  | remove (p : Nat)
deriving Repr, DecidableEq

def step (s : St) : Op → St
  | .set p c => (setPath s p c).1
  | .remove p => (removePath s p).1

def run (ops : List Op) : St := ops.foldl step init

/-- the abstract document store: path ↦ content -/
def specStep (m : Nat → Option Nat) : Op → (Nat → Option Nat)
  | .set p c => fun q => if q = p then some c else m q
  | .remove p => fun q => if q = p then none else m q

def specRun (ops : List Op) : Nat → Option Nat := ops.foldl specStep (fun _ => none)

end Glas.VfsIds
