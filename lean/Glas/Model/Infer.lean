import Glas.Model.UnionFind
import Glas.Model.TySpec
/-!
# M-ty: the inference engine (crates/ide/src/ty/infer.rs) over the core language of TySpec

A transliteration of `InferCtx`: a union-find table of type nodes whose children are type
variables, in-place unification with label reordering, instantiation of annotations / schemes /
constructors, inference of expressions, statements and patterns, functions inferred group by group
(strongly connected components of the call graph, callees first — the grouping is an input), and
the final `Collector` that freezes the table into displayed types.  Failures of unification are
ignored exactly where the Rust code ignores them.
-/
namespace Glas.Infer
open Glas.UF Glas.TySpec

inductive ITy where
  | unknown (idx : Nat)
  | nil | bool | int | float | string | bitArray
  | result (ok err : Nat)
  | list (of : Nat)
  | adt (name : String) (ps : List Nat)
  | fn (ps : List (Option String × Nat)) (ret : Nat)
  | tuple (fs : List Nat)
deriving Repr, DecidableEq, Inhabited

structure St where
  table : Table ITy
  idx : Nat
  /-- binder id → type variable (`pattern_to_ty`) -/
  pats : List (Nat × Nat)
deriving Repr, Inhabited

def newTyVar (s : St) : Nat × St :=
  let idx := s.idx + 1
  let (t, v) := push s.table (.unknown idx)
  (v, { s with table := t, idx := idx })

def intern (s : St) (ty : ITy) : Nat × St :=
  let (t, v) := push s.table ty
  (v, { s with table := t })

def getTy (s : St) (v : Nat) : ITy × St :=
  let (t, r) := find s.table v (fuelOf s.table)
  ((valOf t r).getD (.unknown 0), { s with table := t })

def setTy (s : St) (v : Nat) (ty : ITy) : St :=
  let (t, r) := find s.table v (fuelOf s.table)
  { s with table := setVal t r (some ty) }

def findLabel (l : Option String) : List (Option String × Nat) → Option (Nat × Nat) := fun ps =>
  (ps.zipIdx.find? (fun (p, _) => p.1 == l)).map (fun (p, i) => (i, p.2))

mutual
/-- `InferCtx::unify`: `none` = mismatch -/
def unify : Nat → St → ITy → ITy → Option ITy × St
  | 0, s, _, _ => (none, s)
  | fuel + 1, s, lhs, rhs =>
    match lhs, rhs with
    | .unknown i, .unknown j => (some (.unknown (min i j)), s)
    | .unknown _, other => (some other, s)
    | other, .unknown _ => (some other, s)
    | .result ok err, .result okr errr =>
      let (b1, s1) := tryUnifyVar fuel s ok okr
      if !b1 then (none, s1) else
      let (b2, s2) := tryUnifyVar fuel s1 err errr
      if !b2 then (none, s2) else (some (.result ok err), s2)
    | .adt n1 ps1, .adt _ ps2 =>
      let (ok, s') := unifyAll fuel s (ps1.zip ps2)
      if ok then (some (.adt n1 ps1), s') else (none, s')
    | .list a, .list b =>
      let (b1, s1) := tryUnifyVar fuel s a b
      if b1 then (some (.list a), s1) else (none, s1)
    | .fn ps1 r1, .fn ps2 r2 =>
      -- labelled parameters are matched by label first (failures ignored), the rest by position
      let (rem1, rem2, s1) := matchLabels fuel s ps1 ps2
      let s2 := unifyIgnore fuel s1 ((rem1.map (·.2)).zip (rem2.map (·.2)))
      let (b, s3) := tryUnifyVar fuel s2 r1 r2
      if b then (some (.fn ps1 r1), s3) else (none, s3)
    | .tuple f1, .tuple f2 =>
      let (ok, s') := unifyAll fuel s (f1.zip f2)
      if ok then (some (.tuple f1), s') else (none, s')
    | a, b => if a == b then (some a, s) else (none, s)

/-- the `filter` over `params1` in the function case: a parameter whose label occurs among the
remaining `params2` is unified with it and both are removed -/
def matchLabels : Nat → St → List (Option String × Nat) → List (Option String × Nat) →
    List (Option String × Nat) × List (Option String × Nat) × St
  | 0, s, ps1, ps2 => (ps1, ps2, s)
  | _, s, [], ps2 => ([], ps2, s)
  | fuel + 1, s, p :: ps1, ps2 =>
    match findLabel p.1 ps2 with
    | some (i, v2) =>
      let (_, s1) := tryUnifyVar fuel s p.2 v2
      matchLabels fuel s1 ps1 (ps2.eraseIdx i)
    | none =>
      let (rem1, rem2, s1) := matchLabels fuel s ps1 ps2
      (p :: rem1, rem2, s1)

def unifyAll : Nat → St → List (Nat × Nat) → Bool × St
  | 0, s, _ => (false, s)
  | _, s, [] => (true, s)
  | fuel + 1, s, (a, b) :: rest =>
    let (ok, s1) := tryUnifyVar fuel s a b
    if ok then unifyAll fuel s1 rest else (false, s1)

def unifyIgnore : Nat → St → List (Nat × Nat) → St
  | 0, s, _ => s
  | _, s, [] => s
  | fuel + 1, s, (a, b) :: rest =>
    let (_, s1) := tryUnifyVar fuel s a b
    unifyIgnore fuel s1 rest

/-- `unify_var_ty` -/
def unifyVarTy : Nat → St → Nat → ITy → Bool × St
  | 0, s, _, _ => (false, s)
  | fuel + 1, s, var, rhs =>
    let (lhs, s0) := getTy s var
    let s1 := setTy s0 var (.unknown 0)
    match unify fuel s1 lhs rhs with
    | (some ret, s2) => (true, setTy s2 var ret)
    | (none, s2) => (false, setTy s2 var lhs)

/-- `try_unify_var` -/
def tryUnifyVar : Nat → St → Nat → Nat → Bool × St
  | 0, s, _, _ => (false, s)
  | fuel + 1, s, lhs, rhs =>
    let (rhsTy, s0) := getTy s rhs
    let (ok, s1) := unifyVarTy fuel s0 lhs rhsTy
    if ok then (true, { s1 with table := (UF.unify s1.table lhs rhs).1 }) else (false, s1)
end

def FUEL : Nat := 200

def unifyVar (s : St) (a b : Nat) : St := (tryUnifyVar FUEL s a b).2
def unifyVarWith (s : St) (v : Nat) (ty : ITy) : St := (unifyVarTy FUEL s v ty).2

abbrev Env := List (String × Nat)

/-- `make_ty_from_typeref` for an annotation (the core has no aliases) -/
def fromAnn : Nat → St → Env → Ty → Nat × St × Env
  | 0, s, env, _ => let (v, s') := newTyVar s; (v, s', env)
  | fuel + 1, s, env, t =>
    let rec many (s : St) (env : Env) : List Ty → List Nat × St × Env
      | [] => ([], s, env)
      | t :: ts =>
        let (v, s1, env1) := fromAnn fuel s env t
        let (vs, s2, env2) := many s1 env1 ts
        (v :: vs, s2, env2)
    match t with
    | .int => let (v, s') := intern s .int; (v, s', env)
    | .float => let (v, s') := intern s .float; (v, s', env)
    | .string => let (v, s') := intern s .string; (v, s', env)
    | .bool => let (v, s') := intern s .bool; (v, s', env)
    | .nil => let (v, s') := intern s .nil; (v, s', env)
    | .bitArray => let (v, s') := intern s .bitArray; (v, s', env)
    | .list a =>
      let (va, s1, env1) := fromAnn fuel s env a
      let (v, s2) := intern s1 (.list va); (v, s2, env1)
    | .result a b =>
      let (va, s1, env1) := fromAnn fuel s env a
      let (vb, s2, env2) := fromAnn fuel s1 env1 b
      let (v, s3) := intern s2 (.result va vb); (v, s3, env2)
    | .tuple ts =>
      let (vs, s1, env1) := many s env ts
      let (v, s2) := intern s1 (.tuple vs); (v, s2, env1)
    | .fn ps r =>
      let (vs, s1, env1) := many s env ps
      let (vr, s2, env2) := fromAnn fuel s1 env1 r
      let (v, s3) := intern s2 (.fn (vs.map (fun x => (none, x))) vr); (v, s3, env2)
    | .adt n args =>
      -- a fresh variable per parameter, unified with the parameter's type
      let rec pars (s : St) (env : Env) : List Ty → List Nat × St × Env
        | [] => ([], s, env)
        | a :: as =>
          let (pv, s0) := newTyVar s
          let (va, s1, env1) := fromAnn fuel s0 env a
          let s2 := unifyVar s1 pv va
          let (vs, s3, env3) := pars s2 env1 as
          (pv :: vs, s3, env3)
      let (vs, s1, env1) := pars s env args
      let (v, s2) := intern s1 (.adt n vs); (v, s2, env1)
    | .gen n =>
      match env.lookup n with
      | some v => (v, s, env)
      | none =>
        let (v, s1) := newTyVar s
        let s2 := unifyVarWith s1 v (.unknown v)
        (v, s2, (n, v) :: env)

/-- `make_type`: instantiate a collected scheme -/
def makeType : Nat → St → Env → Ty → Nat × St × Env
  | 0, s, env, _ => let (v, s') := newTyVar s; (v, s', env)
  | fuel + 1, s, env, t =>
    let rec fresh (s : St) (env : Env) : List Ty → List Nat × St × Env
      | [] => ([], s, env)
      | a :: as =>
        let (pv, s0) := newTyVar s
        let (va, s1, env1) := makeType fuel s0 env a
        let s2 := unifyVar s1 pv va
        let (vs, s3, env3) := fresh s2 env1 as
        (pv :: vs, s3, env3)
    let rec plain (s : St) (env : Env) : List Ty → List Nat × St × Env
      | [] => ([], s, env)
      | a :: as =>
        let (va, s1, env1) := makeType fuel s env a
        let (vs, s2, env2) := plain s1 env1 as
        (va :: vs, s2, env2)
    match t with
    | .gen n =>
      (match env.lookup n with
      | some v => (v, s, env)
      | none =>
        let (v, s1) := newTyVar s
        let s2 := unifyVarWith s1 v (.unknown v)
        (v, s2, (n, v) :: env))
    | .int => let (v, s') := intern s .int; (v, s', env)
    | .float => let (v, s') := intern s .float; (v, s', env)
    | .string => let (v, s') := intern s .string; (v, s', env)
    | .bool => let (v, s') := intern s .bool; (v, s', env)
    | .nil => let (v, s') := intern s .nil; (v, s', env)
    | .bitArray => let (v, s') := intern s .bitArray; (v, s', env)
    | .result a b =>
      let (va, s1, env1) := makeType fuel s env a
      let (vb, s2, env2) := makeType fuel s1 env1 b
      let (v, s3) := intern s2 (.result va vb); (v, s3, env2)
    | .list a =>
      let (va, s1, env1) := makeType fuel s env a
      let (v, s2) := intern s1 (.list va); (v, s2, env1)
    | .fn ps r =>
      let (vs, s1, env1) := fresh s env ps
      let (rv, s2) := newTyVar s1
      let (vr, s3, env3) := makeType fuel s2 env1 r
      let s4 := unifyVar s3 rv vr
      let (v, s5) := intern s4 (.fn (vs.map (fun x => (none, x))) rv); (v, s5, env3)
    | .tuple ts =>
      let (vs, s1, env1) := plain s env ts
      let (v, s2) := intern s1 (.tuple vs); (v, s2, env1)
    | .adt n args =>
      let (vs, s1, env1) := fresh s env args
      let (v, s2) := intern s1 (.adt n vs); (v, s2, env1)

/-- what the engine knows about the rest of the program -/
structure Ctx where
  adts : List Adt
  /-- schemes (collected types) and parameter labels of the functions of earlier groups -/
  known : List (String × List (Option String) × Ty)
  /-- the group being inferred: name → index of its placeholder variable -/
  group : List String
deriving Repr, Inhabited

/-- `type_from_variant` / the built-ins of `variant_from_resolve_result`: (type, fields) -/
def variantTy (c : Ctx) (s : St) (name : String) : Nat × List (Option String × Nat) × St :=
  if name == "Nil" then let (v, s') := intern s .nil; (v, [], s')
  else if name == "True" || name == "False" then let (v, s') := intern s .bool; (v, [], s')
  else if name == "Ok" then
    let (ok, s1) := newTyVar s
    let (err, s2) := newTyVar s1
    let (v, s3) := intern s2 (.result ok err); (v, [(none, ok)], s3)
  else if name == "Error" then
    let (err, s1) := newTyVar s
    let (ok, s2) := newTyVar s1
    let (v, s3) := intern s2 (.result ok err); (v, [(none, err)], s3)
  else
    match c.adts.findSome? (fun a => (a.variants.find? (·.name == name)).map (fun v => (a, v))) with
    | none => let (v, s') := newTyVar s; (v, [], s')
    | some (a, vt) =>
      let (fields, s1, env1) := vt.fields.foldl (fun (acc : List (Option String × Nat) × St × Env) f =>
        let (fs, s, env) := acc
        let (v, s', env') := fromAnn FUEL s env f.2
        (fs ++ [(f.1, v)], s', env')) ([], s, [])
      let (gps, s2, _) := a.params.foldl (fun (acc : List Nat × St × Env) p =>
        let (vs, s, env) := acc
        let (v, s', env') := fromAnn FUEL s env (.gen p)
        (vs ++ [v], s', env')) ([], s1, env1)
      let (v, s3) := intern s2 (.adt a.name gps); (v, fields, s3)

def tyForPattern (s : St) (binder : Option Nat) : Nat × St :=
  let (v, s1) := newTyVar s
  match binder with
  | some b => (v, { s1 with pats := (b, v) :: s1.pats })
  | none => (v, s1)

/-- `infer_pattern` -/
def inferPattern (c : Ctx) : Nat → St → Pat → Nat → Nat × St
  | 0, s, _, expected => (expected, s)
  | fuel + 1, s, p, expected =>
    let finish (s : St) (patVar : Nat) : Nat × St := (patVar, unifyVar s expected patVar)
    match p with
    | .var b => let (pv, s1) := tyForPattern s (some b); finish s1 pv
    | .discard => let (pv, s1) := tyForPattern s none; finish s1 pv
    | .int => let (pv, s1) := tyForPattern s none; finish (unifyVarWith s1 pv .int) pv
    | .float => let (pv, s1) := tyForPattern s none; finish (unifyVarWith s1 pv .float) pv
    | .string => let (pv, s1) := tyForPattern s none; finish (unifyVarWith s1 pv .string) pv
    | .tuple ps =>
      let (pv, s1) := tyForPattern s none
      let (fts, s2) := ps.foldl (fun (acc : List Nat × St) q =>
        let (vs, s) := acc
        let (nv, s') := newTyVar s
        let (_, s'') := inferPattern c fuel s' q nv
        (vs ++ [nv], s'')) ([], s1)
      finish (unifyVarWith s2 pv (.tuple fts)) pv
    | .list ps tail =>
      let (pv, s1) := tyForPattern s none
      let (of, s2) := newTyVar s1
      let s3 := ps.foldl (fun s q => (inferPattern c fuel s q of).2) s2
      -- the spread is the last element: its own variable is List(of), not unified with `of`
      let s4 := match tail with
        | .none => s3
        | .discard => let (tv, s') := tyForPattern s3 none; unifyVarWith s' tv (.list of)
        | .bind b => let (tv, s') := tyForPattern s3 (some b); unifyVarWith s' tv (.list of)
      finish (unifyVarWith s4 pv (.list of)) pv
    | .ctor name args =>
      let (pv, s1) := tyForPattern s none
      let (patTy, fieldTys0, s2) := variantTy c s1 name
      -- pad with fresh variables, then labelled arguments by label, the rest by position
      let (fieldTys, s3) := (List.range (args.length - fieldTys0.length)).foldl (fun (acc : List (Option String × Nat) × St) _ =>
        let (fs, s) := acc
        let (v, s') := newTyVar s
        (fs ++ [(none, v)], s')) (fieldTys0, s2)
      let (remArgs, remTys, s4) := args.foldl (fun (acc : List (Option String × Pat) × List (Option String × Nat) × St) a =>
        let (ra, rt, s) := acc
        match findLabel a.1 rt with
        | some (i, v) => (ra, rt.eraseIdx i, (inferPattern c fuel s a.2 v).2)
        | none => (ra ++ [a], rt, s)) ([], fieldTys, s3)
      let s5 := (remArgs.zip remTys).foldl (fun s (a, t) => (inferPattern c fuel s a.2 t.2).2) s4
      finish (unifyVar s5 patTy pv) pv
    | .as_ q b =>
      let (pv, s1) := tyForPattern s none
      let (sub, s2) := inferPattern c fuel s1 q expected
      let (_, s3) := inferPattern c fuel s2 (.var b) expected
      finish (unifyVar s3 pv sub) pv

def opOperand : Op → Option ITy
  | .intArith => some .int | .intCmp => some .int
  | .floatArith => some .float | .floatCmp => some .float
  | .concat => some .string
  | .eq => none

def opIsCmp : Op → Bool
  | .intCmp => true | .floatCmp => true | _ => false

mutual
/-- `infer_expr` (the placeholder variable of the expression is not observable and omitted) -/
def inferExpr (c : Ctx) : Nat → St → Expr → Nat × St
  | 0, s, _ => newTyVar s
  | fuel + 1, s, e =>
    match e with
    | .int => intern s .int
    | .float => intern s .float
    | .str => intern s .string
    | .var b => (match s.pats.lookup b with
      | some v => (v, s)
      | none => newTyVar s)
    | .fnref n =>
      (match c.group.findIdx? (· == n) with
      | some i => (i, s)
      | none => match c.known.find? (·.1 == n) with
        | some (_, labels, ty) =>
          let (v, s', _) := makeType FUEL s [] ty
          -- the collected type of a function keeps its parameter labels
          let (ity, s'') := getTy s' v
          (match ity with
          | .fn ps r => (v, setTy s'' v (.fn (ps.zipIdx.map (fun (p, i) => ((labels[i]?).getD none, p.2))) r))
          | _ => (v, s''))
        | none => newTyVar s)
    | .ctor n =>
      let (ty, params, s1) := variantTy c s n
      if params.isEmpty then (ty, s1) else intern s1 (.fn params ty)
    | .block stmts => inferStmts c fuel s stmts
    | .binop op l r =>
      let (lt, s1) := inferExpr c fuel s l
      let (rt, s2) := inferExpr c fuel s1 r
      (match op, opOperand op with
      | .eq, _ =>
        let (b, s3) := newTyVar s2
        let s4 := unifyVarWith s3 b .bool
        (b, unifyVar s4 lt rt)
      | _, some operand =>
        let s3 := unifyVarWith s2 lt operand
        let s4 := unifyVar s3 lt rt
        if opIsCmp op then
          let (b, s5) := newTyVar s4
          (b, unifyVarWith s5 b .bool)
        else (lt, s4)
      | _, none => newTyVar s2)
    | .tuple es =>
      let (vs, s1) := inferAll c fuel s es
      intern s1 (.tuple vs)
    | .index e i =>
      let (bt, s1) := inferExpr c fuel s e
      let (ty, s2) := getTy s1 bt
      (match ty with
      | .tuple fs => (match fs[i]? with | some v => (v, s2) | none => newTyVar s2)
      | _ => newTyVar s2)
    | .list es =>
      let (of, s1) := newTyVar s
      let s2 := inferElems c fuel s1 es of
      intern s2 (.list of)
    | .listTail es tail =>
      let (of, s1) := newTyVar s
      let s2 := inferElems c fuel s1 es of
      -- the spread element
      let (sp, s3) := inferExpr c fuel s2 tail
      let (of2, s4) := newTyVar s3
      let s5 := unifyVarWith s4 sp (.list of2)
      let s6 := unifyVar s5 of2 of
      intern s6 (.list of)
    | .pipe l r =>
      let (argTy, s1) := inferExpr c fuel s l
      let (retTy, s2) := newTyVar s1
      (match r with
      | .call f args =>
        let (fTy, s3) := inferExpr c fuel s2 f
        let (ty, s4) := getTy s3 fTy
        let (argTys, s5) := inferArgs c fuel s4 args
        (match ty with
        | .fn params ret =>
          let s6 := if params.length > args.length && !params.isEmpty then
              unifyVarWith s5 fTy (.fn ((none, argTy) :: argTys) retTy) else s5
          (ret, s6)
        | _ =>
          let (fun2, s6) := inferExpr c fuel s5 r
          (retTy, unifyVarWith s6 fun2 (.fn [(none, argTy)] retTy)))
      | _ =>
        let (funTy, s3) := inferExpr c fuel s2 r
        (retTy, unifyVarWith s3 funTy (.fn [(none, argTy)] retTy)))
    | .call f args =>
      let (retTy, s1) := newTyVar s
      let (fTy, s2) := inferExpr c fuel s1 f
      let (argTys, s3) := inferArgs c fuel s2 args
      (retTy, unifyVarWith s3 fTy (.fn argTys retTy))
    | .case subjects clauses =>
      let (sts, s1) := inferAll c fuel s subjects
      let (ret, s2) := newTyVar s1
      (ret, inferClauses c fuel s2 clauses sts ret)
    | .lambda params body =>
      let (pts, s1) := params.foldl (fun (acc : List (Option String × Nat) × St) b =>
        let (vs, s) := acc
        let (v, s') := tyForPattern s (some b)
        (vs ++ [(none, v)], s')) ([], s)
      let (bt, s2) := inferExpr c fuel s1 body
      intern s2 (.fn pts bt)
    | .field e label =>
      let (fieldVar, s1) := newTyVar s
      let (bt, s2) := inferExpr c fuel s1 e
      let (ty, s3) := getTy s2 bt
      (match ty with
      | .adt name gps =>
        (match fieldTy { adts := c.adts, fns := [], locals := [] } name label with
        | some (params, ft) =>
          let (s4, env) := (params.zip gps).foldl (fun (acc : St × Env) (p, inst) =>
            let (s, env) := acc
            let (v, s', env') := fromAnn FUEL s env (.gen p)
            (unifyVar s' v inst, env')) (s3, [])
          let (v, s5, _) := fromAnn FUEL s4 env ft
          (v, s5)
        | none => (fieldVar, s3))
      | _ => (fieldVar, s3))

def inferAll (c : Ctx) : Nat → St → List Expr → List Nat × St
  | 0, s, _ => ([], s)
  | _, s, [] => ([], s)
  | fuel + 1, s, e :: es =>
    let (v, s1) := inferExpr c fuel s e
    let (vs, s2) := inferAll c fuel s1 es
    (v :: vs, s2)

def inferElems (c : Ctx) : Nat → St → List Expr → Nat → St
  | 0, s, _, _ => s
  | _, s, [], _ => s
  | fuel + 1, s, e :: es, of =>
    let (v, s1) := inferExpr c fuel s e
    inferElems c fuel (unifyVar s1 v of) es of

def inferArgs (c : Ctx) : Nat → St → List (Option String × Expr) → List (Option String × Nat) × St
  | 0, s, _ => ([], s)
  | _, s, [] => ([], s)
  | fuel + 1, s, (l, e) :: rest =>
    let (v, s1) := inferExpr c fuel s e
    let (vs, s2) := inferArgs c fuel s1 rest
    ((l, v) :: vs, s2)

def inferClauses (c : Ctx) : Nat → St → List (List Pat × Expr) → List Nat → Nat → St
  | 0, s, _, _, _ => s
  | _, s, [], _, _ => s
  | fuel + 1, s, (ps, body) :: rest, sts, ret =>
    let s1 := (ps.zip sts).foldl (fun s (p, t) => (inferPattern c FUEL s p t).2) s
    let (bt, s2) := inferExpr c fuel s1 body
    inferClauses c fuel (unifyVar s2 bt ret) rest sts ret

/-- `infer_stmts` -/
def inferStmts (c : Ctx) : Nat → St → List (Option Pat × Expr) → Nat × St
  | 0, s, _ => newTyVar s
  | fuel + 1, s, stmts =>
    let (last0, s0) := newTyVar s
    inferStmtsGo c fuel s0 last0 stmts

def inferStmtsGo (c : Ctx) : Nat → St → Nat → List (Option Pat × Expr) → Nat × St
  | 0, s, last, _ => (last, s)
  | _, s, last, [] => (last, s)
  | fuel + 1, s, _, (some p, e) :: rest =>
    let (inferred, s1) := inferExpr c fuel s e
    let (pv, s2) := inferPattern c FUEL s1 p inferred
    inferStmtsGo c fuel (unifyVar s2 pv inferred) pv rest
  | fuel + 1, s, _, (none, e) :: rest =>
    let (v, s1) := inferExpr c fuel s e
    inferStmtsGo c fuel s1 v rest
end

/-- `infer_function_header`: the function type as far as the signature gives it, and its return
type variable (the annotated return type or a fresh variable) -/
def inferHeader (s : St) (f : FnDef) (labels : List (Option String)) : Nat × Nat × St :=
  let (paramTys, s1, env1) := (f.params.zip (f.paramAnn ++ List.replicate f.params.length none)).zipIdx.foldl
    (fun (acc : List (Option String × Nat) × St × Env) ((b, ann), i) =>
      let (ps, s, env) := acc
      let (pv, s1) := tyForPattern s (some b)
      let (s2, env2) := match ann with
        | some t => let (v, s', env') := fromAnn FUEL s1 env t; (unifyVar s' pv v, env')
        | none => (s1, env)
      (ps ++ [((labels[i]?).getD none, pv)], s2, env2)) ([], s, [])
  let (ret, s2) := match f.retAnn with
    | some t => let (v, s', _) := fromAnn FUEL s1 env1 t; (v, s')
    | none => newTyVar s1
  let (ty, s3) := intern s2 (.fn paramTys ret)
  (ty, ret, s3)

/-- letters of the `Collector`: a, b, …, z, aa, ab, … -/
def nextLetter (uid : Nat) : String :=
  let rec go (fuel rest : Nat) (acc : List Char) : List Char :=
    match fuel with
    | 0 => acc
    | fuel + 1 =>
      let ch := Char.ofNat (97 + rest % 26)
      let rest' := rest / 26
      if rest' == 0 then ch :: acc else go fuel (rest' - 1) (ch :: acc)
  String.ofList (go 8 uid [])

structure Coll where
  table : Table ITy
  env : List (Nat × String)
  uid : Nat

/-- `Collector::collect` (the cache only cuts cycles; `seen` does that here) -/
def collect : Nat → Coll → List Nat → Nat → Ty × Coll
  | 0, k, _, _ => (.gen "?", k)
  | fuel + 1, k, seen, v =>
    let (t, r) := find k.table v (fuelOf k.table)
    let k := { k with table := t }
    if seen.contains r then (.gen "?", k) else
    let seen := r :: seen
    let rec many (k : Coll) : List Nat → List Ty × Coll
      | [] => ([], k)
      | x :: xs =>
        let (t, k1) := collect fuel k seen x
        let (ts, k2) := many k1 xs
        (t :: ts, k2)
    match (valOf k.table r).getD (.unknown 0) with
    | .unknown idx =>
      (match k.env.lookup idx with
      | some n => (.gen n, k)
      | none =>
        let n := nextLetter k.uid
        (.gen n, { k with env := (idx, n) :: k.env, uid := k.uid + 1 }))
    | .nil => (.nil, k) | .bool => (.bool, k) | .int => (.int, k) | .float => (.float, k)
    | .string => (.string, k) | .bitArray => (.bitArray, k)
    | .result a b =>
      let (ta, k1) := collect fuel k seen a
      let (tb, k2) := collect fuel k1 seen b
      (.result ta tb, k2)
    | .list a => let (ta, k1) := collect fuel k seen a; (.list ta, k1)
    | .fn ps r =>
      let (tps, k1) := many k (ps.map (·.2))
      let (tr, k2) := collect fuel k1 seen r
      (.fn tps tr, k2)
    | .tuple fs => let (ts, k1) := many k fs; (.tuple ts, k1)
    | .adt n gps => let (ts, k1) := many k gps; (.adt n ts, k1)

structure Result where
  fnTys : List (String × Ty)
  locals : List (Nat × Ty)
deriving Repr, Inhabited

/-- `infer_function_group_query` + `finish_infer` for one group -/
def inferGroup (adts : List Adt) (known : List (String × List (Option String) × Ty))
    (group : List (FnDef × List (Option String))) : Result :=
  let names := group.map (·.1.name)
  let c : Ctx := { adts := adts, known := known, group := names }
  -- placeholders: one Unknown per function of the group
  let table0 : Table ITy := (List.range group.length).map (fun i => { val := some (.unknown (i + 1)), parent := i, rank := 0 })
  let s0 : St := { table := table0, idx := group.length, pats := [] }
  -- headers of all functions of the group first, then the bodies
  let (fnVars, rets, s1) := group.zipIdx.foldl (fun (acc : List (String × Nat) × List Nat × St) ((f, labels), i) =>
    let (vs, rs, s) := acc
    let (ty, ret, s') := inferHeader s f labels
    (vs ++ [(f.name, ty)], rs ++ [ret], unifyVar s' ty i)) ([], [], s0)
  let s1 := (group.zip rets).foldl (fun (s : St) ((f, _), ret) =>
    let (bodyTy, s') := inferExpr c FUEL s f.body
    unifyVar s' ret bodyTy) s1
  let k0 : Coll := { table := s1.table, env := [], uid := 0 }
  let (locals, k1) := s1.pats.reverse.foldl (fun (acc : List (Nat × Ty) × Coll) (b, v) =>
    let (ls, k) := acc
    let (t, k') := collect FUEL k [] v
    (ls ++ [(b, t)], k')) ([], k0)
  let (fnTys, _) := fnVars.foldl (fun (acc : List (String × Ty) × Coll) (n, v) =>
    let (fs, k) := acc
    let (t, k') := collect FUEL k [] v
    (fs ++ [(n, t)], k')) ([], k1)
  { fnTys := fnTys, locals := locals }

/-- the whole program, group by group (callees first) -/
def inferProgram (adts : List Adt) (groups : List (List (FnDef × List (Option String)))) : Result :=
  groups.foldl (fun (acc : Result) g =>
    let known := acc.fnTys.map (fun (n, t) =>
      (n, ((groups.flatten.find? (·.1.name == n)).map (·.2)).getD [], t))
    let r := inferGroup adts known g
    { fnTys := acc.fnTys ++ r.fnTys, locals := acc.locals ++ r.locals }) { fnTys := [], locals := [] }

end Glas.Infer
