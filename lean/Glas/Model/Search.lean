/-!
# M-search: model of `ide/src/def/search.rs` (`FindUsages::search`), `references`, `highlight_related`

The search is textual: in every file of the definition's search scope, every token spelled with the
definition's *search name* whose parent is a name-like node (`Name`, `NameRef`, `TypeName`, `Label`)
is classified, and reported (with the parent node's range) when it classifies to the definition.
`classify` (go-to-definition) is a parameter: each token carries the definition it classifies to.
-/
namespace Glas.Search

structure Tok where
  file : Nat
  start : Nat
  stop : Nat
  text : String
  /-- the parent node casts to `TypeNameOrName` -/
  castable : Bool
  /-- `classify_node` of the parent: the definition the token leads to -/
  cls : Option Nat
deriving Repr, DecidableEq, Inhabited

structure DefInfo where
  id : Nat
  /-- `Definition::name` (`None` for modules and built-ins): what the text search looks for -/
  searchName : Option String
  /-- files of `Definition::search_scope` -/
  scope : List Nat
deriving Repr, DecidableEq, Inhabited

abbrev Ref := Nat × Nat × Nat

def hit (d : DefInfo) (n : String) (t : Tok) : Bool :=
  d.scope.contains t.file && t.text == n && t.castable && t.cls == some d.id

/-- `Definition::search_scope`: a local is searched in its own module; every other definition in the modules of the
packages of the package graph and - whether or not it belongs to one of them - in its own module -/
def searchScope (graphFiles : List Nat) (isLocal : Bool) (own : Nat) : List Nat :=
  if isLocal then [own] else own :: graphFiles

/-- `references`: the hits, collected into a `HashSet` -/
def references (toks : List Tok) (d : DefInfo) : List Ref :=
  match d.searchName with
  | none => []
  | some n => ((toks.filter (hit d n)).map (fun t => (t.file, t.start, t.stop))).eraseDups

/-- `highlight_related`: the references lying in the current file -/
def highlight (toks : List Tok) (d : DefInfo) (file : Nat) : List Ref :=
  (references toks d).filter (fun r => r.1 == file)

end Glas.Search
