/-!
# Text edits (model of `WorkspaceEdit` application as an LSP client performs it) for C07

A file is a list of tokens (their texts); a rename replaces the text of the tokens at a set of
indices.  At byte level the same rename is a list of edits `(start, stop, newText)` applied to the
concatenated text; edits are applied from the last to the first so that earlier offsets stay valid.
-/
namespace Glas.Edits

abbrev Text := List Char

def offsets : List Text → Nat → List (Nat × Nat)
  | [], _ => []
  | t :: ts, off => (off, off + t.length) :: offsets ts (off + t.length)

/-- token-level rename -/
def renameToks (ts : List Text) (sel : Nat → Bool) (new : Text) : List Text :=
  (ts.zipIdx).map (fun p => if sel p.2 then new else p.1)

/-- the edits a rename of the selected tokens produces (ascending, disjoint by construction) -/
def editsOf (ts : List Text) (sel : Nat → Bool) (new : Text) : List (Nat × Nat × Text) :=
  (((offsets ts 0).zipIdx).filter (fun p => sel p.2)).map (fun p => (p.1.1, p.1.2, new))

/-- replace `[a, b)` of `s` by `ins` -/
def splice (s : Text) (a b : Nat) (ins : Text) : Text := s.take a ++ ins ++ s.drop b

/-- apply ascending disjoint edits from the last to the first -/
def applyEdits (s : Text) (edits : List (Nat × Nat × Text)) : Text :=
  edits.foldr (fun e acc => splice acc e.1 e.2.1 e.2.2) s

end Glas.Edits
