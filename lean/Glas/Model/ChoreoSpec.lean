/-! Vocabulary of the extracted cancellation / lock choreography (Gen/Choreo.lean). -/
namespace Glas.ChoreoSpec

structure HostFlags where
  /-- `AnalysisHost::apply_change` calls `request_cancellation()` before `change.apply(..)` -/
  cancelBeforeApply : Bool
  /-- `request_cancellation` is a salsa synthetic write (sets the cancellation flag of running snapshots) -/
  cancelIsSyntheticWrite : Bool
  /-- `Analysis::with_db` wraps the query in `Cancelled::catch` -/
  catchCancelled : Bool
  /-- every public query of `Analysis` goes through `with_db` -/
  allQueriesThroughWithDb : Bool
  /-- `AnalysisHost::snapshot` is `db.snapshot()` -/
  snapshotIsDbSnapshot : Bool
deriving Repr, DecidableEq, Inhabited

inductive Op where
  | acqVfsW | acqVfsR | relVfs | dbWrite | snap | spawn
  | call (method : String)
deriving Repr, DecidableEq, Inhabited

/-- operations of a request task (a handler in `handler.rs`) on the shared state -/
inductive TOp where
  /-- `snap.vfs()`: take the read lock of the document store -/
  | acqR
  /-- the read guard goes out of scope -/
  | relR
  /-- a query on the analysis snapshot (`snap.analysis.…`); `work` further salsa steps, each of which checks for cancellation -/
  | query (work : Nat)
deriving Repr, DecidableEq, Inhabited

structure ServerFlags where
  /-- the analysis snapshot of a request task is taken on the loop thread before `spawn_blocking` -/
  snapshotBeforeSpawn : Bool
  /-- request tasks read the live document store (`StateSnapshot::vfs`) -/
  tasksReadLiveVfs : Bool
  /-- `StateSnapshot::vfs` is exactly `self.vfs.read().unwrap()` (no other lock, no upgrade) -/
  snapVfsIsRead : Bool
deriving Repr, DecidableEq, Inhabited

end Glas.ChoreoSpec
