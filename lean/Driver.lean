import Glas.Model.TextCmd
import Glas.Model.SyntaxCmd
import Glas.Model.ScopeCmd
import Glas.Model.PrattCmd
import Glas.Model.SearchCmd
import Glas.Model.ServerCmd
import Glas.Model.ProjectCmd
import Glas.Model.DbCmd
import Glas.Model.ConcCmd
import Glas.Model.UnionFindCmd
import Glas.Model.TySpecCmd
import Glas.Model.ImportsCmd
import Glas.Model.FieldsCmd
import Glas.Model.HighlightCmd
import Glas.Model.CollectCmd
import Glas.Model.VfsIdsCmd
/-! The executable model behind a one-line-in, one-line-out protocol (tab-separated fields). -/
open Glas

def dispatch (line : String) : String :=
  let args := line.splitOn "\t"
  match TextCmd.run args with
  | some r => r
  | none =>
    match SyntaxCmd.run args with
    | some r => r
    | none =>
      match ScopeCmd.run args with
      | some r => r
      | none =>
        match PrattCmd.run args with
        | some r => r
        | none =>
          match SearchCmd.run args with
          | some r => r
          | none =>
            match ServerCmd.run args with
            | some r => r
            | none =>
              match ProjectCmd.run args with
              | some r => r
              | none =>
                match DbCmd.run args with
                | some r => r
                | none =>
                  match ConcCmd.run args with
                  | some r => r
                  | none =>
                    match UFCmd.run args with
                    | some r => r
                    | none =>
                      match TySpecCmd.run args with
                      | some r => r
                      | none =>
                        match ImportsCmd.run args with
                        | some r => r
                        | none =>
                          match FieldsCmd.run args with
                          | some r => r
                          | none =>
                            match HighlightCmd.run args with
                            | some r => r
                            | none =>
                              match CollectCmd.run args with
                              | some r => r
                              | none =>
                                match VfsIdsCmd.run args with
                                | some r => r
                                | none => "bad-op"

partial def loop (h : IO.FS.Stream) (out : IO.FS.Stream) : IO Unit := do
  let line ← h.getLine
  if line.isEmpty then return ()
  let line := if line.endsWith "\n" then (line.dropEnd 1).toString else line
  out.putStrLn (dispatch line)
  loop h out

def main : IO Unit := do
  let out ← IO.getStdout
  loop (← IO.getStdin) out
  out.flush
