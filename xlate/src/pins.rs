//! Pins of hand-modelled code.  The models under lean/Glas/Model that are written by hand (M-text, M-vfs-ids, M-uf,
//! M-collect, M-db, M-imports, M-project, M-search, M-fields) are tied to the code by correspondence runs only.  To
//! notice that the code they were written from has been edited, the token text of the modelled functions is pinned:
//! `xlate/pins.spec` names them (`group <TAB> file <TAB> item`, item = `fn name`, `Type::method` or `Type::*`),
//! `xlate/pins.expected` holds the text the models were written from (regenerate with GLAS_XLATE_PRINT_PINS=1 after
//! re-reading the model against the new text).  A group with a differing pin is reported as
//! `FALLBACK pin_<group>: …`; the checks of the properties that rest on that model then run their correspondence
//! with three seeds instead of one and record the fact in the evidence.  Nothing is replaced: the model stays the
//! hand-written one.
use quote::ToTokens;
use std::collections::BTreeMap;
use std::fs;
use std::path::Path;
use syn::*;

fn norm(ts: proc_macro2::TokenStream) -> String {
    ts.to_string().split_whitespace().collect::<Vec<_>>().join(" ")
}

/// every function of a file: free functions as `fn name`, methods as `Type::name` (test modules are skipped)
fn functions(file: &File) -> Vec<(String, String)> {
    let mut out = Vec::new();
    for it in &file.items {
        match it {
            Item::Fn(f) => out.push((format!("fn {}", f.sig.ident), norm(f.to_token_stream()))),
            Item::Impl(im) => {
                let ty = match &*im.self_ty {
                    Type::Path(tp) => tp.path.segments.last().map(|s| s.ident.to_string()).unwrap_or_default(),
                    _ => String::new(),
                };
                if im.trait_.is_some() {
                    continue;
                }
                for ii in &im.items {
                    if let ImplItem::Fn(f) = ii {
                        out.push((format!("{}::{}", ty, f.sig.ident), norm(f.to_token_stream())));
                    }
                }
            }
            _ => {}
        }
    }
    out
}

pub fn check(repo: &Path) -> Vec<(String, String)> {
    let spec = include_str!("../pins.spec");
    let expected: BTreeMap<(String, String, String), String> = include_str!("../pins.expected")
        .lines()
        .filter(|l| !l.is_empty())
        .filter_map(|l| {
            let v: Vec<&str> = l.splitn(4, '\t').collect();
            if v.len() == 4 { Some(((v[0].to_string(), v[1].to_string(), v[2].to_string()), v[3].to_string())) } else { None }
        })
        .collect();
    let print = std::env::var("GLAS_XLATE_PRINT_PINS").is_ok();
    let mut parsed: BTreeMap<String, Option<Vec<(String, String)>>> = BTreeMap::new();
    let mut found: BTreeMap<(String, String, String), String> = BTreeMap::new();
    let mut problems: BTreeMap<String, Vec<String>> = BTreeMap::new();
    for line in spec.lines() {
        let line = line.trim_end();
        if line.is_empty() || line.starts_with('#') {
            continue;
        }
        let v: Vec<&str> = line.split('\t').collect();
        if v.len() != 3 {
            continue;
        }
        let (group, file, item) = (v[0].to_string(), v[1].to_string(), v[2].to_string());
        let fns = parsed.entry(file.clone()).or_insert_with(|| {
            fs::read_to_string(repo.join(&file)).ok().and_then(|s| syn::parse_file(&s).ok()).map(|f| functions(&f))
        });
        let Some(fns) = fns else {
            problems.entry(group).or_default().push(format!("{file}: not readable"));
            continue;
        };
        let matches: Vec<&(String, String)> = if let Some(ty) = item.strip_suffix("::*") {
            fns.iter().filter(|(n, _)| n.starts_with(&format!("{ty}::"))).collect()
        } else {
            fns.iter().filter(|(n, _)| *n == item).collect()
        };
        if matches.is_empty() {
            problems.entry(group.clone()).or_default().push(format!("{file}: {item} not found"));
        }
        for (n, t) in matches {
            found.insert((group.clone(), file.clone(), n.clone()), t.clone());
        }
    }
    if print {
        for ((g, f, n), t) in &found {
            println!("PIN\t{g}\t{f}\t{n}\t{t}");
        }
    }
    for (k, t) in &found {
        match expected.get(k) {
            Some(e) if e == t => {}
            Some(_) => problems.entry(k.0.clone()).or_default().push(format!("{}: {} is not the text its model was written from", k.1, k.2)),
            None => problems.entry(k.0.clone()).or_default().push(format!("{}: {} has no pinned text", k.1, k.2)),
        }
    }
    for k in expected.keys() {
        if !found.contains_key(k) {
            problems.entry(k.0.clone()).or_default().push(format!("{}: {} (pinned) no longer exists", k.1, k.2));
        }
    }
    problems.into_iter().map(|(g, v)| (g, v.join("; "))).collect()
}
