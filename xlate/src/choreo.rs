//! `crates/ide/src/ide/mod.rs` (cancel-before-apply, Cancelled::catch) and `crates/glas/src/server.rs`
//! (lock choreography of the notification path and of request tasks) → Gen/Choreo.lean
use crate::kinds::norm_tokens;
use quote::ToTokens;
use syn::*;

fn find_fn<'a>(file: &'a File, imp: &str, name: &str) -> Option<&'a ImplItemFn> {
    for it in &file.items {
        if let Item::Impl(im) = it {
            if let Type::Path(tp) = &*im.self_ty {
                if tp.path.segments.last().map(|s| s.ident == imp).unwrap_or(false) {
                    for ii in &im.items {
                        if let ImplItem::Fn(f) = ii {
                            if f.sig.ident == name {
                                return Some(f);
                            }
                        }
                    }
                }
            }
        }
    }
    None
}

/// position of `needle` in `hay`, or an error naming what is missing
fn pos(hay: &str, needle: &str, what: &str) -> std::result::Result<usize, String> {
    hay.find(needle).ok_or_else(|| format!("{what}: `{needle}` not found"))
}

#[derive(Debug)]
enum Op {
    AcqVfsW,
    AcqVfsR,
    RelVfs,
    DbWrite,
    Snap,
    Spawn,
    Call(String),
}

/// linearise a method body into lock operations, in source order (straight-line view: branches are
/// flattened, which is what matters for "is the guard released before …")
fn ops_of(body: &str) -> Vec<(usize, Op)> {
    let mut v = Vec::new();
    let pats: [(&str, fn() -> Op); 12] = [
        ("self.vfs.write().unwrap()", || Op::AcqVfsW),
        ("self.vfs.read().unwrap()", || Op::AcqVfsR),
        ("drop(vfs)", || Op::RelVfs),
        ("self.host.apply_change(", || Op::DbWrite),
        // cancels and waits for every snapshot to be dropped, like the write itself
        ("self.host.request_cancellation()", || Op::DbWrite),
        ("self.host.snapshot()", || Op::Snap),
        ("task::spawn_blocking(", || Op::Spawn),
        ("self.apply_vfs_change()", || Op::Call("apply_vfs_change".into())),
        ("self.set_vfs_file_content(", || Op::Call("set_vfs_file_content".into())),
        ("self.spawn_with_snapshot(", || Op::Call("spawn_with_snapshot".into())),
        ("self.spawn_update_diagnostics(", || Op::Call("spawn_update_diagnostics".into())),
        ("self.spawn_update_all_diagnostics()", || Op::Call("spawn_update_all_diagnostics".into())),
    ];
    for (p, mk) in pats.iter() {
        let mut start = 0;
        while let Some(i) = body[start..].find(p) {
            v.push((start + i, mk()));
            start += i + p.len();
        }
    }
    v.sort_by_key(|x| x.0);
    v
}

fn lean_ops(ops: &[(usize, Op)]) -> String {
    let items: Vec<String> = ops
        .iter()
        .map(|(_, o)| match o {
            Op::AcqVfsW => ".acqVfsW".to_string(),
            Op::AcqVfsR => ".acqVfsR".to_string(),
            Op::RelVfs => ".relVfs".to_string(),
            Op::DbWrite => ".dbWrite".to_string(),
            Op::Snap => ".snap".to_string(),
            Op::Spawn => ".spawn".to_string(),
            Op::Call(n) => format!(".call \"{n}\""),
        })
        .collect();
    format!("[{}]", items.join(", "))
}

fn cfg_kind(attrs: &[Attribute]) -> Option<bool> {
    // Some(true): #[cfg(feature = "verif")]   Some(false): #[cfg(not(feature = "verif"))]
    for a in attrs {
        if a.path().is_ident("cfg") {
            let t = norm_tokens(&a.meta.to_token_stream());
            if t == "cfg(feature=\"verif\")" {
                return Some(true);
            }
            if t == "cfg(not(feature=\"verif\"))" {
                return Some(false);
            }
        }
    }
    None
}

fn expr_attrs(e: &Expr) -> &[Attribute] {
    match e {
        Expr::Return(x) => &x.attrs,
        Expr::MethodCall(x) => &x.attrs,
        Expr::Call(x) => &x.attrs,
        Expr::Block(x) => &x.attrs,
        Expr::Macro(x) => &x.attrs,
        Expr::If(x) => &x.attrs,
        Expr::Path(x) => &x.attrs,
        Expr::Assign(x) => &x.attrs,
        _ => &[],
    }
}

/// the body as compiled with the hook feature off: statements under `#[cfg(feature = "verif")]`
/// are dropped, `#[cfg(not(feature = "verif"))]` attributes are erased (top level of the block)
fn without_hooks(b: &Block) -> String {
    let mut out = String::from("{");
    for st in &b.stmts {
        let attrs: &[Attribute] = match st {
            Stmt::Local(l) => &l.attrs,
            Stmt::Expr(e, _) => expr_attrs(e),
            Stmt::Macro(m) => &m.attrs,
            _ => &[],
        };
        match cfg_kind(attrs) {
            Some(true) => continue,
            Some(false) => {
                let mut t = norm_tokens(&st.to_token_stream());
                t = t.replacen("#[cfg(not(feature=\"verif\"))]", "", 1);
                out.push_str(&t);
            }
            None => out.push_str(&norm_tokens(&st.to_token_stream())),
        }
    }
    out.push('}');
    out
}

#[derive(Debug, Clone, PartialEq)]
enum TOp {
    AcqR,
    RelR,
    Query,
}

fn is_snap(e: &Expr) -> bool {
    matches!(e, Expr::Path(p) if p.path.is_ident("snap"))
}
fn is_snap_vfs(e: &Expr) -> bool {
    match e {
        Expr::MethodCall(m) => m.method == "vfs" && m.args.is_empty() && is_snap(&m.receiver),
        Expr::Paren(p) => is_snap_vfs(&p.expr),
        _ => false,
    }
}
fn is_snap_analysis(e: &Expr) -> bool {
    match e {
        Expr::Field(f) => is_snap(&f.base) && matches!(&f.member, Member::Named(n) if n == "analysis"),
        _ => false,
    }
}

/// walks a handler body in source order: `snap.vfs()` as a temporary lives to the end of its
/// statement, bound by `let` to the end of its block
struct Walk {
    ops: Vec<TOp>,
    temps: usize,
}
impl Walk {
    fn stmt_expr(&mut self, e: &Expr) {
        let t0 = self.temps;
        self.temps = 0;
        syn::visit::Visit::visit_expr(self, e);
        for _ in 0..self.temps {
            self.ops.push(TOp::RelR);
        }
        self.temps = t0;
    }
}
impl<'ast> syn::visit::Visit<'ast> for Walk {
    fn visit_block(&mut self, b: &'ast Block) {
        let mut held = 0;
        for st in &b.stmts {
            match st {
                Stmt::Local(l) => {
                    if let Some(init) = &l.init {
                        if is_snap_vfs(&init.expr) {
                            self.ops.push(TOp::AcqR);
                            held += 1;
                            continue;
                        }
                        self.stmt_expr(&init.expr);
                        if let Some((_, d)) = &init.diverge {
                            self.stmt_expr(d);
                        }
                    }
                }
                Stmt::Expr(e, _) => self.stmt_expr(e),
                _ => {}
            }
        }
        for _ in 0..held {
            self.ops.push(TOp::RelR);
        }
    }
    fn visit_expr_method_call(&mut self, m: &'ast ExprMethodCall) {
        if m.method == "vfs" && m.args.is_empty() && is_snap(&m.receiver) {
            self.ops.push(TOp::AcqR);
            self.temps += 1;
            return;
        }
        self.visit_expr(&m.receiver);
        for a in &m.args {
            self.visit_expr(a);
        }
        if is_snap_analysis(&m.receiver) {
            self.ops.push(TOp::Query);
        }
    }
}

fn handler_tasks(repo: &std::path::Path) -> std::result::Result<Vec<(String, Vec<TOp>)>, String> {
    let src = std::fs::read_to_string(repo.join("crates/glas/src/handler.rs")).map_err(|e| format!("handler.rs: {e}"))?;
    let file = syn::parse_file(&src).map_err(|e| format!("handler.rs:{}: {e}", e.span().start().line))?;
    let mut out = Vec::new();
    for it in &file.items {
        if let Item::Fn(f) = it {
            let takes_snap = f.sig.inputs.iter().any(|a| match a {
                FnArg::Typed(t) => norm_tokens(&t.ty.to_token_stream()) == "StateSnapshot",
                _ => false,
            });
            if !takes_snap {
                continue;
            }
            let mut w = Walk { ops: Vec::new(), temps: 0 };
            syn::visit::Visit::visit_block(&mut w, &f.block);
            out.push((f.sig.ident.to_string(), w.ops));
        }
    }
    if out.is_empty() {
        return Err("handler.rs: no handler taking a StateSnapshot found".into());
    }
    Ok(out)
}

pub fn extract(repo: &std::path::Path) -> std::result::Result<String, String> {
    let ide_src = std::fs::read_to_string(repo.join("crates/ide/src/ide/mod.rs")).map_err(|e| format!("ide/mod.rs: {e}"))?;
    let ide = syn::parse_file(&ide_src).map_err(|e| format!("ide/mod.rs:{}: {e}", e.span().start().line))?;
    let apply = find_fn(&ide, "AnalysisHost", "apply_change").ok_or("ide/mod.rs: AnalysisHost::apply_change not found")?;
    let a = norm_tokens(&apply.block.to_token_stream());
    let cancel_before_apply = match (a.find("self.request_cancellation()"), a.find("change.apply(&mutself.db)")) {
        (Some(x), Some(y)) => x < y,
        (_, None) => return Err("ide/mod.rs: apply_change no longer calls change.apply(&mut self.db)".into()),
        (None, Some(_)) => false,
    };
    let rc = find_fn(&ide, "AnalysisHost", "request_cancellation").ok_or("ide/mod.rs: request_cancellation not found")?;
    let cancel_is_synthetic_write = norm_tokens(&rc.block.to_token_stream()).contains("synthetic_write(");
    let with_db = find_fn(&ide, "Analysis", "with_db").ok_or("ide/mod.rs: Analysis::with_db not found")?;
    let catch_cancelled = norm_tokens(&with_db.block.to_token_stream()).contains("Cancelled::catch(||f(&self.db))");
    // every public query of Analysis goes through with_db
    let mut queries = Vec::new();
    let mut all_through = true;
    for it in &ide.items {
        if let Item::Impl(im) = it {
            if let Type::Path(tp) = &*im.self_ty {
                if tp.path.is_ident("Analysis") {
                    for ii in &im.items {
                        if let ImplItem::Fn(f) = ii {
                            if matches!(f.vis, Visibility::Public(_)) {
                                let b = norm_tokens(&f.block.to_token_stream());
                                queries.push(f.sig.ident.to_string());
                                if !b.starts_with("{self.with_db(") {
                                    all_through = false;
                                }
                            }
                        }
                    }
                }
            }
        }
    }
    let snapshot_fn = find_fn(&ide, "AnalysisHost", "snapshot").ok_or("ide/mod.rs: AnalysisHost::snapshot not found")?;
    let snapshot_is_db_snapshot = norm_tokens(&snapshot_fn.block.to_token_stream()).contains("db:self.db.snapshot()");

    let srv_src = std::fs::read_to_string(repo.join("crates/glas/src/server.rs")).map_err(|e| format!("server.rs: {e}"))?;
    let srv = syn::parse_file(&srv_src).map_err(|e| format!("server.rs:{}: {e}", e.span().start().line))?;
    let mut methods = Vec::new();
    for name in ["on_did_open", "on_did_change", "on_did_close", "set_vfs_file_content", "apply_vfs_change", "spawn_with_snapshot", "spawn_update_diagnostics", "spawn_update_all_diagnostics", "on_set_package_graph"] {
        let f = find_fn(&srv, "Server", name).ok_or(format!("server.rs: Server::{name} not found"))?;
        let body = norm_tokens(&f.block.to_token_stream());
        methods.push((name.to_string(), lean_ops(&ops_of(&body))));
    }
    // the snapshot handed to a request task is created on the loop thread, before spawn_blocking
    let sws = norm_tokens(&find_fn(&srv, "Server", "spawn_with_snapshot").unwrap().block.to_token_stream());
    let snap_pos = pos(&sws, "self.host.snapshot()", "spawn_with_snapshot")?;
    let spawn_pos = pos(&sws, "task::spawn_blocking(", "spawn_with_snapshot")?;
    let snapshot_before_spawn = snap_pos < spawn_pos;
    // request tasks read the live document store through snap.vfs()
    let state_vfs = srv_src.contains("self.vfs.read().unwrap()");
    let snap_vfs_fn = find_fn(&srv, "StateSnapshot", "vfs").ok_or("server.rs: StateSnapshot::vfs not found")?;
    let snap_vfs_is_read = without_hooks(&snap_vfs_fn.block) == "{self.vfs.read().unwrap()}";
    let handlers = handler_tasks(repo)?;
    // the diagnostics path: generation per calculation, stale results dropped, cancelled ones silent, every document recalculated
    let body_of = |name: &str| -> std::result::Result<String, String> {
        Ok(norm_tokens(&find_fn(&srv, "Server", name).ok_or(format!("server.rs: Server::{name} not found"))?.block.to_token_stream()))
    };
    let sud = body_of("spawn_update_diagnostics")?;
    let oud = body_of("on_update_diagnostics")?;
    let suad = body_of("spawn_update_all_diagnostics")?;
    let gen_per_spawn = sud.contains("f.diagnostics_generation=f.diagnostics_generation.wrapping_add(1);")
        && sud.contains("letgeneration=f.diagnostics_generation;")
        && sud.contains("version:Some(generation)");
    let drop_stale = oud.contains("letgeneration=diagnostics.version.take();")
        && oud.contains("ifgeneration!=Some(f.diagnostics_generation){returnControlFlow::Continue(());}");
    let cancelled_silent = sud.contains("Err(err)iferr.is::<Cancelled>()=>None");
    let respawn_all = suad.contains("self.opened_files.keys()")
        && suad.contains("foruriinuris{self.spawn_update_diagnostics(uri);}")
        && body_of("on_did_change")?.contains("self.spawn_update_all_diagnostics()")
        && body_of("on_did_open")?.contains("self.spawn_update_all_diagnostics()");

    let mut s = String::new();
    s.push_str("import Glas.Model.ChoreoSpec\nimport Glas.Model.Diag\n/-! GENERATED by xlate from crates/ide/src/ide/mod.rs and crates/glas/src/server.rs — do not edit. -/\nnamespace Glas.Gen\nopen Glas.ChoreoSpec\n\n");
    s.push_str(&format!(
        "def hostFlags : HostFlags := {{ cancelBeforeApply := {cancel_before_apply}, cancelIsSyntheticWrite := {cancel_is_synthetic_write}, catchCancelled := {catch_cancelled}, allQueriesThroughWithDb := {all_through}, snapshotIsDbSnapshot := {snapshot_is_db_snapshot} }}\n\n"
    ));
    s.push_str(&format!(
        "def analysisQueries : List String := [{}]\n\n",
        queries.iter().map(|q| format!("\"{q}\"")).collect::<Vec<_>>().join(", ")
    ));
    s.push_str("/-- lock operations of the server methods on the main loop, in source order -/\ndef serverMethods : List (String × List Op) := [\n");
    s.push_str(&methods.iter().map(|(n, o)| format!("  (\"{n}\", {o})")).collect::<Vec<_>>().join(",\n"));
    s.push_str("\n]\n\n");
    s.push_str(&format!(
        "def serverFlags : ServerFlags := {{ snapshotBeforeSpawn := {snapshot_before_spawn}, tasksReadLiveVfs := {state_vfs}, snapVfsIsRead := {snap_vfs_is_read} }}\n\n"
    ));
    s.push_str(&format!(
        "/-- the diagnostics path of server.rs (spawn_update_diagnostics / on_update_diagnostics / spawn_update_all_diagnostics) -/\ndef diagFlags : Glas.Diag.Flags := {{ genPerSpawn := {gen_per_spawn}, dropStale := {drop_stale}, cancelledSilent := {cancelled_silent}, respawnAll := {respawn_all} }}\n\n"
    ));
    s.push_str("/-- operations of each request handler (handler.rs) on the document store and the snapshot, in source order -/\ndef handlerTasks : List (String × List TOp) := [\n");
    s.push_str(
        &handlers
            .iter()
            .map(|(n, ops)| {
                let o: Vec<&str> = ops
                    .iter()
                    .map(|o| match o {
                        TOp::AcqR => ".acqR",
                        TOp::RelR => ".relR",
                        TOp::Query => ".query 2",
                    })
                    .collect();
                format!("  (\"{n}\", [{}])", o.join(", "))
            })
            .collect::<Vec<_>>()
            .join(",\n"),
    );
    s.push_str("\n]\n\nend Glas.Gen\n");
    Ok(s)
}
