//! The DSL the parser is translated into (mirror of lean/Glas/Model/Dsl.lean) and its Lean printer.
#[derive(Clone, Debug)]
pub enum SetE {
    Named(String),
    Kinds(Vec<String>),
    Union(Box<SetE>, Box<SetE>),
}

impl SetE {
    pub fn lean(&self) -> String {
        match self {
            SetE::Named(n) => format!("S_{n}"),
            SetE::Kinds(ks) => format!(
                "(mask [{}])",
                ks.iter().map(|k| format!("K_{k}")).collect::<Vec<_>>().join(", ")
            ),
            SetE::Union(a, b) => format!("({} ||| {})", a.lean(), b.lean()),
        }
    }
}

#[derive(Clone, Debug)]
pub enum E {
    Lit(u64),
    Kind(String),
    Var(usize),
    Nth(u64),
    Eof,
    InSet(SetE, Box<E>),
    Eq(Box<E>, Box<E>),
    Lt(Box<E>, Box<E>),
    Not(Box<E>),
    And(Box<E>, Box<E>),
    Or(Box<E>, Box<E>),
    Tbl(usize, Box<E>),
}

impl E {
    pub fn lean(&self) -> String {
        match self {
            E::Lit(n) => format!("(.lit {n})"),
            E::Kind(k) => format!("(.lit K_{k})"),
            E::Var(x) => format!("(.var {x})"),
            E::Nth(k) => format!("(.nth {k})"),
            E::Eof => ".eof".into(),
            E::InSet(s, e) => format!("(.inSet {} {})", s.lean(), e.lean()),
            E::Eq(a, b) => format!("(.eq {} {})", a.lean(), b.lean()),
            E::Lt(a, b) => format!("(.lt {} {})", a.lean(), b.lean()),
            E::Not(a) => format!("(.not {})", a.lean()),
            E::And(a, b) => format!("(.and {} {})", a.lean(), b.lean()),
            E::Or(a, b) => format!("(.or {} {})", a.lean(), b.lean()),
            E::Tbl(t, e) => format!("(.tbl {t} {})", e.lean()),
        }
    }
}

#[derive(Clone, Debug)]
pub enum Ret {
    Unit,
    Nat(E),
    Mark(usize),
    NoMark,
}

#[derive(Clone, Debug)]
pub enum Dst {
    None,
    Nat(usize),
    Mark(usize),
    OptMark(usize, usize),
}

#[derive(Clone, Debug)]
pub enum S {
    Skip,
    Bump,
    Err(usize, Option<String>),
    Open(usize),
    OpenBefore(usize, usize),
    Close(usize, String, Option<usize>),
    Assert(E),
    Set(usize, E),
    Seq(Box<S>, Box<S>),
    Ite(E, Box<S>, Box<S>),
    Loop(Box<S>),
    Brk,
    Ret(Ret),
    Call(usize, Vec<E>, Vec<usize>, Dst),
}

pub fn seq(a: S, b: S) -> S {
    match (&a, &b) {
        (S::Skip, _) => b,
        (_, S::Skip) => a,
        _ => S::Seq(Box::new(a), Box::new(b)),
    }
}

pub fn seqs(v: Vec<S>) -> S {
    let mut it = v.into_iter().rev();
    let mut acc = match it.next() {
        Some(s) => s,
        None => return S::Skip,
    };
    for s in it {
        acc = seq(s, acc);
    }
    acc
}

impl S {
    pub fn lean(&self, ind: usize) -> String {
        let pad = " ".repeat(ind);
        match self {
            S::Skip => format!("{pad}.skip"),
            S::Bump => format!("{pad}.bump"),
            S::Err(c, a) => format!(
                "{pad}(.err {c} {})",
                a.as_ref().map(|k| format!("K_{k}")).unwrap_or("0".into())
            ),
            S::Open(m) => format!("{pad}(.open {m})"),
            S::OpenBefore(a, b) => format!("{pad}(.openBefore {a} {b})"),
            S::Close(m, k, d) => format!(
                "{pad}(.close {m} K_{k} {})",
                d.map(|d| format!("(some {d})")).unwrap_or("none".into())
            ),
            S::Assert(e) => format!("{pad}(.assert {})", e.lean()),
            S::Set(x, e) => format!("{pad}(.set {x} {})", e.lean()),
            S::Seq(a, b) => format!("{pad}(.seq\n{}\n{})", a.lean(ind + 1), b.lean(ind + 1)),
            S::Ite(c, t, e) => format!(
                "{pad}(.ite {}\n{}\n{})",
                c.lean(),
                t.lean(ind + 1),
                e.lean(ind + 1)
            ),
            S::Loop(b) => format!("{pad}(.loop\n{})", b.lean(ind + 1)),
            S::Brk => format!("{pad}.brk"),
            S::Ret(r) => match r {
                Ret::Unit => format!("{pad}(.ret .unit)"),
                Ret::Nat(e) => format!("{pad}(.ret (.nat {}))", e.lean()),
                Ret::Mark(m) => format!("{pad}(.ret (.mark {m}))"),
                Ret::NoMark => format!("{pad}(.ret .noMark)"),
            },
            S::Call(f, args, margs, dst) => format!(
                "{pad}(.call {f} [{}] [{}] {})",
                args.iter().map(|a| a.lean()).collect::<Vec<_>>().join(", "),
                margs.iter().map(|a| a.to_string()).collect::<Vec<_>>().join(", "),
                match dst {
                    Dst::None => ".none".to_string(),
                    Dst::Nat(x) => format!("(.nat {x})"),
                    Dst::Mark(m) => format!("(.mark {m})"),
                    Dst::OptMark(m, f) => format!("(.optMark {m} {f})"),
                }
            ),
        }
    }
}
