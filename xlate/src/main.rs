fn main(){}
