//! glas-xlate <repo> <out-dir>: regenerates lean/Glas/Gen/*.lean from /repo's working tree.
//! Exit 1 with `translation failed at <file>:<line>: …` when a construct is outside the subset.
mod ir;
mod kinds;
mod parser;
mod policy;
mod rename;
mod choreo;
mod highlight;
mod pins;

use ir::*;
use kinds::Kinds;
use std::collections::HashMap;
use std::fs;
use std::path::Path;
use syn::*;

/// payload of the panic that aborts the translation of one group of generated files
struct XFail(String);

fn die(msg: String) -> ! {
    std::panic::panic_any(XFail(msg))
}

type Files = Vec<(&'static str, String)>;

/// Run one group; on failure report it and — when a baseline directory is given — fall back to the
/// committed model of the pinned source for ALL files of the group (they are only consistent together).
fn run_group(name: &str, files: &[&'static str], out: &Path, baseline: Option<&Path>, f: impl FnOnce() -> Files + std::panic::UnwindSafe) -> bool {
    match std::panic::catch_unwind(f) {
        Ok(fs_) => {
            for (n, c) in fs_ {
                write_if_changed(&out.join(n), &c);
            }
            true
        }
        Err(e) => {
            let msg = match e.downcast_ref::<XFail>() {
                Some(x) => x.0.clone(),
                None => match e.downcast_ref::<String>() {
                    Some(s) => format!("{name}: translator panicked: {s}"),
                    None => match e.downcast_ref::<&str>() {
                        Some(s) => format!("{name}: translator panicked: {s}"),
                        None => format!("{name}: translator panicked"),
                    },
                },
            };
            println!("translation failed at {msg}");
            if let Some(b) = baseline {
                for n in files {
                    match fs::read_to_string(b.join(n)) {
                        Ok(c) => write_if_changed(&out.join(n), &c),
                        Err(e) => {
                            println!("no baseline for {n}: {e}");
                            std::process::exit(1)
                        }
                    }
                }
                println!("FALLBACK {name}: {}", msg.replace('\n', " "));
                true
            } else {
                false
            }
        }
    }
}

fn write_if_changed(path: &Path, content: &str) {
    if let Ok(old) = fs::read_to_string(path) {
        if old == content {
            return;
        }
    }
    fs::write(path, content).unwrap();
}

fn find_def_macro(file: &File) -> Option<proc_macro2::TokenStream> {
    for it in &file.items {
        if let Item::Macro(m) = it {
            if m.mac.path.is_ident("def") {
                return Some(m.mac.tokens.clone());
            }
        }
    }
    None
}

/// `pub fn is_x(self) -> bool { … }` in `impl SyntaxKind` → Lean boolean expression over `k`
fn pred_expr(k: &Kinds, e: &Expr) -> std::result::Result<String, String> {
    match e {
        Expr::Paren(p) => pred_expr(k, &p.expr),
        Expr::Binary(b) => match b.op {
            BinOp::Or(_) => Ok(format!("({} || {})", pred_expr(k, &b.left)?, pred_expr(k, &b.right)?)),
            BinOp::And(_) => Ok(format!("({} && {})", pred_expr(k, &b.left)?, pred_expr(k, &b.right)?)),
            BinOp::Eq(_) => Ok(format!("(k == {})", kind_ref(k, &b.right)?)),
            _ => Err("unsupported operator in kind predicate".into()),
        },
        Expr::MethodCall(m) => {
            let name = m.method.to_string();
            if name == "contains" {
                // (A as u16..=B as u16).contains(&(self as u16))
                let mut r = &*m.receiver;
                if let Expr::Paren(p) = r {
                    r = &p.expr;
                }
                if let Expr::Range(rg) = r {
                    if let (Some(lo), Some(hi), RangeLimits::Closed(_)) = (&rg.start, &rg.end, &rg.limits) {
                        return Ok(format!("({} ≤ k && k ≤ {})", kind_ref(k, lo)?, kind_ref(k, hi)?));
                    }
                }
                return Err("unsupported range in kind predicate".into());
            }
            if m.args.is_empty() {
                // self.is_other()
                return Ok(format!("{} k", name));
            }
            Err(format!("unsupported method {name} in kind predicate"))
        }
        _ => Err("unsupported expression in kind predicate".into()),
    }
}

fn kind_ref(k: &Kinds, e: &Expr) -> std::result::Result<String, String> {
    match e {
        Expr::Cast(c) => kind_ref(k, &c.expr),
        Expr::Paren(p) => kind_ref(k, &p.expr),
        Expr::Path(p) => {
            let n = p.path.segments.last().unwrap().ident.to_string();
            if let Some(v) = k.anchors.get(&n) {
                return Ok(format!("K_{v}"));
            }
            if k.index.contains_key(&n) {
                return Ok(format!("K_{n}"));
            }
            Err(format!("unknown kind {n}"))
        }
        _ => Err("unsupported kind reference".into()),
    }
}

fn main() {
    let args: Vec<String> = std::env::args().collect();
    if args.len() != 3 && args.len() != 4 {
        eprintln!("usage: glas-xlate <repo> <out-dir> [<baseline-dir>]");
        std::process::exit(2);
    }
    let repo = Path::new(&args[1]).to_path_buf();
    let out = Path::new(&args[2]).to_path_buf();
    let baseline = args.get(3).map(|b| Path::new(b).to_path_buf());
    fs::create_dir_all(&out).unwrap();
    std::panic::set_hook(Box::new(|_| {}));
    let mut ok = true;
    let repo1 = repo.clone();
    ok &= run_group("syntax", &["Kind.lean", "Lexer.lean", "Parser.lean", "Policy.lean"], &out, baseline.as_deref(), move || syntax_group(&repo1));
    let repo2 = repo.clone();
    ok &= run_group("rename", &["Rename.lean"], &out, baseline.as_deref(), move || {
        vec![("Rename.lean", rename::extract(&repo2).unwrap_or_else(|e| die(e)))]
    });
    let repo3 = repo.clone();
    ok &= run_group("choreo", &["Choreo.lean"], &out, baseline.as_deref(), move || {
        vec![("Choreo.lean", choreo::extract(&repo3).unwrap_or_else(|e| die(e)))]
    });
    let repo4 = repo.clone();
    ok &= run_group("highlight", &["Highlight.lean"], &out, baseline.as_deref(), move || {
        vec![("Highlight.lean", highlight::extract(&repo4).unwrap_or_else(|e| die(e)))]
    });
    // pins of hand-modelled code: nothing is generated, a differing pin only asks for more correspondence runs
    for (g, why) in pins::check(&repo) {
        println!("FALLBACK pin_{g}: {}", why.replace('\n', " "));
    }
    if !ok {
        std::process::exit(1);
    }
}

fn syntax_group(repo: &Path) -> Files {
    let mut files: Files = Vec::new();
    let syn_dir = repo.join("crates/syntax/src");

    // ---------------- kind.rs ----------------
    let kind_src = fs::read_to_string(syn_dir.join("kind.rs")).unwrap_or_else(|e| die(format!("kind.rs: {e}")));
    let kind_file = syn::parse_file(&kind_src).unwrap_or_else(|e| die(format!("kind.rs:{}: {e}", e.span().start().line)));
    let def = find_def_macro(&kind_file).unwrap_or_else(|| die("kind.rs: def! invocation not found".into()));
    let kinds = kinds::parse_def(def).unwrap_or_else(|e| die(format!("kind.rs: {e}")));
    let error_kind = kinds.error_kind.clone().unwrap_or_else(|| die("kind.rs: no #[error] variant".into()));
    if !kinds.index.contains_key("EOF") {
        die("kind.rs: no EOF variant".into());
    }

    let mut g = String::new();
    g.push_str("/-! GENERATED by xlate from crates/syntax/src/kind.rs — do not edit. -/\nnamespace Glas.Gen\n\n");
    for (i, n) in kinds.names.iter().enumerate() {
        g.push_str(&format!("def K_{n} : Nat := {i}\n"));
    }
    g.push_str(&format!(
        "\ndef kindNames : List String := [{}]\n",
        kinds.names.iter().map(|n| format!("\"{n}\"")).collect::<Vec<_>>().join(", ")
    ));
    g.push_str("\ndef mask (ks : List Nat) : Nat := ks.foldl (fun m k => m ||| (1 <<< k)) 0\n\n");
    // predicates
    let mut preds = Vec::new();
    for it in &kind_file.items {
        if let Item::Impl(im) = it {
            if let Type::Path(tp) = &*im.self_ty {
                if tp.path.is_ident("SyntaxKind") && im.trait_.is_none() {
                    for ii in &im.items {
                        if let ImplItem::Fn(f) = ii {
                            let name = f.sig.ident.to_string();
                            if !name.starts_with("is_") {
                                continue;
                            }
                            let body = match f.block.stmts.last() {
                                Some(Stmt::Expr(e, None)) if f.block.stmts.len() == 1 => e,
                                _ => die(format!("kind.rs:{}: unsupported body of {name}", f.sig.ident.span().start().line)),
                            };
                            match pred_expr(&kinds, body) {
                                Ok(s) => preds.push((name, s)),
                                Err(e) => die(format!("kind.rs:{}: {name}: {e}", f.sig.ident.span().start().line)),
                            }
                        }
                    }
                }
            }
        }
    }
    // order predicates so that callees come first
    let mut emitted: Vec<String> = Vec::new();
    let mut remaining = preds.clone();
    while !remaining.is_empty() {
        let before = remaining.len();
        remaining.retain(|(n, body)| {
            let deps_ok = preds.iter().all(|(m, _)| m == n || !body.contains(&format!("{m} k")) || emitted.contains(m));
            if deps_ok {
                g.push_str(&format!("def {n} (k : Nat) : Bool := {body}\n"));
                emitted.push(n.clone());
                false
            } else {
                true
            }
        });
        if remaining.len() == before {
            die("kind.rs: cyclic kind predicates".into());
        }
    }
    g.push_str("\nend Glas.Gen\n");
    files.push(("Kind.lean", g));

    // ---------------- lexer rules ----------------
    let mut l = String::new();
    l.push_str("import Glas.Model.Lexer\nimport Glas.Gen.Kind\n/-! GENERATED by xlate from the logos attributes in crates/syntax/src/kind.rs — do not edit. -/\nnamespace Glas.Gen\nopen Glas.Lexer\n\n");
    l.push_str("def glasRules : List Rule := [\n");
    let mut rule_lines = Vec::new();
    for r in &kinds.rules {
        let cb = match r.callback.as_deref() {
            None => ".none",
            Some("lex_string") => ".lexString",
            Some(other) => die(format!("kind.rs: unsupported lexer callback {other} on {}", r.kind)),
        };
        rule_lines.push(format!(
            "  -- {}\n  {{ kind := K_{}, re := {}, prio := {}, cb := {} }}",
            r.src.replace('\n', "\\n"),
            r.kind,
            r.re.lean(),
            r.prio,
            cb
        ));
    }
    l.push_str(&rule_lines.join(",\n"));
    l.push_str("\n]\n\n");
    l.push_str(&format!(
        "/-- kinds whose rule carries `logos::skip` (their text would vanish from the token stream) -/\ndef skipKinds : List Nat := [{}]\n\n",
        kinds.rules.iter().filter(|r| r.skip).map(|r| format!("K_{}", r.kind)).collect::<Vec<_>>().join(", ")
    ));
    l.push_str(&format!("def lexErrorKind : Nat := K_{error_kind}\n\nend Glas.Gen\n"));
    files.push(("Lexer.lean", l));

    // lex_string callback: structural check against the modelled algorithm
    let lexer_src = fs::read_to_string(syn_dir.join("lexer.rs")).unwrap_or_else(|e| die(format!("lexer.rs: {e}")));
    let lexer_norm: String = lexer_src.chars().filter(|c| !c.is_whitespace()).collect();
    for needle in [
        "ifc=='\\\\'{escaped=!escaped;continue;}",
        "ifc=='\"'&&!escaped{lex.bump(remainder[0..total_len].as_bytes().len());returntrue;}",
        "escaped=false;}false}",
        "total_len+=c.len_utf8();",
    ] {
        if !lexer_norm.contains(needle) {
            die(format!("lexer.rs: lex_string no longer has the modelled shape (missing `{needle}`)"));
        }
    }

    // ---------------- parser.rs ----------------
    let psrc = fs::read_to_string(syn_dir.join("parser.rs")).unwrap_or_else(|e| die(format!("parser.rs: {e}")));
    let pfile = syn::parse_file(&psrc).unwrap_or_else(|e| die(format!("parser.rs:{}: {e}", e.span().start().line)));
    // error kinds from lib.rs
    let lib_src = fs::read_to_string(syn_dir.join("lib.rs")).unwrap_or_else(|e| die(format!("lib.rs: {e}")));
    let lib_file = syn::parse_file(&lib_src).unwrap_or_else(|e| die(format!("lib.rs:{}: {e}", e.span().start().line)));
    let mut errors = Vec::new();
    for it in &lib_file.items {
        if let Item::Enum(en) = it {
            if en.ident == "ErrorKind" {
                for v in &en.variants {
                    errors.push(v.ident.to_string());
                }
            }
        }
    }
    if errors.is_empty() {
        die("lib.rs: enum ErrorKind not found".into());
    }

    let (fns, sigs) = parser::collect_sigs(&pfile).unwrap_or_else(|e| die(e.0));
    let mut gen = parser::Gen { kinds: &kinds, sigs, sets: Vec::new(), errors, tables: Vec::new(), prefix: None, infix: None };
    // top-level token-set constants
    for it in &pfile.items {
        if let Item::Const(c) = it {
            if let Type::Path(tp) = &*c.ty {
                if tp.path.is_ident("TokenSet") {
                    let s = gen.set_expr(&c.expr, &[]).unwrap_or_else(|e| die(e.0));
                    gen.sets.push((c.ident.to_string(), s));
                }
            }
        }
    }
    // binding-power tables: impl SyntaxKind { fn prefix_bp, fn infix_bp }
    let mut tables: Vec<(String, HashMap<String, u64>)> = Vec::new();
    for it in &pfile.items {
        if let Item::Impl(im) = it {
            for ii in &im.items {
                if let ImplItem::Fn(f) = ii {
                    let name = f.sig.ident.to_string();
                    if name == "prefix_bp" || name == "infix_bp" {
                        let rows = policy::bp_rows(&gen, f).unwrap_or_else(|e| die(e.0));
                        if name == "prefix_bp" {
                            let mut t = HashMap::new();
                            let mut ks = Vec::new();
                            for (k, v) in rows {
                                t.insert(k.clone(), v[0]);
                                ks.push(k);
                            }
                            tables.push(("prefixR".into(), t));
                            gen.prefix = Some((SetE::Kinds(ks), tables.len() - 1));
                        } else {
                            let (mut tl, mut tr) = (HashMap::new(), HashMap::new());
                            let mut ks = Vec::new();
                            for (k, v) in rows {
                                if v.len() != 2 {
                                    die("parser.rs: infix_bp rows must be pairs".into());
                                }
                                tl.insert(k.clone(), v[0]);
                                tr.insert(k.clone(), v[1]);
                                ks.push(k);
                            }
                            tables.push(("infixL".into(), tl));
                            tables.push(("infixR".into(), tr));
                            gen.infix = Some((SetE::Kinds(ks), tables.len() - 2, tables.len() - 1));
                        }
                    }
                }
            }
        }
    }

    let mut procs = Vec::new();
    for f in &fns {
        procs.push(parser::translate_fn(&gen, *f).unwrap_or_else(|e| die(e.0)));
    }
    let main_idx = gen.sigs.get("module").map(|s| s.idx).unwrap_or_else(|| die("parser.rs: fn module not found".into()));
    let (fuel, trivia_pred) = policy::parse_module_facts(&pfile).unwrap_or_else(|e| die(e.0));
    parser::check_primitives(&pfile).unwrap_or_else(|e| die(e.0));

    let mut p = String::new();
    p.push_str("import Glas.Model.Dsl\nimport Glas.Gen.Kind\n/-! GENERATED by xlate from crates/syntax/src/parser.rs — do not edit. -/\nnamespace Glas.Gen\nopen Glas.Dsl\n\n");
    for (n, s) in &gen.sets {
        p.push_str(&format!("def S_{n} : Nat := {}\n", s.lean()));
    }
    p.push_str(&format!(
        "\ndef errorNames : List String := [{}]\n\n",
        gen.errors.iter().map(|e| format!("\"{e}\"")).collect::<Vec<_>>().join(", ")
    ));
    for (n, t) in &tables {
        let row: Vec<String> = kinds.names.iter().map(|k| t.get(k).copied().unwrap_or(0).to_string()).collect();
        p.push_str(&format!("def T_{n} : List Nat := [{}]\n", row.join(", ")));
    }
    if let Some((s, _)) = &gen.prefix {
        p.push_str(&format!("def S_PREFIX_OPS : Nat := {}\n", s.lean()));
    }
    if let Some((s, _, _)) = &gen.infix {
        p.push_str(&format!("def S_INFIX_OPS : Nat := {}\n", s.lean()));
    }
    p.push('\n');
    for (i, pr) in procs.iter().enumerate() {
        p.push_str(&format!(
            "/-- `fn {}` (parser.rs:{}) -/\ndef P_{} : Proc := {{ name := \"{}\", nLocals := {}, nMarks := {}, body :=\n{} }}\n\ndef I_{} : Nat := {i}\n\n",
            pr.name, pr.line, pr.name, pr.name, pr.n_locals, pr.n_marks, pr.body.lean(2), pr.name
        ));
    }
    p.push_str(&format!(
        "def glasProg : Prog := {{\n  procs := [{}],\n  tables := [{}],\n  fuel := {fuel},\n  eofKind := K_EOF,\n  errorKind := K_{error_kind},\n  main := {main_idx} }}\n\n",
        procs.iter().map(|pr| format!("P_{}", pr.name)).collect::<Vec<_>>().join(", "),
        tables.iter().map(|(n, _)| format!("T_{n}")).collect::<Vec<_>>().join(", "),
    ));
    p.push_str(&format!("/-- the predicate `parse_module` filters the raw tokens with -/\ndef parserTrivia (k : Nat) : Bool := {trivia_pred} k\n\nend Glas.Gen\n"));
    files.push(("Parser.lean", p));

    // ---------------- build_tree policy ----------------
    let pol = policy::extract_policy(&gen, &pfile).unwrap_or_else(|e| die(e.0));
    files.push(("Policy.lean", pol));

    println!(
        "xlate ok: {} kinds, {} lexer rules, {} token sets, {} procedures, {} error kinds",
        kinds.names.len(),
        kinds.rules.len(),
        gen.sets.len(),
        procs.len(),
        gen.errors.len()
    );
    files
}
