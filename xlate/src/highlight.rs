//! `crates/ide/src/ide/semantic_highlighting.rs` → the tagging table (Gen/Highlight.lean):
//! which `Definition` a NameRef resolves to gives which `HlTag`, what a function-typed local and the
//! name of a constructor declaration get.  Read from the whitespace-free token text of `fn highlight`;
//! anything in the two arms that is not one of the known shapes aborts the translation.
use crate::kinds::norm_tokens;
use quote::ToTokens;
use syn::*;

fn ident_prefix(s: &str) -> &str {
    let n = s.find(|c: char| !(c.is_alphanumeric() || c == '_')).unwrap_or(s.len());
    &s[..n]
}

pub fn extract(repo: &std::path::Path) -> std::result::Result<String, String> {
    let path = "crates/ide/src/ide/semantic_highlighting.rs";
    let src = std::fs::read_to_string(repo.join(path)).map_err(|e| format!("semantic_highlighting.rs: {e}"))?;
    let file = syn::parse_file(&src).map_err(|e| format!("semantic_highlighting.rs:{}: {e}", e.span().start().line))?;
    let mut tags = Vec::new();
    let mut body = None;
    for it in &file.items {
        match it {
            Item::Enum(en) if en.ident == "HlTag" => {
                for v in &en.variants {
                    tags.push(v.ident.to_string());
                }
            }
            Item::Fn(f) if f.sig.ident == "highlight" => body = Some(norm_tokens(&f.block.to_token_stream())),
            _ => {}
        }
    }
    if tags.is_empty() {
        return Err("semantic_highlighting.rs: enum HlTag not found".into());
    }
    let body = body.ok_or("semantic_highlighting.rs: fn highlight not found")?;
    // the two arms of the match_ast! inside the closure token_tag
    let a0 = "ast::NameRef(node)=>{";
    let a1 = "},ast::Name(node)=>{";
    let a2 = "},_=>returnNone,";
    let i0 = body.find(a0).ok_or("semantic_highlighting.rs: arm ast::NameRef(node) not found")?;
    let i1 = body[i0..].find(a1).map(|i| i + i0).ok_or("semantic_highlighting.rs: arm ast::Name(node) not found")?;
    let i2 = body[i1..].find(a2).map(|i| i + i1).ok_or("semantic_highlighting.rs: default arm `_ => return None` not found")?;
    let mut nameref = body[i0 + a0.len()..i1].to_string();
    let name = &body[i1 + a1.len()..i2];
    // NameRef arm: `let def = classify_node(&sema, node.syntax())?;` then a sequence of `if let Definition::X(..) = def { … }`
    let head = "letdef=classify_node(&sema,node.syntax())?;";
    if !nameref.starts_with(head) {
        return Err("semantic_highlighting.rs: the NameRef arm does not start with `let def = classify_node(&sema, node.syntax())?;`".into());
    }
    nameref = nameref[head.len()..].to_string();
    let mut rules: Vec<(String, String)> = Vec::new();
    let mut local_fn: Option<String> = None;
    let mut rest = nameref.as_str();
    loop {
        rest = rest.trim_start_matches(';');
        if rest.is_empty() {
            break;
        }
        let p = "ifletDefinition::";
        if !rest.starts_with(p) {
            return Err(format!("semantic_highlighting.rs: unsupported statement in the NameRef arm: `{}`", &rest[..rest.len().min(60)]));
        }
        let after = &rest[p.len()..];
        let variant = ident_prefix(after).to_string();
        let after = &after[variant.len()..];
        let plain = "(_)=def{returnSome(HlTag::";
        let local = "(local)=def{letty=local.ty(db);ifletTy::Function{..}=ty{returnSome(HlTag::";
        if after.starts_with(plain) {
            let t = ident_prefix(&after[plain.len()..]).to_string();
            let tail = &after[plain.len() + t.len()..];
            let close = [");}", ")}"].iter().find(|c| tail.starts_with(**c)).ok_or("semantic_highlighting.rs: unsupported end of a NameRef rule")?;
            rules.push((variant, t));
            rest = &tail[close.len()..];
        } else if variant == "Local" && after.starts_with(local) {
            let t = ident_prefix(&after[local.len()..]).to_string();
            let tail = &after[local.len() + t.len()..];
            let close = [");}}", ")}}"].iter().find(|c| tail.starts_with(**c)).ok_or("semantic_highlighting.rs: unsupported end of the Local rule")?;
            local_fn = Some(t);
            rest = &tail[close.len()..];
        } else {
            return Err(format!("semantic_highlighting.rs: unsupported rule for Definition::{variant} in the NameRef arm"));
        }
    }
    // Name arm: `if let Some(_) = ast::Variant::cast(node.syntax().parent()?) { return Some(HlTag::T) }`
    let np = "ifletSome(_)=ast::Variant::cast(node.syntax().parent()?){returnSome(HlTag::";
    let mut variant_name: Option<String> = None;
    let nm = name.trim_end_matches(';');
    if !nm.is_empty() {
        if !nm.starts_with(np) {
            return Err("semantic_highlighting.rs: unsupported statement in the Name arm".into());
        }
        let t = ident_prefix(&nm[np.len()..]).to_string();
        let tail = &nm[np.len() + t.len()..];
        if tail != ")}" && tail != ");}" {
            return Err("semantic_highlighting.rs: unsupported end of the Name arm".into());
        }
        variant_name = Some(t);
    }
    for (_, t) in rules.iter().chain(local_fn.iter().map(|t| ("".to_string(), t.clone())).collect::<Vec<_>>().iter()) {
        if !tags.contains(t) {
            return Err(format!("semantic_highlighting.rs: HlTag::{t} is not a variant of HlTag"));
        }
    }
    let opt = |o: &Option<String>| match o {
        Some(t) => format!("some \"{t}\""),
        None => "none".to_string(),
    };
    let mut s = String::new();
    s.push_str("/-! GENERATED by xlate from crates/ide/src/ide/semantic_highlighting.rs — do not edit. -/\nnamespace Glas.Gen\n\n");
    s.push_str(&format!("def hlTags : List String := [{}]\n\n", tags.iter().map(|t| format!("\"{t}\"")).collect::<Vec<_>>().join(", ")));
    s.push_str("/-- an identifier that refers to a `Definition::X`: the tag it gets -/\n");
    s.push_str(&format!(
        "def hlNameRefRules : List (String × String) := [{}]\n\n",
        rules.iter().map(|(v, t)| format!("(\"{v}\", \"{t}\")")).collect::<Vec<_>>().join(", ")
    ));
    s.push_str(&format!("/-- an identifier that refers to a local whose type is a function -/\ndef hlLocalFnTag : Option String := {}\n\n", opt(&local_fn)));
    s.push_str(&format!("/-- the name of a constructor in its declaration -/\ndef hlVariantNameTag : Option String := {}\n\nend Glas.Gen\n", opt(&variant_name)));
    Ok(s)
}
