//! `crates/ide/src/ide/rename.rs` + `def/semantics.rs` → the rename decision table (Gen/Rename.lean)
use crate::kinds::norm_tokens;
use quote::ToTokens;
use syn::*;

fn variants_of(pat: &Pat, out: &mut Vec<String>) -> bool {
    match pat {
        Pat::Or(o) => o.cases.iter().all(|c| variants_of(c, out)),
        Pat::TupleStruct(ts) => {
            let segs: Vec<String> = ts.path.segments.iter().map(|s| s.ident.to_string()).collect();
            if segs.len() == 2 && segs[0] == "Definition" {
                out.push(segs[1].clone());
                true
            } else {
                false
            }
        }
        _ => false,
    }
}

pub fn extract(repo: &std::path::Path) -> std::result::Result<String, String> {
    let sem_src = std::fs::read_to_string(repo.join("crates/ide/src/def/semantics.rs")).map_err(|e| format!("semantics.rs: {e}"))?;
    let sem = syn::parse_file(&sem_src).map_err(|e| format!("semantics.rs:{}: {e}", e.span().start().line))?;
    let mut variants = Vec::new();
    for it in &sem.items {
        if let Item::Enum(en) = it {
            if en.ident == "Definition" {
                for v in &en.variants {
                    variants.push(v.ident.to_string());
                }
            }
        }
    }
    if variants.is_empty() {
        return Err("semantics.rs: enum Definition not found".into());
    }
    let src = std::fs::read_to_string(repo.join("crates/ide/src/ide/rename.rs")).map_err(|e| format!("rename.rs: {e}"))?;
    let file = syn::parse_file(&src).map_err(|e| format!("rename.rs:{}: {e}", e.span().start().line))?;
    let mut rename_fn = None;
    let mut prepare_fn = None;
    let mut find_def_fn = None;
    for it in &file.items {
        if let Item::Fn(f) = it {
            match f.sig.ident.to_string().as_str() {
                "rename" => rename_fn = Some(f),
                "prepare_rename" => prepare_fn = Some(f),
                "find_def" => find_def_fn = Some(f),
                _ => {}
            }
        }
    }
    let rename_fn = rename_fn.ok_or("rename.rs: fn rename not found")?;
    let prepare_fn = prepare_fn.ok_or("rename.rs: fn prepare_rename not found")?;
    let find_def_fn = find_def_fn.ok_or("rename.rs: fn find_def not found")?;
    // the `match def { … }` of rename
    let mut rules: Vec<(String, String)> = Vec::new();
    let mut found = false;
    for st in &rename_fn.block.stmts {
        let e = match st {
            Stmt::Expr(e, _) => e,
            _ => continue,
        };
        if let Expr::Match(m) = e {
            if norm_tokens(&m.expr.to_token_stream()) != "def" {
                continue;
            }
            found = true;
            for v in &variants {
                let mut rule = "unchecked".to_string();
                for arm in &m.arms {
                    let mut vs = Vec::new();
                    let matches = match &arm.pat {
                        Pat::Wild(_) => true,
                        p => {
                            if !variants_of(p, &mut vs) {
                                return Err(format!("rename.rs:{}: unsupported pattern in the name-class match", p.to_token_stream().into_iter().next().map(|t| t.span().start().line).unwrap_or(0)));
                            }
                            vs.contains(v)
                        }
                    };
                    if !matches {
                        continue;
                    }
                    let body = norm_tokens(&arm.body.to_token_stream());
                    let is_err = body.contains("returnErr(");
                    match &arm.guard {
                        None => {
                            rule = if is_err { "refuse".into() } else { "unchecked".into() };
                        }
                        Some((_, g)) => {
                            let gs = norm_tokens(&g.to_token_stream());
                            if let Some(k) = gs.strip_prefix("new_token!=syntax::SyntaxKind::") {
                                if !is_err {
                                    return Err("rename.rs: guarded arm that does not return an error".into());
                                }
                                rule = format!("require K_{k}");
                            } else {
                                return Err(format!("rename.rs: unsupported guard `{gs}`"));
                            }
                        }
                    }
                    break;
                }
                rules.push((v.clone(), rule));
            }
        }
    }
    if !found {
        return Err("rename.rs: `match def` of fn rename not found".into());
    }
    let rn = norm_tokens(&rename_fn.block.to_token_stream());
    let pn = norm_tokens(&prepare_fn.block.to_token_stream());
    let fd = norm_tokens(&find_def_fn.block.to_token_stream());
    let single_token = rn.contains("letmutlexer=GleamLexer::new(new_name);")
        && rn.contains("lexer.next().ok_or_else(")
        && rn.contains("if!lexer.next().is_none(){returnErr(");
    let rename_local = rn.contains("is_local(");
    let prepare_local = pn.contains("is_local(") && pn.contains("if!is_local{returnErr(");
    let alias_check = fd.contains("ifSmolStr::from(tok.text())!=SmolStr::from(def.name(sema.db.upcast())?){returnSome(Either::Right(");
    let mut s = String::new();
    s.push_str("import Glas.Model.RenameSpec\nimport Glas.Gen.Kind\n/-! GENERATED by xlate from crates/ide/src/ide/rename.rs and def/semantics.rs — do not edit. -/\nnamespace Glas.Gen\nopen Glas.RenameSpec\n\n");
    s.push_str(&format!(
        "def definitionVariants : List String := [{}]\n\n",
        variants.iter().map(|v| format!("\"{v}\"")).collect::<Vec<_>>().join(", ")
    ));
    s.push_str("/-- per `Definition` variant, what `rename` demands of the new name's token kind -/\ndef renameRules : List (String × Rule) := [\n");
    s.push_str(
        &rules
            .iter()
            .map(|(v, r)| format!("  (\"{v}\", .{})", r.replace("require ", "require ")))
            .collect::<Vec<_>>()
            .join(",\n"),
    );
    s.push_str("\n]\n\n");
    s.push_str(&format!(
        "def renameFlags : Flags := {{ singleToken := {single_token}, renameChecksLocal := {rename_local}, prepareChecksLocal := {prepare_local}, aliasCheck := {alias_check} }}\n\nend Glas.Gen\n"
    ));
    Ok(s)
}
