//! `crates/syntax/src/kind.rs` → kind table, lexer rules (with logos priorities), `T![..]` map,
//! anchors and the range predicates (`is_trivia`, …).
use proc_macro2::{Delimiter, TokenStream, TokenTree};
use std::collections::HashMap;

#[derive(Debug, Clone)]
pub enum Re {
    Eps,
    Cls(Vec<(u32, u32)>, bool),
    Seq(Box<Re>, Box<Re>),
    Alt(Box<Re>, Box<Re>),
    Star(Box<Re>),
    Plus(Box<Re>),
    Opt(Box<Re>),
    Lit(char),
}

impl Re {
    /// logos-derive 0.12 `Mir::priority`
    pub fn priority(&self) -> u32 {
        match self {
            Re::Eps | Re::Star(_) | Re::Opt(_) => 0,
            Re::Seq(a, b) => a.priority() + b.priority(),
            Re::Alt(a, b) => a.priority().min(b.priority()),
            Re::Cls(..) => 1,
            Re::Lit(_) => 2,
            Re::Plus(a) => a.priority(),
        }
    }
    pub fn lean(&self) -> String {
        match self {
            Re::Eps => ".eps".into(),
            Re::Cls(rs, neg) => format!(
                "(.cls [{}] {})",
                rs.iter().map(|(a, b)| format!("({a}, {b})")).collect::<Vec<_>>().join(", "),
                neg
            ),
            Re::Lit(c) => format!("(.cls [({0}, {0})] false)", *c as u32),
            Re::Seq(a, b) => format!("(.seq {} {})", a.lean(), b.lean()),
            Re::Alt(a, b) => format!("(.alt {} {})", a.lean(), b.lean()),
            Re::Star(a) => format!("(.star {})", a.lean()),
            Re::Plus(a) => format!("(.seq {0} (.star {0}))", a.lean()),
            Re::Opt(a) => format!("(.alt .eps {})", a.lean()),
        }
    }
}

struct ReParser {
    cs: Vec<char>,
    i: usize,
}

impl ReParser {
    fn peek(&self) -> Option<char> {
        self.cs.get(self.i).copied()
    }
    fn alt(&mut self) -> Result<Re, String> {
        let mut l = self.concat()?;
        while self.peek() == Some('|') {
            self.i += 1;
            let r = self.concat()?;
            l = Re::Alt(Box::new(l), Box::new(r));
        }
        Ok(l)
    }
    fn concat(&mut self) -> Result<Re, String> {
        let mut items = Vec::new();
        while let Some(c) = self.peek() {
            if c == '|' || c == ')' {
                break;
            }
            items.push(self.repeat()?);
        }
        let mut it = items.into_iter().rev();
        let mut acc = match it.next() {
            Some(x) => x,
            None => return Ok(Re::Eps),
        };
        for x in it {
            acc = Re::Seq(Box::new(x), Box::new(acc));
        }
        Ok(acc)
    }
    fn repeat(&mut self) -> Result<Re, String> {
        let mut a = self.atom()?;
        loop {
            match self.peek() {
                Some('*') => {
                    self.i += 1;
                    a = Re::Star(Box::new(a))
                }
                Some('+') => {
                    self.i += 1;
                    a = Re::Plus(Box::new(a))
                }
                Some('?') => {
                    self.i += 1;
                    a = Re::Opt(Box::new(a))
                }
                _ => return Ok(a),
            }
        }
    }
    fn escape(&mut self) -> Result<char, String> {
        let c = self.peek().ok_or("dangling escape")?;
        self.i += 1;
        Ok(match c {
            'n' => '\n',
            'r' => '\r',
            't' => '\t',
            '.' | '\\' | '[' | ']' | '(' | ')' | '+' | '*' | '?' | '|' | '-' | '"' | '/' | '^' | '$' => c,
            _ => return Err(format!("unsupported escape \\{c}")),
        })
    }
    fn atom(&mut self) -> Result<Re, String> {
        let c = self.peek().ok_or("unexpected end of regex")?;
        self.i += 1;
        match c {
            '(' => {
                let r = self.alt()?;
                if self.peek() != Some(')') {
                    return Err("missing )".into());
                }
                self.i += 1;
                Ok(r)
            }
            '[' => {
                let mut neg = false;
                if self.peek() == Some('^') {
                    neg = true;
                    self.i += 1;
                }
                let mut rs = Vec::new();
                loop {
                    let c = self.peek().ok_or("unterminated class")?;
                    self.i += 1;
                    if c == ']' {
                        break;
                    }
                    let lo = if c == '\\' { self.escape()? } else { c };
                    if self.peek() == Some('-') && self.cs.get(self.i + 1) != Some(&']') {
                        self.i += 1;
                        let c2 = self.peek().ok_or("unterminated class")?;
                        self.i += 1;
                        let hi = if c2 == '\\' { self.escape()? } else { c2 };
                        rs.push((lo as u32, hi as u32));
                    } else {
                        rs.push((lo as u32, lo as u32));
                    }
                }
                Ok(Re::Cls(rs, neg))
            }
            '\\' => Ok(Re::Lit(self.escape()?)),
            '.' | '^' | '$' | '{' => Err(format!("unsupported regex construct {c}")),
            _ => Ok(Re::Lit(c)),
        }
    }
}

pub fn parse_regex(s: &str) -> Result<Re, String> {
    let mut p = ReParser { cs: s.chars().collect(), i: 0 };
    let r = p.alt()?;
    if p.i != p.cs.len() {
        return Err(format!("trailing regex input at {}", p.i));
    }
    Ok(r)
}

pub fn literal_re(s: &str) -> Re {
    let mut it = s.chars().rev();
    let mut acc = match it.next() {
        Some(c) => Re::Lit(c),
        None => return Re::Eps,
    };
    for c in it {
        acc = Re::Seq(Box::new(Re::Lit(c)), Box::new(acc));
    }
    acc
}

#[derive(Debug, Clone)]
pub struct Rule {
    pub kind: String,
    pub re: Re,
    pub prio: u32,
    pub callback: Option<String>,
    pub skip: bool,
    pub src: String,
}

#[derive(Debug, Default)]
pub struct Kinds {
    pub names: Vec<String>,
    pub index: HashMap<String, usize>,
    pub rules: Vec<Rule>,
    pub error_kind: Option<String>,
    /// normalised `T![..]` token text → variant
    pub tmacro: HashMap<String, String>,
    /// anchor name → variant
    pub anchors: HashMap<String, String>,
}

fn lit_str(t: &TokenTree) -> Option<String> {
    if let TokenTree::Literal(l) = t {
        let s = l.to_string();
        if let Ok(syn::Lit::Str(ls)) = syn::parse_str::<syn::Lit>(&s) {
            return Some(ls.value());
        }
    }
    None
}

pub fn norm_tokens(ts: &TokenStream) -> String {
    ts.to_string().chars().filter(|c| !c.is_whitespace()).collect()
}

fn parse_attr(kind_placeholder: &mut Vec<(String, Vec<TokenTree>)>, group: &proc_macro2::Group) {
    // #[name(args)] or #[name[args]] or #[name]
    let toks: Vec<TokenTree> = group.stream().into_iter().collect();
    if toks.is_empty() {
        return;
    }
    let name = toks[0].to_string();
    let args = match toks.get(1) {
        Some(TokenTree::Group(g)) => g.stream().into_iter().collect(),
        _ => Vec::new(),
    };
    kind_placeholder.push((name, args));
}

pub fn parse_def(body: TokenStream) -> Result<Kinds, String> {
    let mut k = Kinds::default();
    let toks: Vec<TokenTree> = body.into_iter().collect();
    let mut i = 0;
    let mut attrs: Vec<(String, Vec<TokenTree>)> = Vec::new();
    while i < toks.len() {
        match &toks[i] {
            TokenTree::Punct(p) if p.as_char() == '#' => {
                if let Some(TokenTree::Group(g)) = toks.get(i + 1) {
                    if g.delimiter() == Delimiter::Bracket {
                        parse_attr(&mut attrs, g);
                        i += 2;
                        continue;
                    }
                }
                return Err("stray # in def!".into());
            }
            TokenTree::Ident(id) => {
                let name = id.to_string();
                i += 1;
                // optional  = [tokens]
                if let Some(TokenTree::Punct(p)) = toks.get(i) {
                    if p.as_char() == '=' {
                        if let Some(TokenTree::Group(g)) = toks.get(i + 1) {
                            k.tmacro.insert(norm_tokens(&g.stream()), name.clone());
                            i += 2;
                        }
                    }
                }
                // optional @ANCHOR
                if let Some(TokenTree::Punct(p)) = toks.get(i) {
                    if p.as_char() == '@' {
                        if let Some(TokenTree::Ident(a)) = toks.get(i + 1) {
                            k.anchors.insert(a.to_string(), name.clone());
                            i += 2;
                        }
                    }
                }
                // the trailing comma
                if let Some(TokenTree::Punct(p)) = toks.get(i) {
                    if p.as_char() == ',' {
                        i += 1;
                    }
                }
                k.index.insert(name.clone(), k.names.len());
                k.names.push(name.clone());
                for (an, args) in attrs.drain(..) {
                    match an.as_str() {
                        "token" => {
                            let s = args.get(0).and_then(lit_str).ok_or("token attr without string")?;
                            let re = literal_re(&s);
                            let prio = 2 * s.len() as u32;
                            let (cb, skip, prio) = attr_opts(&args[1..], prio)?;
                            k.rules.push(Rule { kind: name.clone(), re, prio, callback: cb, skip, src: format!("token {s:?}") });
                        }
                        "regex" => {
                            let s = args.get(0).and_then(lit_str).ok_or("regex attr without string")?;
                            let re = parse_regex(&s).map_err(|e| format!("regex {s:?}: {e}"))?;
                            let prio = re.priority();
                            let (cb, skip, prio) = attr_opts(&args[1..], prio)?;
                            k.rules.push(Rule { kind: name.clone(), re, prio, callback: cb, skip, src: format!("regex {s:?}") });
                        }
                        "error" => k.error_kind = Some(name.clone()),
                        "doc" => {}
                        other => return Err(format!("unsupported attribute #[{other}] on {name}")),
                    }
                }
            }
            other => return Err(format!("unexpected token in def!: {other}")),
        }
    }
    Ok(k)
}

fn attr_opts(rest: &[TokenTree], mut prio: u32) -> Result<(Option<String>, bool, u32), String> {
    // rest:  , callback   |  , priority = N   | , logos::skip
    let mut cb = None;
    let mut skip = false;
    let mut i = 0;
    while i < rest.len() {
        match &rest[i] {
            TokenTree::Punct(p) if p.as_char() == ',' => i += 1,
            TokenTree::Ident(id) if id == "priority" => {
                let n = rest.get(i + 2).map(|t| t.to_string()).ok_or("priority without value")?;
                prio = n.parse().map_err(|_| "bad priority")?;
                i += 3;
            }
            TokenTree::Ident(_) => {
                // a path: ident(::ident)*
                let mut path = String::new();
                while i < rest.len() {
                    match &rest[i] {
                        TokenTree::Ident(id) => path.push_str(&id.to_string()),
                        TokenTree::Punct(p) if p.as_char() == ':' => path.push(':'),
                        _ => break,
                    }
                    i += 1;
                }
                if path.ends_with("skip") {
                    skip = true;
                } else {
                    cb = Some(path);
                }
            }
            other => return Err(format!("unsupported lexer attribute argument {other}")),
        }
    }
    Ok((cb, skip, prio))
}
