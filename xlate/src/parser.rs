//! `crates/syntax/src/parser.rs` → DSL procedures, token sets, binding-power tables, tree-builder
//! policy.  Anything outside the supported vocabulary aborts with the source location.
use crate::ir::*;
use crate::kinds::{norm_tokens, Kinds};
use proc_macro2::Span;
use std::collections::HashMap;
use syn::spanned::Spanned;
use syn::*;

pub struct Fail(pub String);
type R<T> = std::result::Result<T, Fail>;

fn fail<T>(sp: Span, msg: impl Into<String>) -> R<T> {
    Err(Fail(format!("parser.rs:{}:{}: {}", sp.start().line, sp.start().column + 1, msg.into())))
}

#[derive(Clone, Copy, PartialEq, Debug)]
pub enum Ty {
    Unit,
    Nat,
    Mark,
    OptMark,
}

#[derive(Clone)]
pub struct Sig {
    pub idx: usize,
    pub ret: Ty,
    /// parameter kinds after the parser argument: true = mark parameter
    pub params: Vec<bool>,
}

pub struct Gen<'a> {
    pub kinds: &'a Kinds,
    pub sigs: HashMap<String, Sig>,
    pub sets: Vec<(String, SetE)>,
    pub errors: Vec<String>,
    pub tables: Vec<(String, Vec<(String, u64)>)>,
    pub prefix: Option<(SetE, usize)>,
    pub infix: Option<(SetE, usize, usize)>,
}

#[derive(Clone, Copy)]
enum Var {
    Nat(usize),
    Mark(usize),
}

struct Fx<'g, 'a> {
    g: &'g Gen<'a>,
    fname: String,
    scopes: Vec<HashMap<String, Var>>,
    n_locals: usize,
    n_marks: usize,
    ret: Ty,
    local_sets: Vec<(String, SetE)>,
    /// pending alias: the next `let <name>` of a mark uses this slot
    alias: Vec<(String, usize)>,
}

#[derive(Clone, Copy)]
enum Dest {
    Discard,
    Nat(usize),
    Mark(usize),
    OptMark(usize, usize),
}

fn path_ident(e: &Expr) -> Option<String> {
    if let Expr::Path(p) = e {
        if p.path.segments.len() == 1 && p.qself.is_none() {
            return Some(p.path.segments[0].ident.to_string());
        }
    }
    None
}

fn is_p(e: &Expr) -> bool {
    path_ident(e).map(|s| s == "p" || s == "self").unwrap_or(false)
}

impl<'a> Gen<'a> {
    pub fn kind_of_tmacro(&self, m: &Macro) -> Option<String> {
        if m.path.is_ident("T") {
            return self.kinds.tmacro.get(&norm_tokens(&m.tokens)).cloned();
        }
        None
    }

    /// an expression denoting one SyntaxKind constant
    pub fn kind_const(&self, e: &Expr) -> Option<String> {
        match e {
            Expr::Macro(m) => self.kind_of_tmacro(&m.mac),
            Expr::Path(p) => {
                let last = p.path.segments.last()?.ident.to_string();
                if self.kinds.index.contains_key(&last) {
                    Some(last)
                } else {
                    None
                }
            }
            Expr::Paren(p) => self.kind_const(&p.expr),
            _ => None,
        }
    }

    pub fn set_expr(&self, e: &Expr, locals: &[(String, SetE)]) -> R<SetE> {
        match e {
            Expr::Path(_) => {
                let n = path_ident(e).unwrap_or_default();
                if let Some((_, s)) = locals.iter().find(|(k, _)| *k == n) {
                    return Ok(s.clone());
                }
                if self.sets.iter().any(|(k, _)| *k == n) {
                    return Ok(SetE::Named(n));
                }
                fail(e.span(), format!("unknown token set {n}"))
            }
            Expr::Call(c) => {
                // TokenSet::new(&[..])
                if let Expr::Path(p) = &*c.func {
                    let segs: Vec<String> = p.path.segments.iter().map(|s| s.ident.to_string()).collect();
                    if segs == ["TokenSet", "new"] && c.args.len() == 1 {
                        let mut a = &c.args[0];
                        if let Expr::Reference(r) = a {
                            a = &r.expr;
                        }
                        if let Expr::Array(arr) = a {
                            let mut ks = Vec::new();
                            for el in &arr.elems {
                                match self.kind_const(el) {
                                    Some(k) => ks.push(k),
                                    None => return fail(el.span(), "not a SyntaxKind constant"),
                                }
                            }
                            return Ok(SetE::Kinds(ks));
                        }
                    }
                }
                fail(e.span(), "unsupported token-set expression")
            }
            Expr::MethodCall(m) if m.method == "union" && m.args.len() == 1 => Ok(SetE::Union(
                Box::new(self.set_expr(&m.receiver, locals)?),
                Box::new(self.set_expr(&m.args[0], locals)?),
            )),
            Expr::Paren(p) => self.set_expr(&p.expr, locals),
            _ => fail(e.span(), "unsupported token-set expression"),
        }
    }

    pub fn error_code(&mut self, name: &str) -> usize {
        if let Some(i) = self.errors.iter().position(|e| e == name) {
            return i;
        }
        self.errors.push(name.to_string());
        self.errors.len() - 1
    }
}

impl<'g, 'a> Fx<'g, 'a> {
    fn lookup(&self, n: &str) -> Option<Var> {
        for s in self.scopes.iter().rev() {
            if let Some(v) = s.get(n) {
                return Some(*v);
            }
        }
        None
    }
    fn new_nat(&mut self, n: &str) -> usize {
        let i = self.n_locals;
        self.n_locals += 1;
        self.scopes.last_mut().unwrap().insert(n.to_string(), Var::Nat(i));
        i
    }
    fn tmp_nat(&mut self) -> usize {
        let i = self.n_locals;
        self.n_locals += 1;
        i
    }
    fn new_mark(&mut self, n: &str) -> usize {
        let i = if let Some(pos) = self.alias.iter().position(|(k, _)| k == n) {
            self.alias.remove(pos).1
        } else {
            let i = self.n_marks;
            self.n_marks += 1;
            i
        };
        self.scopes.last_mut().unwrap().insert(n.to_string(), Var::Mark(i));
        i
    }
    fn tmp_mark(&mut self) -> usize {
        let i = self.n_marks;
        self.n_marks += 1;
        i
    }

    fn kind_lit(&self, e: &Expr) -> Option<E> {
        self.g.kind_const(e).map(E::Kind)
    }

    fn err_stmt(&self, e: &Expr) -> R<S> {
        // ErrorKind::X  |  ErrorKind::ExpectToken(K)
        match e {
            Expr::Path(p) => {
                let n = p.path.segments.last().unwrap().ident.to_string();
                match self.g.errors.iter().position(|x| *x == n) {
                    Some(i) => Ok(S::Err(i, None)),
                    None => fail(e.span(), format!("unknown ErrorKind {n}")),
                }
            }
            Expr::Call(c) => {
                if let Expr::Path(p) = &*c.func {
                    let n = p.path.segments.last().unwrap().ident.to_string();
                    if let (Some(i), Some(k)) = (
                        self.g.errors.iter().position(|x| *x == n),
                        c.args.first().and_then(|a| self.g.kind_const(a)),
                    ) {
                        return Ok(S::Err(i, Some(k)));
                    }
                }
                fail(e.span(), "unsupported ErrorKind expression")
            }
            _ => fail(e.span(), "unsupported ErrorKind expression"),
        }
    }

    /// pure (fuel-burning only) expression of type nat/bool/kind
    fn expr(&self, e: &Expr) -> R<E> {
        if let Some(k) = self.kind_lit(e) {
            return Ok(k);
        }
        match e {
            Expr::Lit(l) => match &l.lit {
                Lit::Bool(b) => Ok(E::Lit(b.value as u64)),
                Lit::Int(i) => Ok(E::Lit(i.base10_parse::<u64>().map_err(|_| Fail("bad int".into()))?)),
                _ => fail(e.span(), "unsupported literal"),
            },
            Expr::Paren(p) => self.expr(&p.expr),
            Expr::Path(_) => {
                let n = path_ident(e).unwrap_or_default();
                match self.lookup(&n) {
                    Some(Var::Nat(i)) => Ok(E::Var(i)),
                    _ => fail(e.span(), format!("unknown value variable {n}")),
                }
            }
            Expr::Unary(u) => match u.op {
                UnOp::Not(_) => Ok(E::Not(Box::new(self.expr(&u.expr)?))),
                _ => fail(e.span(), "unsupported unary operator"),
            },
            Expr::Binary(b) => {
                let (l, r) = (self.expr(&b.left)?, self.expr(&b.right)?);
                Ok(match b.op {
                    BinOp::And(_) => E::And(Box::new(l), Box::new(r)),
                    BinOp::Or(_) => E::Or(Box::new(l), Box::new(r)),
                    BinOp::Eq(_) => E::Eq(Box::new(l), Box::new(r)),
                    BinOp::Ne(_) => E::Not(Box::new(E::Eq(Box::new(l), Box::new(r)))),
                    BinOp::Lt(_) => E::Lt(Box::new(l), Box::new(r)),
                    BinOp::Gt(_) => E::Lt(Box::new(r), Box::new(l)),
                    BinOp::Le(_) => E::Not(Box::new(E::Lt(Box::new(r), Box::new(l)))),
                    BinOp::Ge(_) => E::Not(Box::new(E::Lt(Box::new(l), Box::new(r)))),
                    _ => return fail(e.span(), "unsupported binary operator"),
                })
            }
            Expr::MethodCall(m) => {
                let name = m.method.to_string();
                if is_p(&m.receiver) {
                    match (name.as_str(), m.args.len()) {
                        ("at", 1) => {
                            let k = self.expr(&m.args[0])?;
                            Ok(E::Eq(Box::new(E::Nth(0)), Box::new(k)))
                        }
                        ("at_any", 1) => {
                            let s = self.g.set_expr(&m.args[0], &self.local_sets)?;
                            Ok(E::InSet(s, Box::new(E::Nth(0))))
                        }
                        ("eof", 0) => Ok(E::Eof),
                        ("nth", 1) => match &m.args[0] {
                            Expr::Lit(ExprLit { lit: Lit::Int(i), .. }) => Ok(E::Nth(i.base10_parse().unwrap())),
                            _ => fail(e.span(), "nth with a non-literal argument"),
                        },
                        _ => fail(e.span(), format!("unsupported parser method p.{name} in a condition")),
                    }
                } else if name == "contains" && m.args.len() == 1 {
                    let s = self.g.set_expr(&m.receiver, &self.local_sets)?;
                    Ok(E::InSet(s, Box::new(self.expr(&m.args[0])?)))
                } else {
                    fail(e.span(), format!("unsupported method {name} in a condition"))
                }
            }
            _ => fail(e.span(), "unsupported expression"),
        }
    }

    /// `p.eat(K)` ?
    fn as_eat<'e>(&self, e: &'e Expr) -> Option<&'e Expr> {
        if let Expr::MethodCall(m) = e {
            if is_p(&m.receiver) && m.method == "eat" && m.args.len() == 1 {
                return Some(&m.args[0]);
            }
        }
        None
    }

    /// call of a translated procedure with the arguments after the parser
    fn proc_call(&self, sig: &Sig, call_args: &[&Expr], dest: Dest, sp: Span) -> R<S> {
        if call_args.len() != sig.params.len() {
            return fail(sp, "argument count mismatch");
        }
        let mut args = Vec::new();
        let mut margs = Vec::new();
        for (a, is_mark) in call_args.iter().zip(sig.params.iter()) {
            if *is_mark {
                match path_ident(a).and_then(|n| self.lookup(&n)) {
                    Some(Var::Mark(m)) => margs.push(m),
                    _ => return fail(a.span(), "mark argument must be a mark variable"),
                }
            } else {
                args.push(self.expr(a)?);
            }
        }
        let dst = match (sig.ret, dest) {
            (_, Dest::Discard) => Dst::None,
            (Ty::Mark, Dest::Mark(m)) => Dst::Mark(m),
            (Ty::OptMark, Dest::OptMark(m, f)) => Dst::OptMark(m, f),
            (Ty::Nat, Dest::Nat(x)) => Dst::Nat(x),
            (Ty::Unit, _) => Dst::None,
            _ => return fail(sp, "call result used at an unsupported type"),
        };
        Ok(S::Call(sig.idx, args, margs, dst))
    }

    fn at(&self, k: &Expr) -> R<E> {
        Ok(E::Eq(Box::new(E::Nth(0)), Box::new(self.expr(k)?)))
    }

    fn ty_of(&self, e: &Expr) -> Ty {
        match e {
            Expr::MethodCall(m) if is_p(&m.receiver) => match m.method.to_string().as_str() {
                "start_node" | "start_node_before" | "finish_node" => Ty::Mark,
                "at" | "at_any" | "eof" | "nth" | "eat" => Ty::Nat,
                other => self.g.sigs.get(other).map(|s| s.ret).unwrap_or(Ty::Unit),
            },
            Expr::Call(c) => {
                if let Some(n) = path_ident(&c.func) {
                    if n == "Some" {
                        return Ty::OptMark;
                    }
                    if let Some(s) = self.g.sigs.get(&n) {
                        return s.ret;
                    }
                }
                Ty::Unit
            }
            Expr::Path(_) => match path_ident(e).and_then(|n| self.lookup(&n)) {
                Some(Var::Mark(_)) => Ty::Mark,
                Some(Var::Nat(_)) => Ty::Nat,
                None => {
                    if path_ident(e).as_deref() == Some("None") {
                        Ty::OptMark
                    } else {
                        Ty::Nat
                    }
                }
            },
            Expr::Block(b) => self.ty_of_block(&b.block),
            Expr::Paren(p) => self.ty_of(&p.expr),
            Expr::Match(m) => {
                for arm in &m.arms {
                    let t = self.ty_of(&arm.body);
                    if !diverges(&arm.body) {
                        return t;
                    }
                }
                Ty::Unit
            }
            Expr::If(i) => self.ty_of_block(&i.then_branch),
            Expr::Lit(_) | Expr::Binary(_) | Expr::Unary(_) | Expr::Macro(_) => Ty::Nat,
            _ => Ty::Unit,
        }
    }

    fn ty_of_block(&self, b: &Block) -> Ty {
        match b.stmts.last() {
            Some(Stmt::Expr(e, None)) => {
                // a let earlier in the block may define the tail variable
                if let Some(n) = path_ident(e) {
                    for st in &b.stmts {
                        if let Stmt::Local(l) = st {
                            if pat_name(&l.pat).as_deref() == Some(&n) {
                                if let Some(init) = &l.init {
                                    return self.ty_of(&init.expr);
                                }
                            }
                        }
                    }
                }
                self.ty_of(e)
            }
            _ => Ty::Unit,
        }
    }

    fn block(&mut self, b: &Block, dest: Dest) -> R<S> {
        self.scopes.push(HashMap::new());
        // tail-variable aliasing: `{ let mut v = ..; ..; v }` into a mark destination
        let mut pushed_alias = false;
        if let (Dest::Mark(d), Some(Stmt::Expr(e, None))) = (dest, b.stmts.last()) {
            if let Some(n) = path_ident(e) {
                let declared_here = b.stmts.iter().any(|st| matches!(st, Stmt::Local(l) if pat_name(&l.pat).as_deref() == Some(&n)));
                if declared_here {
                    self.alias.push((n, d));
                    pushed_alias = true;
                }
            }
        }
        let mut out = Vec::new();
        let n = b.stmts.len();
        for (i, st) in b.stmts.iter().enumerate() {
            let last = i + 1 == n;
            match st {
                Stmt::Local(l) => out.push(self.local(l)?),
                Stmt::Expr(e, semi) => {
                    if last && semi.is_none() {
                        out.push(self.value(e, dest)?);
                    } else {
                        out.push(self.value(e, Dest::Discard)?);
                    }
                }
                Stmt::Item(Item::Const(c)) => {
                    let s = self.g.set_expr(&c.expr, &self.local_sets)?;
                    self.local_sets.push((c.ident.to_string(), s));
                }
                Stmt::Macro(m) => out.push(self.macro_stmt(&m.mac)?),
                _ => return fail(st.span(), "unsupported statement"),
            }
        }
        if pushed_alias {
            // consumed by the `let`; if not, the alias was never used
            self.alias.retain(|(_, s)| !matches!(dest, Dest::Mark(d) if d == *s));
        }
        self.scopes.pop();
        Ok(seqs(out))
    }

    fn macro_stmt(&mut self, m: &Macro) -> R<S> {
        if m.path.is_ident("assert") {
            let e: Expr = match syn::parse2(m.tokens.clone()) {
                Ok(e) => e,
                Err(_) => return fail(m.span(), "unparsable assert!"),
            };
            return Ok(S::Assert(self.expr(&e)?));
        }
        fail(m.span(), "unsupported macro statement")
    }

    fn local(&mut self, l: &Local) -> R<S> {
        let init = match &l.init {
            Some(i) => i,
            None => return fail(l.span(), "let without initialiser"),
        };
        // let Some(mut x) = (EXPR) else { ELSE };
        if let Some((_, else_e)) = &init.diverge {
            if let Pat::TupleStruct(ts) = &l.pat {
                if ts.path.is_ident("Some") && ts.elems.len() == 1 {
                    if let Some(n) = pat_name(&ts.elems[0]) {
                        let flag = self.tmp_nat();
                        let slot = self.new_mark(&n);
                        let v = self.value(&init.expr, Dest::OptMark(slot, flag))?;
                        let els = self.value(else_e, Dest::Discard)?;
                        return Ok(seq(
                            v,
                            S::Ite(E::Eq(Box::new(E::Var(flag)), Box::new(E::Lit(0))), Box::new(els), Box::new(S::Skip)),
                        ));
                    }
                }
            }
            return fail(l.span(), "unsupported let-else");
        }
        // let (a, b) = match x.infix_bp() { None => break, Some(bps) => bps };
        if let Pat::Tuple(t) = &l.pat {
            if t.elems.len() == 2 {
                if let Expr::Match(m) = &*init.expr {
                    if let Expr::MethodCall(mc) = &*m.expr {
                        if mc.method == "infix_bp" {
                            let (set, tl, tr) = match &self.g.infix {
                                Some(x) => x.clone(),
                                None => return fail(l.span(), "infix_bp table not found"),
                            };
                            let scrut = self.expr(&mc.receiver)?;
                            let mut none_branch = None;
                            for arm in &m.arms {
                                if let Pat::Ident(pi) = &arm.pat {
                                    if pi.ident == "None" {
                                        none_branch = Some(self.value(&arm.body, Dest::Discard)?);
                                    }
                                }
                            }
                            let none_branch = match none_branch {
                                Some(s) => s,
                                None => return fail(l.span(), "infix_bp match without None arm"),
                            };
                            let a = pat_name(&t.elems[0]).unwrap_or_default();
                            let b = pat_name(&t.elems[1]).unwrap_or_default();
                            let (ia, ib) = (self.new_nat(&a), self.new_nat(&b));
                            return Ok(S::Ite(
                                E::InSet(set, Box::new(scrut.clone())),
                                Box::new(seq(
                                    S::Set(ia, E::Tbl(tl, Box::new(scrut.clone()))),
                                    S::Set(ib, E::Tbl(tr, Box::new(scrut))),
                                )),
                                Box::new(none_branch),
                            ));
                        }
                    }
                }
            }
            return fail(l.span(), "unsupported tuple let");
        }
        let name = match pat_name(&l.pat) {
            Some(n) => n,
            None => return fail(l.pat.span(), "unsupported let pattern"),
        };
        if let Some(k) = self.as_eat(&init.expr) {
            let c = self.at(k)?;
            let x = self.new_nat(&name);
            return Ok(S::Ite(c, Box::new(seq(S::Bump, S::Set(x, E::Lit(1)))), Box::new(S::Set(x, E::Lit(0)))));
        }
        match self.ty_of(&init.expr) {
            Ty::Mark => {
                // evaluate first (the initialiser may mention a shadowed variable of the same name)
                let tmp_scope_name = format!("\u{1}{name}");
                let slot = if let Some(pos) = self.alias.iter().position(|(k, _)| *k == name) {
                    self.alias.remove(pos).1
                } else {
                    self.tmp_mark()
                };
                let _ = tmp_scope_name;
                let v = self.value(&init.expr, Dest::Mark(slot))?;
                self.scopes.last_mut().unwrap().insert(name, Var::Mark(slot));
                Ok(v)
            }
            Ty::Nat => {
                let x = self.tmp_nat();
                let v = self.value(&init.expr, Dest::Nat(x))?;
                self.scopes.last_mut().unwrap().insert(name, Var::Nat(x));
                Ok(v)
            }
            t => fail(l.span(), format!("unsupported let of type {t:?}")),
        }
    }

    fn assign_dest(&self, target: &Expr) -> R<Dest> {
        match path_ident(target).and_then(|n| self.lookup(&n)) {
            Some(Var::Nat(i)) => Ok(Dest::Nat(i)),
            Some(Var::Mark(i)) => Ok(Dest::Mark(i)),
            None => fail(target.span(), "assignment to unknown variable"),
        }
    }

    fn kind_match(&mut self, m: &ExprMatch, dest: Dest) -> R<S> {
        // scrutinee
        let mut pre = Vec::new();
        let scrut: E;
        let mut prefix_mode = false;
        match &*m.expr {
            Expr::MethodCall(mc) if mc.method == "prefix_bp" => {
                let inner = self.expr(&mc.receiver)?;
                let t = self.tmp_nat();
                pre.push(S::Set(t, inner));
                scrut = E::Var(t);
                prefix_mode = true;
            }
            e => {
                let inner = self.expr(e)?;
                match inner {
                    E::Var(_) => scrut = inner,
                    _ => {
                        let t = self.tmp_nat();
                        pre.push(S::Set(t, inner));
                        scrut = E::Var(t);
                    }
                }
            }
        }
        // arms, last to first
        let mut acc: Option<S> = None;
        for arm in m.arms.iter().rev() {
            self.scopes.push(HashMap::new());
            let mut binds = Vec::new();
            let cond: Option<E> = if prefix_mode {
                let (set, tr) = match &self.g.prefix {
                    Some(x) => x.clone(),
                    None => return fail(m.span(), "prefix_bp table not found"),
                };
                match &arm.pat {
                    Pat::TupleStruct(ts) if ts.path.is_ident("Some") => {
                        let n = pat_name(&ts.elems[0]).unwrap_or_default();
                        let x = self.new_nat(&n);
                        binds.push(S::Set(x, E::Tbl(tr, Box::new(scrut.clone()))));
                        Some(E::InSet(set, Box::new(scrut.clone())))
                    }
                    Pat::Wild(_) => None,
                    Pat::Ident(pi) if pi.ident == "None" => None,
                    _ => return fail(arm.pat.span(), "unsupported prefix_bp pattern"),
                }
            } else {
                self.arm_cond(&arm.pat, &scrut, &mut binds)?
            };
            let cond = match (&arm.guard, cond) {
                (Some((_, g)), c) => {
                    let ge = self.expr(g)?;
                    Some(match c {
                        Some(c) => E::And(Box::new(c), Box::new(ge)),
                        None => ge,
                    })
                }
                (None, c) => c,
            };
            let body = self.value(&arm.body, dest)?;
            self.scopes.pop();
            let body = if arm.guard.is_some() { body } else { seq(seqs(binds.clone()), body) };
            acc = Some(match cond {
                None => {
                    if !binds.is_empty() && arm.guard.is_some() {
                        return fail(arm.span(), "guarded binding arm must have a condition");
                    }
                    body
                }
                Some(c) => {
                    // bindings used by a guard must be set before the test
                    let els = acc.unwrap_or(S::Skip);
                    if arm.guard.is_some() && !binds.is_empty() {
                        seq(seqs(binds), S::Ite(c, Box::new(self_strip(body)), Box::new(els)))
                    } else {
                        S::Ite(c, Box::new(body), Box::new(els))
                    }
                }
            });
        }
        pre.push(acc.unwrap_or(S::Skip));
        Ok(seqs(pre))
    }

    /// condition under which `pat` matches the kind in `scrut`; `None` = always
    fn arm_cond(&mut self, pat: &Pat, scrut: &E, binds: &mut Vec<S>) -> R<Option<E>> {
        fn kinds_of(fx: &Fx, pat: &Pat, out: &mut Vec<String>) -> R<()> {
            match pat {
                Pat::Or(o) => {
                    for c in &o.cases {
                        kinds_of(fx, c, out)?;
                    }
                    Ok(())
                }
                Pat::Paren(p) => kinds_of(fx, &p.pat, out),
                Pat::Macro(m) => match fx.g.kind_of_tmacro(&m.mac) {
                    Some(k) => {
                        out.push(k);
                        Ok(())
                    }
                    None => fail(pat.span(), "unknown T! pattern"),
                },
                Pat::Ident(pi) if pi.subpat.is_none() && fx.g.kinds.index.contains_key(&pi.ident.to_string()) => {
                    out.push(pi.ident.to_string());
                    Ok(())
                }
                Pat::Path(p) => {
                    let n = p.path.segments.last().unwrap().ident.to_string();
                    if fx.g.kinds.index.contains_key(&n) {
                        out.push(n);
                        Ok(())
                    } else {
                        fail(pat.span(), "unknown kind pattern")
                    }
                }
                _ => fail(pat.span(), "unsupported kind pattern"),
            }
        }
        match pat {
            Pat::Wild(_) => Ok(None),
            Pat::Ident(pi) if pi.subpat.is_some() => {
                // s @ (A | B)
                let x = self.new_nat(&pi.ident.to_string());
                binds.push(S::Set(x, scrut.clone()));
                let mut ks = Vec::new();
                kinds_of(self, &pi.subpat.as_ref().unwrap().1, &mut ks)?;
                Ok(Some(E::InSet(SetE::Kinds(ks), Box::new(scrut.clone()))))
            }
            Pat::Ident(pi) if !self.g.kinds.index.contains_key(&pi.ident.to_string()) => {
                // binding of the scrutinee (`k if …`)
                let x = self.new_nat(&pi.ident.to_string());
                binds.push(S::Set(x, scrut.clone()));
                Ok(None)
            }
            _ => {
                let mut ks = Vec::new();
                kinds_of(self, pat, &mut ks)?;
                if ks.len() == 1 {
                    Ok(Some(E::Eq(Box::new(scrut.clone()), Box::new(E::Kind(ks.pop().unwrap())))))
                } else {
                    Ok(Some(E::InSet(SetE::Kinds(ks), Box::new(scrut.clone()))))
                }
            }
        }
    }

    fn store_nat(&self, e: E, dest: Dest, sp: Span) -> R<S> {
        match dest {
            Dest::Nat(x) => Ok(S::Set(x, e)),
            Dest::Discard => Ok(S::Skip),
            _ => fail(sp, "value of type nat in a mark position"),
        }
    }

    /// translate an expression whose value (if any) goes to `dest`
    fn value(&mut self, e: &Expr, dest: Dest) -> R<S> {
        match e {
            Expr::Block(b) => self.block(&b.block, dest),
            Expr::Paren(p) => self.value(&p.expr, dest),
            Expr::If(i) => self.if_expr(i, dest),
            Expr::While(w) => {
                let body = self.block(&w.body, Dest::Discard)?;
                if self.as_eat(&w.cond).is_some() {
                    return fail(w.cond.span(), "eat in a while condition");
                }
                let c = self.expr(&w.cond)?;
                Ok(S::Loop(Box::new(S::Ite(c, Box::new(body), Box::new(S::Brk)))))
            }
            Expr::Loop(l) => Ok(S::Loop(Box::new(self.block(&l.body, Dest::Discard)?))),
            Expr::Break(b) if b.expr.is_none() && b.label.is_none() => Ok(S::Brk),
            Expr::Return(r) => match &r.expr {
                None => Ok(S::Ret(Ret::Unit)),
                Some(v) => {
                    if path_ident(v).as_deref() == Some("None") {
                        return Ok(S::Ret(Ret::NoMark));
                    }
                    match self.ret {
                        Ty::Mark => {
                            let t = self.tmp_mark();
                            let s = self.value(v, Dest::Mark(t))?;
                            Ok(seq(s, S::Ret(Ret::Mark(t))))
                        }
                        Ty::Nat => Ok(S::Ret(Ret::Nat(self.expr(v)?))),
                        _ => fail(e.span(), "unsupported return value"),
                    }
                }
            },
            Expr::Match(m) => self.kind_match(m, dest),
            Expr::Assign(a) => {
                let d = self.assign_dest(&a.left)?;
                if let (Dest::Nat(x), Some(k)) = (d, self.as_eat(&a.right)) {
                    let c = self.at(k)?;
                    return Ok(S::Ite(c, Box::new(seq(S::Bump, S::Set(x, E::Lit(1)))), Box::new(S::Set(x, E::Lit(0)))));
                }
                self.value(&a.right, d)
            }
            Expr::Macro(m) if m.mac.path.is_ident("assert") => self.macro_stmt(&m.mac),
            Expr::Call(c) => {
                let fname = match path_ident(&c.func) {
                    Some(n) => n,
                    None => return fail(e.span(), "unsupported call"),
                };
                if fname == "Some" && c.args.len() == 1 {
                    return match dest {
                        Dest::OptMark(m, f) => {
                            let s = self.value(&c.args[0], Dest::Mark(m))?;
                            Ok(seq(s, S::Set(f, E::Lit(1))))
                        }
                        _ => {
                            // `Some(res)` as the tail of an Option-returning function
                            if let (Ty::OptMark, Some(Var::Mark(m))) =
                                (self.ret, path_ident(&c.args[0]).and_then(|n| self.lookup(&n)))
                            {
                                Ok(S::Ret(Ret::Mark(m)))
                            } else {
                                fail(e.span(), "Some(..) in an unsupported position")
                            }
                        }
                    };
                }
                let sig = match self.g.sigs.get(&fname) {
                    Some(s) => s.clone(),
                    None => return fail(e.span(), format!("call to unknown function {fname}")),
                };
                if c.args.is_empty() || !is_p(&c.args[0]) {
                    return fail(e.span(), "grammar function not called with the parser");
                }
                let args: Vec<&Expr> = c.args.iter().skip(1).collect();
                self.proc_call(&sig, &args, dest, e.span())
            }
            Expr::MethodCall(m) if is_p(&m.receiver) => {
                let name = m.method.to_string();
                match (name.as_str(), m.args.len()) {
                    ("bump", 0) => Ok(S::Bump),
                    ("error", 1) => self.err_stmt(&m.args[0]),
                    ("expect", 1) => {
                        let k = match self.g.kind_const(&m.args[0]) {
                            Some(k) => k,
                            None => return fail(e.span(), "expect of a non-constant kind"),
                        };
                        let code = match self.g.errors.iter().position(|x| x == "ExpectToken") {
                            Some(c) => c,
                            None => return fail(e.span(), "ErrorKind::ExpectToken not found"),
                        };
                        Ok(S::Ite(self.at(&m.args[0])?, Box::new(S::Bump), Box::new(S::Err(code, Some(k)))))
                    }
                    ("eat", 1) => {
                        let c = self.at(&m.args[0])?;
                        match dest {
                            Dest::Discard => Ok(S::Ite(c, Box::new(S::Bump), Box::new(S::Skip))),
                            Dest::Nat(x) => Ok(S::Ite(c, Box::new(seq(S::Bump, S::Set(x, E::Lit(1)))), Box::new(S::Set(x, E::Lit(0))))),
                            _ => fail(e.span(), "eat in a mark position"),
                        }
                    }
                    ("bump_with_error", 1) => {
                        let t = self.tmp_mark();
                        let er = self.err_stmt(&m.args[0])?;
                        Ok(seqs(vec![S::Open(t), er, S::Bump, S::Close(t, "ERROR".into(), None)]))
                    }
                    ("start_node", 0) => match dest {
                        Dest::Mark(d) => Ok(S::Open(d)),
                        _ => fail(e.span(), "start_node result must be bound"),
                    },
                    ("start_node_before", 1) => {
                        let src = match path_ident(&m.args[0]).and_then(|n| self.lookup(&n)) {
                            Some(Var::Mark(s)) => s,
                            _ => return fail(e.span(), "start_node_before of a non-variable"),
                        };
                        match dest {
                            Dest::Mark(d) => Ok(S::OpenBefore(d, src)),
                            _ => fail(e.span(), "start_node_before result must be bound"),
                        }
                    }
                    ("finish_node", 2) => {
                        let src = match path_ident(&m.args[0]).and_then(|n| self.lookup(&n)) {
                            Some(Var::Mark(s)) => s,
                            _ => return fail(e.span(), "finish_node of a non-variable"),
                        };
                        let k = match self.g.kind_const(&m.args[1]) {
                            Some(k) => k,
                            None => return fail(e.span(), "finish_node with a non-constant kind"),
                        };
                        match dest {
                            Dest::Mark(d) => Ok(S::Close(src, k, Some(d))),
                            Dest::Discard => Ok(S::Close(src, k, None)),
                            Dest::OptMark(..) | Dest::Nat(_) => fail(e.span(), "finish_node in an unsupported position"),
                        }
                    }
                    ("at", 1) | ("at_any", 1) | ("eof", 0) | ("nth", 1) => {
                        let v = self.expr(e)?;
                        self.store_nat(v, dest, e.span())
                    }
                    _ => {
                        let sig = match self.g.sigs.get(&name) {
                            Some(s) => s.clone(),
                            None => return fail(e.span(), format!("unsupported parser method p.{name}")),
                        };
                        let args: Vec<&Expr> = m.args.iter().collect();
                        self.proc_call(&sig, &args, dest, e.span())
                    }
                }
            }
            Expr::Path(_) => {
                // a variable as a value
                let n = path_ident(e).unwrap_or_default();
                match (self.lookup(&n), dest) {
                    (Some(Var::Mark(m)), Dest::Mark(d)) if m == d => Ok(S::Skip),
                    (Some(Var::Nat(_)), Dest::Nat(x)) => Ok(S::Set(x, self.expr(e)?)),
                    (_, Dest::Discard) => Ok(S::Skip),
                    _ => {
                        if let Some(k) = self.kind_lit(e) {
                            return self.store_nat(k, dest, e.span());
                        }
                        fail(e.span(), format!("unsupported use of variable {n} as a value"))
                    }
                }
            }
            Expr::Lit(_) | Expr::Binary(_) | Expr::Unary(_) => {
                let v = self.expr(e)?;
                self.store_nat(v, dest, e.span())
            }
            _ => fail(e.span(), "unsupported expression form"),
        }
    }

    fn if_expr(&mut self, i: &ExprIf, dest: Dest) -> R<S> {
        let els = match &i.else_branch {
            Some((_, e)) => self.value(e, dest)?,
            None => S::Skip,
        };
        // eat in the condition
        if let Some(k) = self.as_eat(&i.cond) {
            let c = self.at(k)?;
            let then = self.block(&i.then_branch, dest)?;
            return Ok(S::Ite(c, Box::new(seq(S::Bump, then)), Box::new(els)));
        }
        if let Expr::Unary(u) = &*i.cond {
            if let (UnOp::Not(_), Some(k)) = (&u.op, self.as_eat(&u.expr)) {
                let c = self.at(k)?;
                let then = self.block(&i.then_branch, dest)?;
                return Ok(S::Ite(c, Box::new(seq(S::Bump, els)), Box::new(then)));
            }
        }
        let c = self.expr(&i.cond)?;
        let then = self.block(&i.then_branch, dest)?;
        Ok(S::Ite(c, Box::new(then), Box::new(els)))
    }
}

fn self_strip(s: S) -> S {
    s
}

fn diverges(e: &Expr) -> bool {
    match e {
        Expr::Return(_) | Expr::Break(_) => true,
        Expr::Block(b) => matches!(b.block.stmts.last(), Some(Stmt::Expr(e, _)) if diverges(e)),
        _ => false,
    }
}

pub fn pat_name(p: &Pat) -> Option<String> {
    match p {
        Pat::Ident(pi) if pi.subpat.is_none() => Some(pi.ident.to_string()),
        Pat::Type(t) => pat_name(&t.pat),
        _ => None,
    }
}

pub struct ProcOut {
    pub name: String,
    pub n_locals: usize,
    pub n_marks: usize,
    pub body: S,
    pub line: usize,
}

fn type_is(t: &Type, name: &str) -> bool {
    if let Type::Path(p) = t {
        return p.path.segments.last().map(|s| s.ident == name).unwrap_or(false);
    }
    false
}

fn ret_ty(sig: &Signature) -> R<Ty> {
    match &sig.output {
        ReturnType::Default => Ok(Ty::Unit),
        ReturnType::Type(_, t) => {
            if type_is(t, "MarkClosed") {
                return Ok(Ty::Mark);
            }
            if let Type::Path(p) = &**t {
                let last = p.path.segments.last().unwrap();
                if last.ident == "Option" {
                    if let PathArguments::AngleBracketed(a) = &last.arguments {
                        if let Some(GenericArgument::Type(inner)) = a.args.first() {
                            if type_is(inner, "MarkClosed") {
                                return Ok(Ty::OptMark);
                            }
                        }
                    }
                }
            }
            fail(sig.span(), "unsupported return type")
        }
    }
}

/// is this a grammar function `fn f(p: &mut Parser, …)`?
fn is_grammar_fn(f: &ItemFn) -> bool {
    match f.sig.inputs.first() {
        Some(FnArg::Typed(pt)) => {
            if let Type::Reference(r) = &*pt.ty {
                if let Type::Path(p) = &*r.elem {
                    return p.path.segments.last().map(|s| s.ident == "Parser").unwrap_or(false);
                }
            }
            false
        }
        _ => false,
    }
}

/// a grammar procedure: a free `fn f(p: &mut Parser, …)` or a helper method `fn f(&mut self, …)` of `impl Parser`
#[derive(Clone, Copy)]
pub struct FnRef<'a> {
    pub sig: &'a Signature,
    pub block: &'a Block,
}

/// the methods of `impl Parser` the DSL has as primitives (their bodies are read by policy.rs)
const PARSER_PRIMITIVES: [&str; 14] = [
    "build_tree", "error", "start_node", "start_node_before", "finish_node", "bump", "bump_with_error", "eof", "nth", "at",
    "at_any", "eat", "expect", "new",
];

/// The DSL's primitives are modelled by hand (Glas/Model/Dsl.lean: `bump`, `nth`, marks, ...).  Their source text is
/// pinned: every primitive method of `impl Parser` must be, token for token, the text the model was written from
/// (xlate/primitives.expected, regenerate with GLAS_XLATE_PRINT_PRIMITIVES=1 after adapting Dsl.lean).
pub fn check_primitives(file: &File) -> R<()> {
    use quote::ToTokens;
    let mut found: Vec<(String, String)> = Vec::new();
    for it in &file.items {
        if let Item::Impl(im) = it {
            let is_parser = im.trait_.is_none()
                && matches!(&*im.self_ty, Type::Path(tp) if tp.path.segments.last().map(|s| s.ident == "Parser").unwrap_or(false));
            if !is_parser {
                continue;
            }
            for ii in &im.items {
                if let ImplItem::Fn(f) = ii {
                    let name = f.sig.ident.to_string();
                    // (`build_tree` is translated, not pinned: policy.rs reads its arms)
                    if PARSER_PRIMITIVES.contains(&name.as_str()) && name != "build_tree" {
                        let text = format!("{} {}", f.sig.to_token_stream(), f.block.to_token_stream());
                        found.push((name, text.split_whitespace().collect::<Vec<_>>().join(" ")));
                    }
                }
            }
        }
    }
    found.sort();
    if std::env::var("GLAS_XLATE_PRINT_PRIMITIVES").is_ok() {
        for (n, t) in &found {
            println!("{n}\t{t}");
        }
    }
    let expected: Vec<(String, String)> = include_str!("../primitives.expected")
        .lines()
        .filter(|l| !l.is_empty())
        .filter_map(|l| l.split_once('\t').map(|(a, b)| (a.to_string(), b.to_string())))
        .collect();
    for (n, t) in &expected {
        match found.iter().find(|(m, _)| m == n) {
            None => return fail(proc_macro2::Span::call_site(), format!("Parser::{n}: primitive not found (the model of the primitives was written from another text)")),
            Some((_, got)) if got != t => {
                return fail(proc_macro2::Span::call_site(), format!("Parser::{n}: the body of this primitive is not the text its model (Dsl.lean) was written from"))
            }
            _ => {}
        }
    }
    for (n, _) in &found {
        if !expected.iter().any(|(m, _)| m == n) {
            return fail(proc_macro2::Span::call_site(), format!("Parser::{n}: primitive without a pinned text"));
        }
    }
    Ok(())
}

fn sig_of(sig: &Signature, idx: usize) -> R<Sig> {
    let mut params = Vec::new();
    for a in sig.inputs.iter().skip(1) {
        if let FnArg::Typed(pt) = a {
            if type_is(&pt.ty, "MarkOpened") {
                params.push(true);
            } else if type_is(&pt.ty, "bool") || type_is(&pt.ty, "u8") || type_is(&pt.ty, "SyntaxKind") {
                params.push(false);
            } else {
                return fail(pt.span(), "unsupported parameter type");
            }
        }
    }
    Ok(Sig { idx, ret: ret_ty(sig)?, params })
}

pub fn collect_sigs(file: &File) -> R<(Vec<FnRef<'_>>, HashMap<String, Sig>)> {
    let mut fns = Vec::new();
    let mut sigs = HashMap::new();
    for it in &file.items {
        match it {
            Item::Fn(f) => {
                if !is_grammar_fn(f) {
                    continue;
                }
                sigs.insert(f.sig.ident.to_string(), sig_of(&f.sig, fns.len())?);
                fns.push(FnRef { sig: &f.sig, block: &f.block });
            }
            Item::Impl(im) if im.trait_.is_none() => {
                let is_parser = matches!(&*im.self_ty, Type::Path(tp) if tp.path.segments.last().map(|s| s.ident == "Parser").unwrap_or(false));
                if !is_parser {
                    continue;
                }
                for ii in &im.items {
                    if let ImplItem::Fn(f) = ii {
                        let name = f.sig.ident.to_string();
                        if PARSER_PRIMITIVES.contains(&name.as_str()) {
                            continue;
                        }
                        // a helper built from the primitives: translated like a grammar function (receiver = the parser)
                        if !matches!(f.sig.inputs.first(), Some(FnArg::Receiver(_))) {
                            return fail(f.sig.span(), format!("Parser::{name}: helper without a self receiver"));
                        }
                        if sigs.contains_key(&name) {
                            return fail(f.sig.span(), format!("Parser::{name}: name clashes with a grammar function"));
                        }
                        sigs.insert(name, sig_of(&f.sig, fns.len())?);
                        fns.push(FnRef { sig: &f.sig, block: &f.block });
                    }
                }
            }
            _ => {}
        }
    }
    Ok((fns, sigs))
}

pub fn translate_fn(g: &Gen, f: FnRef) -> R<ProcOut> {
    let sig = g.sigs.get(&f.sig.ident.to_string()).unwrap().clone();
    let mut fx = Fx {
        g,
        fname: f.sig.ident.to_string(),
        scopes: vec![HashMap::new()],
        n_locals: 0,
        n_marks: 0,
        ret: sig.ret,
        local_sets: Vec::new(),
        alias: Vec::new(),
    };
    for a in f.sig.inputs.iter().skip(1) {
        if let FnArg::Typed(pt) = a {
            let n = match pat_name(&pt.pat) {
                Some(n) => n,
                None => return fail(pt.span(), "unsupported parameter pattern"),
            };
            if type_is(&pt.ty, "MarkOpened") {
                // mark parameters occupy mark slots 0.. in order
                fx.new_mark(&n);
            } else {
                fx.new_nat(&n);
            }
        }
    }
    // nat params must occupy locals 0.. and mark params marks 0.. — guaranteed by allocation order
    let body = match sig.ret {
        Ty::Mark => {
            let r = fx.tmp_mark();
            let s = fx.block(f.block, Dest::Mark(r))?;
            seq(s, S::Ret(Ret::Mark(r)))
        }
        Ty::OptMark => fx.block(f.block, Dest::Discard)?,
        Ty::Nat => return fail(f.sig.span(), "nat-returning grammar functions are not supported"),
        Ty::Unit => fx.block(f.block, Dest::Discard)?,
    };
    let _ = &fx.fname;
    Ok(ProcOut {
        name: f.sig.ident.to_string(),
        n_locals: fx.n_locals,
        n_marks: fx.n_marks,
        body,
        line: f.sig.span().start().line,
    })
}
