//! Structural extraction: binding-power tables, facts of `parse_module`, the `build_tree` policy.
use crate::kinds::norm_tokens;
use crate::parser::{Fail, Gen};
use quote::ToTokens;
use syn::spanned::Spanned;
use syn::*;

type R<T> = std::result::Result<T, Fail>;

fn fail<T>(sp: proc_macro2::Span, msg: impl Into<String>) -> R<T> {
    Err(Fail(format!("parser.rs:{}:{}: {}", sp.start().line, sp.start().column + 1, msg.into())))
}

fn pat_kinds(g: &Gen, p: &Pat, out: &mut Vec<String>) -> R<()> {
    match p {
        Pat::Or(o) => {
            for c in &o.cases {
                pat_kinds(g, c, out)?;
            }
            Ok(())
        }
        Pat::Paren(pp) => pat_kinds(g, &pp.pat, out),
        Pat::Macro(m) => match g.kind_of_tmacro(&m.mac) {
            Some(k) => {
                out.push(k);
                Ok(())
            }
            None => fail(p.span(), "unknown T! pattern"),
        },
        Pat::Ident(pi) if g.kinds.index.contains_key(&pi.ident.to_string()) => {
            out.push(pi.ident.to_string());
            Ok(())
        }
        Pat::Path(pp) => {
            let n = pp.path.segments.last().unwrap().ident.to_string();
            if g.kinds.index.contains_key(&n) {
                out.push(n);
                Ok(())
            } else {
                fail(p.span(), "unknown kind pattern")
            }
        }
        _ => fail(p.span(), "unsupported pattern"),
    }
}

fn int_of(e: &Expr) -> Option<u64> {
    if let Expr::Lit(ExprLit { lit: Lit::Int(i), .. }) = e {
        return i.base10_parse().ok();
    }
    None
}

/// rows of `fn prefix_bp/infix_bp(self) -> Option<..> { Some(match self { pats => v, …, _ => return None }) }`
pub fn bp_rows(g: &Gen, f: &ImplItemFn) -> R<Vec<(String, Vec<u64>)>> {
    let tail = match f.block.stmts.last() {
        Some(Stmt::Expr(e, None)) if f.block.stmts.len() == 1 => e,
        _ => return fail(f.sig.span(), "unsupported bp function body"),
    };
    let inner = match tail {
        Expr::Call(c) if c.args.len() == 1 && c.func.to_token_stream().to_string() == "Some" => &c.args[0],
        _ => return fail(tail.span(), "bp function must be Some(match self {..})"),
    };
    let m = match inner {
        Expr::Match(m) => m,
        _ => return fail(inner.span(), "bp function must be Some(match self {..})"),
    };
    let mut rows = Vec::new();
    for arm in &m.arms {
        if let Pat::Wild(_) = arm.pat {
            let body = norm_tokens(&arm.body.to_token_stream());
            if body != "returnNone" {
                return fail(arm.span(), "default bp arm must be `return None`");
            }
            continue;
        }
        if arm.guard.is_some() {
            return fail(arm.span(), "guards in bp tables are not supported");
        }
        let mut ks = Vec::new();
        pat_kinds(g, &arm.pat, &mut ks)?;
        let vals = match &*arm.body {
            Expr::Tuple(t) => {
                let mut v = Vec::new();
                for e in &t.elems {
                    match int_of(e) {
                        Some(n) => v.push(n),
                        None => return fail(e.span(), "non-literal binding power"),
                    }
                }
                v
            }
            e => match int_of(e) {
                Some(n) => vec![n],
                None => return fail(e.span(), "non-literal binding power"),
            },
        };
        for k in ks {
            if rows.iter().any(|(k2, _): &(String, Vec<u64>)| *k2 == k) {
                continue; // first arm wins, as in Rust
            }
            rows.push((k, vals.clone()));
        }
    }
    Ok(rows)
}

/// (look-ahead fuel, name of the trivia predicate used to filter tokens)
pub fn parse_module_facts(file: &File) -> R<(u64, String)> {
    for it in &file.items {
        if let Item::Fn(f) = it {
            if f.sig.ident == "parse_module" {
                let s = norm_tokens(&f.block.to_token_stream());
                let fuel = match s.find("fuel:Cell::new(") {
                    Some(i) => {
                        let rest = &s[i + "fuel:Cell::new(".len()..];
                        let num: String = rest.chars().take_while(|c| c.is_ascii_digit() || *c == '_').filter(|c| *c != '_').collect();
                        match num.parse::<u64>() {
                            Ok(n) => n,
                            Err(_) => return fail(f.sig.span(), "fuel constant not found"),
                        }
                    }
                    None => return fail(f.sig.span(), "fuel constant not found"),
                };
                let pred = match s.find(".filter(|&t|!t.kind.") {
                    Some(i) => {
                        let rest = &s[i + ".filter(|&t|!t.kind.".len()..];
                        rest.chars().take_while(|c| c.is_alphanumeric() || *c == '_').collect::<String>()
                    }
                    None => return fail(f.sig.span(), "trivia filter of parse_module not found"),
                };
                if !s.contains("module(&mutp);p.build_tree()") {
                    return fail(f.sig.span(), "parse_module no longer ends with module(&mut p); p.build_tree()");
                }
                if !s.contains("pos:0,") || !s.contains("events:Vec::new()") || !s.contains("errors:Vec::new()") {
                    return fail(f.sig.span(), "parser initial state changed");
                }
                return Ok((fuel, pred));
            }
        }
    }
    Err(Fail("parser.rs: fn parse_module not found".into()))
}

#[derive(Debug, Clone)]
enum Act {
    Eat(String, u64),
    Start,
    Finish,
}

fn acts_of_block(b: &Block) -> R<Vec<Act>> {
    let mut vars: Vec<(String, String)> = Vec::new();
    let mut out = Vec::new();
    for st in &b.stmts {
        match st {
            Stmt::Local(l) => {
                let name = crate::parser::pat_name(&l.pat).unwrap_or_default();
                match l.init.as_ref().map(|i| &*i.expr) {
                    Some(Expr::Macro(m)) if m.mac.path.is_ident("n_tokens") => {
                        vars.push((name, norm_tokens(&m.mac.tokens)));
                    }
                    _ => return fail(st.span(), "unsupported statement in build_tree"),
                }
            }
            Stmt::Expr(e, _) => match e {
                Expr::Call(c) if c.func.to_token_stream().to_string() == "eat_token" => {
                    let (v, extra) = match &c.args[0] {
                        Expr::Path(_) => (c.args[0].to_token_stream().to_string(), 0),
                        Expr::Binary(b) if matches!(b.op, BinOp::Add(_)) => match int_of(&b.right) {
                            Some(n) => (b.left.to_token_stream().to_string(), n),
                            None => return fail(e.span(), "unsupported eat_token count"),
                        },
                        _ => return fail(e.span(), "unsupported eat_token count"),
                    };
                    match vars.iter().rev().find(|(n, _)| *n == v) {
                        Some((_, p)) => out.push(Act::Eat(p.clone(), extra)),
                        None => return fail(e.span(), "eat_token count is not an n_tokens! value"),
                    }
                }
                Expr::MethodCall(m) if m.receiver.to_token_stream().to_string() == "builder" => {
                    match m.method.to_string().as_str() {
                        "start_node" => {
                            if norm_tokens(&m.args.to_token_stream()) != "kind.into()" {
                                return fail(e.span(), "start_node with another kind than the event's");
                            }
                            out.push(Act::Start)
                        }
                        "finish_node" => out.push(Act::Finish),
                        _ => return fail(e.span(), "unsupported builder call"),
                    }
                }
                _ => return fail(st.span(), "unsupported statement in build_tree"),
            },
            _ => return fail(st.span(), "unsupported statement in build_tree"),
        }
    }
    Ok(out)
}

fn body_block(e: &Expr) -> R<&Block> {
    match e {
        Expr::Block(b) => Ok(&b.block),
        _ => fail(e.span(), "expected a block"),
    }
}

fn lean_acts(acts: &[Act], sp: proc_macro2::Span) -> R<String> {
    let mut v = Vec::new();
    for a in acts {
        match a {
            Act::Eat(p, 0) => v.push(format!(".eat {p}")),
            Act::Start => v.push(".start".into()),
            _ => return fail(sp, "unsupported action in an Open arm"),
        }
    }
    Ok(format!("[{}]", v.join(", ")))
}

pub fn extract_policy(g: &Gen, file: &File) -> R<String> {
    let mut bt: Option<&ImplItemFn> = None;
    for it in &file.items {
        if let Item::Impl(im) = it {
            for ii in &im.items {
                if let ImplItem::Fn(f) = ii {
                    if f.sig.ident == "build_tree" {
                        bt = Some(f);
                    }
                }
            }
        }
    }
    let f = match bt {
        Some(f) => f,
        None => return Err(Fail("parser.rs: fn build_tree not found".into())),
    };
    let mut pop_last = false;
    let mut the_for: Option<&ExprForLoop> = None;
    let mut after: Vec<Stmt> = Vec::new();
    let mut seen_for = false;
    for st in &f.block.stmts {
        let s = norm_tokens(&st.to_token_stream());
        if !seen_for {
            if s == "events.pop();" {
                pop_last = true;
                continue;
            }
            if let Stmt::Expr(Expr::ForLoop(fl), _) = st {
                if norm_tokens(&fl.expr.to_token_stream()) != "events" {
                    return fail(st.span(), "build_tree must iterate over events");
                }
                the_for = Some(fl);
                seen_for = true;
                continue;
            }
            // declarations before the loop: builder, tokens, events, len, pos, macro n_tokens, closure eat_token
            let ok = s.starts_with("letmutbuilder=GreenNodeBuilder::default()")
                || s == "lettokens=self.tokens_raw;"
                || s == "letmutevents=self.events;"
                || s == "letlen=tokens.len();"
                || s == "letmutpos=0;"
                || s.starts_with("macro_rules!n_tokens{($ident:ident)=>{(pos..len).take_while(|&it|tokens.get(it).unwrap().kind.$ident()).count()};}")
                || s.starts_with("leteat_token=|n,builder:&mutGreenNodeBuilder,pos:&mutusize|{for_in0..n{letLexToken{kind,range,..}=tokens.get(*pos).unwrap();builder.token((*kind).into(),&self.src[*range]);*pos+=1;}};");
            if !ok {
                return fail(st.span(), "build_tree prologue changed (statement outside the modelled shape)");
            }
        } else {
            after.push(st.clone());
        }
    }
    let fl = match the_for {
        Some(x) => x,
        None => return fail(f.sig.span(), "build_tree event loop not found"),
    };
    // for event in events { match event { .. } }
    let m = match fl.body.stmts.as_slice() {
        [Stmt::Expr(Expr::Match(m), _)] => m,
        _ => return fail(fl.span(), "event loop body must be a single match"),
    };
    let mut on_open = String::new();
    let mut adv: Option<(String, u64)> = None;
    let mut close_ok = false;
    for arm in &m.arms {
        let ps = norm_tokens(&arm.pat.to_token_stream());
        if ps == "Event::Open{kind}" {
            let km = match &*arm.body {
                Expr::Match(km) if norm_tokens(&km.expr.to_token_stream()) == "kind" => km,
                _ => return fail(arm.span(), "Open arm must match on kind"),
            };
            let mut clauses = Vec::new();
            let mut default = None;
            for ka in &km.arms {
                let acts = acts_of_block(body_block(&ka.body)?)?;
                if acts.iter().filter(|a| matches!(a, Act::Start)).count() != 1 {
                    return fail(ka.span(), "an Open arm must start exactly one node");
                }
                let la = lean_acts(&acts, ka.span())?;
                if let Pat::Wild(_) = ka.pat {
                    default = Some(la);
                } else {
                    let mut ks = Vec::new();
                    pat_kinds(g, &ka.pat, &mut ks)?;
                    let cond = ks.iter().map(|k| format!("k == K_{k}")).collect::<Vec<_>>().join(" || ");
                    clauses.push((cond, la));
                }
            }
            let default = match default {
                Some(d) => d,
                None => return fail(km.span(), "Open arm without a default"),
            };
            on_open.push_str("fun k =>\n");
            for (c, a) in &clauses {
                on_open.push_str(&format!("    if {c} then {a} else\n"));
            }
            on_open.push_str(&format!("    {default}"));
        } else if ps == "Event::Close" {
            let acts = acts_of_block(body_block(&arm.body)?)?;
            if !matches!(acts.as_slice(), [Act::Finish]) {
                return fail(arm.span(), "Close arm must be exactly builder.finish_node()");
            }
            close_ok = true;
        } else if ps == "Event::Advance" {
            let acts = acts_of_block(body_block(&arm.body)?)?;
            match acts.as_slice() {
                [Act::Eat(p, n)] => adv = Some((p.clone(), *n)),
                _ => return fail(arm.span(), "Advance arm must be one eat_token"),
            }
        } else {
            return fail(arm.span(), "unknown event arm");
        }
    }
    if !close_ok || on_open.is_empty() {
        return fail(m.span(), "event match lacks an Open or Close arm");
    }
    let (adv_pred, adv_extra) = match adv {
        Some(x) => x,
        None => return fail(m.span(), "event match lacks an Advance arm"),
    };
    // epilogue
    let mut final_flush: Option<String> = None;
    let mut final_close = false;
    let mut rest = Vec::new();
    for st in &after {
        rest.push(st.clone());
    }
    // last statement must be the Parse { green: builder.finish(), errors: self.errors } expression
    let last = rest.pop();
    match last {
        Some(Stmt::Expr(e, None)) if norm_tokens(&e.to_token_stream()) == "Parse{green:builder.finish(),errors:self.errors,}" => {}
        _ => return fail(f.sig.span(), "build_tree no longer ends with Parse { green: builder.finish(), errors: self.errors }"),
    }
    let blk = Block { brace_token: Default::default(), stmts: rest };
    let acts = acts_of_block(&blk)?;
    for a in acts {
        match a {
            Act::Eat(p, 0) if final_flush.is_none() && !final_close => final_flush = Some(p),
            Act::Finish if !final_close => final_close = true,
            _ => return fail(f.sig.span(), "unsupported build_tree epilogue"),
        }
    }
    let mut s = String::new();
    s.push_str("import Glas.Model.Tree\nimport Glas.Gen.Kind\n/-! GENERATED by xlate from `Parser::build_tree` (crates/syntax/src/parser.rs) — do not edit. -/\nnamespace Glas.Gen\nopen Glas.Tree\n\n");
    s.push_str(&format!(
        "def glasPolicy : Policy := {{\n  onOpen := {on_open},\n  advPred := {adv_pred},\n  advExtra := {adv_extra},\n  popLast := {pop_last},\n  finalFlush := {},\n  finalClose := {final_close} }}\n\nend Glas.Gen\n",
        match &final_flush {
            Some(p) => format!("some {p}"),
            None => "none".into(),
        }
    ));
    Ok(s)
}
